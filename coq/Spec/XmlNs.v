(* Spec/XmlNs.v — specification side of property C03 (writer half).

   Imports nothing from Gen/ or Model/.  Contents:
   * the writer event type (what EventGenerator.generate yields);
   * `xdoc`: a tokenised XML document (concrete syntax: lexical qnames, xmlns
     declarations, attributes with their quoted raw values, raw character data);
   * XML 1.0 (5th ed.) character classes, reference expansion, line-end and
     attribute-value normalisation;
   * XML Namespaces 1.0 resolution `resolve : xdoc -> option inode`;
   * `itree_of_events`: the independent reading of what an event list means;
   * `says e t`: the infoset tree `t` says exactly what the expected tree `e`
     prescribes (QName-typed values compared after resolving their prefix in scope). *)
From Coq Require Import NArith List Bool.
From XV Require Import Base.Str Base.Eqb.
Import ListNotations.
Open Scope N_scope.

(* ------------------------------------------------------------------ names, events *)
Definition qname := (option str * str)%type.          (* namespace URI (None = no namespace), local name *)
Definition qname_eqb (a b : qname) : bool := ostr_eqb (fst a) (fst b) && str_eqb (snd a) (snd b).

Inductive atom :=
| AText (s : str)              (* already encoded text *)
| AQName (q : qname).          (* xml.etree QName object, rendered by the writer with a prefix *)

Inductive wvalue :=
| VNone
| VAtom (a : atom)
| VList (l : list atom).       (* token lists; nested empty lists are flattened to AText "" *)

Inductive wevent :=
| WStart (q : qname)
| WAttr (q : qname) (v : wvalue)
| WData (v : wvalue)
| WEnd (q : qname).

(* ------------------------------------------------------------------ constants *)
Definition c_lt := 60.  Definition c_gt := 62.  Definition c_amp := 38.
Definition c_quot := 34. Definition c_apos := 39. Definition c_semi := 59.
Definition c_colon := 58. Definition c_hash := 35. Definition c_x := 120.
Definition c_lbrace := 123. Definition c_rbrace := 125. Definition c_space := 32.
Definition c_rbracket := 93.

Definition s_xml : str := [120;109;108].
Definition s_xmlns : str := [120;109;108;110;115].
(* http://www.w3.org/XML/1998/namespace *)
Definition ns_xml : str :=
  [104;116;116;112;58;47;47;119;119;119;46;119;51;46;111;114;103;47;88;77;76;47;49;57;57;56;47;110;97;109;101;115;112;97;99;101].
(* http://www.w3.org/2000/xmlns/ *)
Definition ns_xmlns : str :=
  [104;116;116;112;58;47;47;119;119;119;46;119;51;46;111;114;103;47;50;48;48;48;47;120;109;108;110;115;47].
(* http://www.w3.org/2001/XMLSchema-instance *)
Definition ns_xsi : str :=
  [104;116;116;112;58;47;47;119;119;119;46;119;51;46;111;114;103;47;50;48;48;49;47;88;77;76;83;99;104;101;109;97;45;105;110;115;116;97;110;99;101].
Definition q_xsi_nil : qname := (Some ns_xsi, [110;105;108]).
Definition q_xsi_type : qname := (Some ns_xsi, [116;121;112;101]).

(* ------------------------------------------------------------------ XML 1.0 character classes *)
Definition in_range (lo hi c : N) : bool := (lo <=? c) && (c <=? hi).

(* Char ::= #x9 | #xA | #xD | [#x20-#xD7FF] | [#xE000-#xFFFD] | [#x10000-#x10FFFF] *)
Definition is_xml_char (c : N) : bool :=
  (c =? 9) || (c =? 10) || (c =? 13) || in_range 32 55295 c || in_range 57344 65533 c
  || in_range 65536 1114111 c.

(* NameStartChar without ':' (NCName) — XML 1.0 fifth edition *)
Definition is_ncname_start (c : N) : bool :=
  in_range 65 90 c || (c =? 95) || in_range 97 122 c || in_range 192 214 c || in_range 216 246 c
  || in_range 248 767 c || in_range 880 893 c || in_range 895 8191 c || in_range 8204 8205 c
  || in_range 8304 8591 c || in_range 11264 12271 c || in_range 12289 55295 c
  || in_range 63744 64975 c || in_range 65008 65533 c || in_range 65536 983039 c.
Definition is_ncname_char (c : N) : bool :=
  is_ncname_start c || (c =? 45) || (c =? 46) || in_range 48 57 c || (c =? 183)
  || in_range 768 879 c || in_range 8255 8256 c.
Definition is_ncname (s : str) : bool :=
  match s with
  | [] => false
  | c :: r => is_ncname_start c && forallb is_ncname_char r
  end.

(* ------------------------------------------------------------------ concrete syntax *)
Inductive xtoken :=
| XStart (name : str) (decls : list (option str * str)) (attrs : list (str * str))
    (* <name xmlns:p="raw" ... a=QUOTED ...>   decls: raw text between the double quotes;
       attrs: the value as written *including* its quote characters *)
| XEmpty (name : str) (decls : list (option str * str)) (attrs : list (str * str))   (* <name .../> *)
| XEnd (name : str)                                                                 (* </name> *)
| XText (raw : str).                                                                (* character data as written *)
Definition xdoc := list xtoken.

(* The printer: the inverse of the (trusted) XML tokeniser. *)
Definition pr_decl (d : option str * str) : str :=
  match fst d with
  | Some p => [32] ++ s_xmlns ++ [c_colon] ++ p ++ [61; c_quot] ++ snd d ++ [c_quot]
  | None => [32] ++ s_xmlns ++ [61; c_quot] ++ snd d ++ [c_quot]
  end.
Definition pr_attr (a : str * str) : str := [32] ++ fst a ++ [61] ++ snd a.
Definition pr_open (n : str) (ds : list (option str * str)) (ats : list (str * str)) : str :=
  [c_lt] ++ n ++ flat_map pr_decl ds ++ flat_map pr_attr ats.
Definition pr_token (t : xtoken) : str :=
  match t with
  | XStart n ds ats => pr_open n ds ats ++ [c_gt]
  | XEmpty n ds ats => pr_open n ds ats ++ [47; c_gt]
  | XEnd n => [c_lt; 47] ++ n ++ [c_gt]
  | XText raw => raw
  end.
Definition print_xdoc (d : xdoc) : str := flat_map pr_token d.

(* ------------------------------------------------------------------ references and normalisation *)
Definition hex_val (c : N) : option N :=
  if in_range 48 57 c then Some (c - 48)
  else if in_range 97 102 c then Some (c - 87)
  else if in_range 65 70 c then Some (c - 55) else None.
Fixpoint num_val (base : N) (acc : N) (s : str) : option N :=
  match s with
  | [] => Some acc
  | c :: r => match hex_val c with
              | Some d => if d <? base then num_val base (acc * base + d) r else None
              | None => None
              end
  end.

(* the name between '&' and ';' -> the character it denotes *)
Definition decode_ref (name : str) : option N :=
  match name with
  | [97;109;112] => Some c_amp
  | [108;116] => Some c_lt
  | [103;116] => Some c_gt
  | [113;117;111;116] => Some c_quot
  | [97;112;111;115] => Some c_apos
  | 35 :: 120 :: ((_ :: _) as ds) => match num_val 16 0 ds with
                                  | Some v => if is_xml_char v then Some v else None
                                  | None => None end
  | 35 :: ((_ :: _) as ds) => match num_val 10 0 ds with
                           | Some v => if is_xml_char v then Some v else None
                           | None => None end
  | _ => None
  end.

(* XML 1.0 §2.11: CRLF and lone CR become LF, on the raw input *)
Fixpoint norm_eol (s : str) : str :=
  match s with
  | [] => []
  | c :: r =>
      if c =? 13 then
        10 :: match r with
              | c' :: r' => if c' =? 10 then norm_eol r' else norm_eol r
              | [] => []
              end
      else c :: norm_eol r
  end.

(* expansion of references; `lit` maps a literal (non-reference) character,
   `st` = Some acc while reading a reference name (reversed) *)
Fixpoint expand (lit : N -> N) (st : option str) (s : str) : option str :=
  match s with
  | [] => match st with None => Some [] | Some _ => None end
  | c :: r =>
      match st with
      | None =>
          if c =? c_amp then expand lit (Some []) r
          else if c =? c_lt then None
          else if is_xml_char c then option_map (cons (lit c)) (expand lit None r) else None
      | Some acc =>
          if c =? c_semi then
            match decode_ref (rev acc) with
            | Some ch => option_map (cons ch) (expand lit None r)
            | None => None
            end
          else expand lit (Some (c :: acc)) r
      end
  end.

Fixpoint has_cdata_end (s : str) : bool :=
  match s with
  | a :: r => (match r with
               | b :: c :: _ => (a =? c_rbracket) && (b =? c_rbracket) && (c =? c_gt)
               | _ => false
               end) || has_cdata_end r
  | [] => false
  end.

(* character data -> the text the parser reports; None = not well-formed *)
Definition text_value (raw : str) : option str :=
  if has_cdata_end raw then None else expand (fun c => c) None (norm_eol raw).

(* §3.3.3: literal white space in an attribute value becomes a space *)
Definition att_lit (c : N) : N := if (c =? 9) || (c =? 10) || (c =? 13) then 32 else c.

(* the value between the quotes *)
Definition attr_inner_value (q : N) (inner : str) : option str :=
  if mem q inner then None else expand att_lit None (norm_eol inner).

(* a quoted attribute value as written -> value *)
Definition attr_value (quoted : str) : option str :=
  match quoted with
  | q :: r =>
      if (q =? c_quot) || (q =? c_apos) then
        match rev r with
        | q' :: inner_rev => if q' =? q then attr_inner_value q (rev inner_rev) else None
        | [] => None
        end
      else None
  | [] => None
  end.

(* ------------------------------------------------------------------ infoset *)
Inductive inode :=
| IText (s : str)
| IElem (name : qname) (decls : list (option str * str)) (attrs : list (qname * str)) (kids : list inode).

(* syntax tree before namespace resolution *)
Inductive rnode :=
| RText (raw : str)
| RElem (name : str) (decls : list (option str * str)) (attrs : list (str * str)) (kids : list rnode).

Definition rframe := (str * list (option str * str) * list (str * str) * list rnode)%type.

Definition add_kid (k : rnode) (stack : list rframe) (roots : list rnode) : list rframe * list rnode :=
  match stack with
  | (n, ds, ats, ks) :: rest => ((n, ds, ats, k :: ks) :: rest, roots)
  | [] => ([], k :: roots)
  end.

(* nesting: start/end tags match by lexical name *)
Fixpoint build (toks : xdoc) (stack : list rframe) (roots : list rnode) : option (list rnode) :=
  match toks with
  | [] => match stack with [] => Some (rev roots) | _ => None end
  | XStart n ds ats :: r => build r ((n, ds, ats, []) :: stack) roots
  | XEmpty n ds ats :: r => let (st, ro) := add_kid (RElem n ds ats []) stack roots in build r st ro
  | XEnd n :: r =>
      match stack with
      | (n', ds, ats, ks) :: rest =>
          if str_eqb n n' then
            let (st, ro) := add_kid (RElem n' ds ats (rev ks)) rest roots in build r st ro
          else None
      | [] => None
      end
  | XText raw :: r =>
      match raw with
      | [] => build r stack roots
      | _ => match stack with
             | [] => if forallb xml_ws raw then build r stack roots   (* S is allowed around the document element *)
                     else None                  (* character data outside the document element *)
             | _ => let (st, ro) := add_kid (RText raw) stack roots in build r st ro
             end
      end
  end.

Definition parse_tree (d : xdoc) : option rnode :=
  match build d [] [] with
  | Some [RElem n ds ats ks] => Some (RElem n ds ats ks)
  | _ => None
  end.

(* ------------------------------------------------------------------ namespaces *)
Definition env := list (option str * str).     (* innermost first; uri [] = undeclared *)

Fixpoint env_get (e : env) (p : option str) : option str :=
  match e with
  | [] => None
  | (p', u) :: r => if ostr_eqb p p' then Some u else env_get r p
  end.

(* prefix -> namespace name; the xml prefix is bound by definition *)
Definition lookup_prefix (e : env) (p : str) : option str :=
  if str_eqb p s_xml then Some ns_xml
  else match env_get e (Some p) with
       | Some ((_ :: _) as u) => Some u
       | _ => None
       end.
Definition default_ns (e : env) : option str :=
  match env_get e None with
  | Some ((_ :: _) as u) => Some u
  | _ => None
  end.

(* lexical QName -> (prefix, local); both parts must be NCNames *)
Definition split_lex (n : str) : option (option str * str) :=
  match find_chr c_colon n with
  | None => if is_ncname n then Some (None, n) else None
  | Some i =>
      let p := firstn i n in
      let l := skipn (S i) n in
      if is_ncname p && is_ncname l then Some (Some p, l) else None
  end.

Definition elem_name (e : env) (n : str) : option qname :=
  match split_lex n with
  | Some (None, l) => Some (default_ns e, l)
  | Some (Some p, l) =>
      if str_eqb p s_xmlns then None
      else match lookup_prefix e p with Some u => Some (Some u, l) | None => None end
  | None => None
  end.

Definition attr_name (e : env) (n : str) : option qname :=
  match split_lex n with
  | Some (None, l) => if str_eqb l s_xmlns then None else Some (None, l)
  | Some (Some p, l) =>
      if str_eqb p s_xmlns then None
      else match lookup_prefix e p with Some u => Some (Some u, l) | None => None end
  | None => None
  end.

(* one declaration: the value is an attribute value written between double quotes *)
Definition decl_value (d : option str * str) : option (option str * str) :=
  match attr_inner_value c_quot (snd d) with
  | Some u => Some (fst d, u)
  | None => None
  end.

Definition decl_ok (d : option str * str) : bool :=
  match d with
  | (None, u) => negb (str_eqb u ns_xml) && negb (str_eqb u ns_xmlns)
  | (Some p, u) =>
      is_ncname p && negb (str_eqb p s_xmlns) && negb (str_eqb u ns_xmlns)
      && (match u with [] => false | _ => true end)                 (* NS 1.0: no un-declaring of prefixes *)
      && Bool.eqb (str_eqb p s_xml) (str_eqb u ns_xml)                   (* xml <-> its namespace, only *)
  end.

Fixpoint nodup_by {A} (eq : A -> A -> bool) (l : list A) : bool :=
  match l with
  | [] => true
  | x :: r => negb (existsb (eq x) r) && nodup_by eq r
  end.

Fixpoint map_opt {A B} (f : A -> option B) (l : list A) : option (list B) :=
  match l with
  | [] => Some []
  | x :: r => match f x, map_opt f r with
              | Some y, Some ys => Some (y :: ys)
              | _, _ => None
              end
  end.

Definition resolve_attr (e : env) (a : str * str) : option (qname * str) :=
  match attr_name e (fst a), attr_value (snd a) with
  | Some q, Some v => Some (q, v)
  | _, _ => None
  end.

(* adjacent character data is one text node; empty ones do not exist *)
Fixpoint merge_text (l : list inode) : list inode :=
  match l with
  | [] => []
  | IText a :: r =>
      match merge_text r with
      | IText b :: r' => IText (a ++ b) :: r'
      | r' => match a with [] => r' | _ => IText a :: r' end
      end
  | x :: r => x :: merge_text r
  end.

Fixpoint resolve_node (e : env) (n : rnode) : option inode :=
  match n with
  | RText raw => option_map IText (text_value raw)
  | RElem name decls attrs kids =>
      match map_opt decl_value decls with
      | None => None
      | Some ds =>
          if forallb decl_ok ds && nodup_by ostr_eqb (map fst ds)
             && nodup_by str_eqb (map fst attrs) then
            let e' := rev ds ++ e in
            match elem_name e' name, map_opt (resolve_attr e') attrs with
            | Some q, Some ats =>
                if nodup_by qname_eqb (map fst ats) then
                  match (fix go (ks : list rnode) : option (list inode) :=
                           match ks with
                           | [] => Some []
                           | k :: r => match resolve_node e' k, go r with
                                       | Some a, Some b => Some (a :: b)
                                       | _, _ => None
                                       end
                           end) kids with
                  | Some ks => Some (IElem q ds ats (merge_text ks))
                  | None => None
                  end
                else None
            | _, _ => None
            end
          else None
      end
  end.

Definition resolve (d : xdoc) : option inode :=
  match parse_tree d with
  | Some t => resolve_node [] t
  | None => None
  end.

(* the infoset without its namespace declarations and with attributes as given *)
Fixpoint erase_ns (t : inode) : inode :=
  match t with
  | IText s => IText s
  | IElem q _ ats ks => IElem q [] ats (map erase_ns ks)
  end.

(* ------------------------------------------------------------------ what the events mean *)
Inductive enode :=
| EData (atoms : list atom)
| EElem (name : qname) (attrs : list (qname * list atom)) (kids : list enode).

(* "{uri}local" -> (uri, local); written independently of the model's split_qname *)
Definition clark_split (s : str) : qname :=
  match s with
  | c :: r =>
      if c =? c_lbrace then
        match find_chr c_rbrace r with
        | Some i => match firstn i r, skipn (S i) r with
                    | (_ :: _) as u, (_ :: _) as l => (Some u, l)
                    | _, _ => (None, s)
                    end
        | None => (None, s)
        end
      else (None, s)
  | [] => (None, s)
  end.

Definition atoms_of_value (v : wvalue) : option (list atom) :=
  match v with
  | VNone => None
  | VAtom a => Some [a]
  | VList [] => None
  | VList l => Some l
  end.

(* a value that renders as the empty string contributes no character data *)
Definition atoms_trivial (l : list atom) : bool :=
  match l with
  | [] => true
  | [AText []] => true
  | [AQName (None, [])] => true
  | _ => false
  end.

(* the atoms of an attribute value; xsi:type written as a string in Clark notation denotes a QName *)
Definition attr_atoms (q : qname) (v : wvalue) : option (list atom) :=
  match v with
  | VAtom (AText s) =>
      if qname_eqb q q_xsi_type && startswith [c_lbrace] s then Some [AQName (clark_split s)]
      else Some [AText s]
  | _ => atoms_of_value v
  end.

Record eframe := { ef_name : qname; ef_attrs : list (qname * list atom); ef_kids : list enode;
                   ef_content : bool (* a child or a value was supplied *);
                   ef_started : bool (* content has begun: no more attributes *) }.

Fixpoint set_attr (q : qname) (v : list atom) (l : list (qname * list atom)) : list (qname * list atom) :=
  match l with
  | [] => [(q, v)]
  | (q', v') :: r => if qname_eqb q q' then (q', v) :: r else (q', v') :: set_attr q v r
  end.

Definition close_frame (f : eframe) : enode :=
  let ats := if ef_content f then filter (fun a => negb (qname_eqb (fst a) q_xsi_nil)) (ef_attrs f)
             else ef_attrs f in
  EElem (ef_name f) ats (rev (ef_kids f)).

Definition push_kid (k : enode) (content : bool) (stack : list eframe) : option (list eframe) :=
  match stack with
  | f :: rest => Some ({| ef_name := ef_name f; ef_attrs := ef_attrs f; ef_kids := k :: ef_kids f;
                          ef_content := ef_content f || content; ef_started := true |} :: rest)
  | [] => None
  end.

Fixpoint etree_go (evs : list wevent) (stack : list eframe) (root : option enode) : option enode :=
  match evs with
  | [] => match stack with [] => root | _ => None end
  | WStart q :: r =>
      match stack, root with
      | [], Some _ => None                                      (* a second document element *)
      | _, _ =>
          let stack' := match stack with
                        | f :: rest => {| ef_name := ef_name f; ef_attrs := ef_attrs f; ef_kids := ef_kids f;
                                          ef_content := true; ef_started := true |} :: rest
                        | [] => []
                        end in
          etree_go r ({| ef_name := q; ef_attrs := []; ef_kids := []; ef_content := false;
                         ef_started := false |} :: stack') root
      end
  | WAttr q v :: r =>
      match stack, attr_atoms q v with
      | f :: rest, Some l =>
          if ef_started f then None
          else etree_go r ({| ef_name := ef_name f; ef_attrs := set_attr q l (ef_attrs f);
                              ef_kids := ef_kids f; ef_content := ef_content f;
                              ef_started := false |} :: rest) root
      | _, _ => None
      end
  | WData v :: r =>
      match stack with
      | f :: rest =>
          let f' := match atoms_of_value v with
                    | Some l => {| ef_name := ef_name f; ef_attrs := ef_attrs f;
                                   ef_kids := if atoms_trivial l then ef_kids f else EData l :: ef_kids f;
                                   ef_content := true; ef_started := true |}
                    | None => {| ef_name := ef_name f; ef_attrs := ef_attrs f; ef_kids := ef_kids f;
                                 ef_content := ef_content f; ef_started := true |}
                    end in
          etree_go r (f' :: rest) root
      | [] => None
      end
  | WEnd q :: r =>
      match stack with
      | f :: rest =>
          if qname_eqb q (ef_name f) then
            match rest with
            | p :: rest' =>
                etree_go r ({| ef_name := ef_name p; ef_attrs := ef_attrs p;
                               ef_kids := close_frame f :: ef_kids p;
                               ef_content := true; ef_started := true |} :: rest') root
            | [] => etree_go r [] (Some (close_frame f))
            end
          else None
      | [] => None
      end
  end.

Definition itree_of_events (evs : list wevent) : option enode := etree_go evs [] None.

(* SerializerConfig.schema_location / no_namespace_schema_location: attributes of the
   document element (an attribute event of the same name replaces the value) *)
Definition q_xsi_schema_location : qname :=
  (Some ns_xsi, [115;99;104;101;109;97;76;111;99;97;116;105;111;110]).
Definition q_xsi_no_ns_schema_location : qname :=
  (Some ns_xsi, [110;111;78;97;109;101;115;112;97;99;101;83;99;104;101;109;97;76;111;99;97;116;105;111;110]).
Definition root_extra (schema_location no_ns_schema_location : option str) : list wevent :=
  (match schema_location with Some v => [WAttr q_xsi_schema_location (VAtom (AText v))] | None => [] end)
  ++ (match no_ns_schema_location with Some v => [WAttr q_xsi_no_ns_schema_location (VAtom (AText v))] | None => [] end).
(* ... as if they were the first attribute events of the document element *)
Definition with_root_attrs (extra : list wevent) (evs : list wevent) : list wevent :=
  match evs with
  | WStart q :: r => WStart q :: extra ++ r
  | _ => evs
  end.
Definition expected_tree (schema_location no_ns_schema_location : option str) (evs : list wevent) : option enode :=
  itree_of_events (with_root_attrs (root_extra schema_location no_ns_schema_location) evs).

(* ------------------------------------------------------------------ says *)
Definition split_colon (s : str) : option str * str :=
  match find_chr c_colon s with
  | Some i => (Some (firstn i s), skipn (S i) s)
  | None => (None, s)
  end.

(* the lexical QName `x` denotes, in scope `e`, the expected name `q`.
   An unprefixed lexical QName denotes the default namespace if there is one;
   a QName without namespace has no other spelling, so it is accepted unprefixed. *)
Definition lex_denotes (e : env) (q : qname) (x : str) : bool :=
  match split_colon x with
  | (None, l) => str_eqb l (snd q)
                 && (match fst q with None => true | Some u => ostr_eqb (default_ns e) (Some u) end)
  | (Some p, l) => str_eqb l (snd q)
                   && (match fst q with
                       | Some u => ostr_eqb (lookup_prefix e p) (Some u)
                       | None => false end)
  end.

Definition atom_matches (e : env) (a : atom) (x : str) : bool :=
  match a with
  | AText s => str_eqb s x
  | AQName q => lex_denotes e q x
  end.

(* split at the first space *)
Definition cut_space (s : str) : option (str * str) :=
  match find_chr c_space s with
  | Some i => Some (firstn i s, skipn (S i) s)
  | None => None
  end.

(* the text `t` is the space-joined rendering of the atoms *)
Fixpoint atoms_match (e : env) (l : list atom) (t : str) : bool :=
  match l with
  | [] => match t with [] => true | _ => false end
  | [a] => atom_matches e a t
  | a :: r =>
      match a with
      | AText s => startswith (s ++ [c_space]) t && atoms_match e r (skipn (S (length s)) t)
      | AQName q => match cut_space t with
                    | Some (x, rest) => lex_denotes e q x && atoms_match e r rest
                    | None => false
                    end
      end
  end.

Fixpoint says (e : env) (x : enode) (t : inode) : bool :=
  match x, t with
  | EData atoms, IText s => atoms_match e atoms s
  | EElem q eats ekids, IElem q' ds tats tkids =>
      let e' := rev ds ++ e in
      qname_eqb q q'
      && Nat.eqb (length eats) (length tats)
      && forallb (fun ea => existsb (fun ta => qname_eqb (fst ea) (fst ta)
                                               && atoms_match e' (snd ea) (snd ta)) tats) eats
      (* children in order; consecutive data events are one text node in the document, so
         one text node may be consumed by several expected data items, piece by piece *)
      && (fix go (es : list enode) (ts : list inode) : bool :=
            match es with
            | [] => match ts with [] => true | _ => false end
            | EData atoms :: es' =>
                match ts with
                | IText s :: ts' =>
                    existsb (fun i => atoms_match e' atoms (firstn i s)
                                      && go es' (if Nat.eqb i (length s) then ts' else IText (skipn i s) :: ts'))
                            (seq 0 (S (length s)))
                | _ => false
                end
            | (EElem _ _ _ as x1) :: es' =>
                match ts with
                | t1 :: ts' => says e' x1 t1 && go es' ts'
                | [] => false
                end
            end) ekids tkids
  | _, _ => false
  end.

Definition doc_says (x : enode) (t : inode) : bool := says [] x t.
