(* Spec/GraphSpec.v — specification side of C12 (reproducible generation).
   Independent of Gen/ and Model/: directed graphs as a vertex predicate and an
   edge relation, reachability, strongly connected components as mutual
   reachability classes, equality of partitions up to order, and what "the same
   set / the same dictionary of sets written in another iteration order" means. *)
From Coq Require Import List Bool.
Import ListNotations.

Section GraphSpec.
  Context {A : Type}.

  (* two lists denote the same Python set *)
  Definition seteq (a b : list A) : Prop := forall x, In x a <-> In x b.

  (* two lists of components denote the same set of sets *)
  Definition partition_equiv (p q : list (list A)) : Prop :=
    (forall c, In c p -> exists c', In c' q /\ seteq c c') /\
    (forall c, In c q -> exists c', In c' p /\ seteq c c').

  Section Rel.
    Variable V : A -> Prop.          (* vertices = keys of the edges dict *)
    Variable R : A -> A -> Prop.     (* u -> w : w in edges[u] *)

    Inductive reach : A -> A -> Prop :=
    | reach_refl : forall u, reach u u
    | reach_step : forall u w v, R u w -> reach w v -> reach u v.

    Definition mreach (u v : A) : Prop := reach u v /\ reach v u.

    Definition same_comp (comps : list (list A)) (u v : A) : Prop :=
      exists c, In c comps /\ In u c /\ In v c.

    (* comps is THE partition of the vertices into strongly connected components *)
    Definition scc_spec (comps : list (list A)) : Prop :=
      (forall v, V v <-> In v (concat comps)) /\
      NoDup (concat comps) /\
      (forall c, In c comps -> c <> []) /\
      (forall u v, V u -> V v -> (same_comp comps u v <-> mreach u v)).
  End Rel.

  (* the same graph presented through another dict / list / set iteration order *)
  Definition graph_equiv (V V' : A -> Prop) (R R' : A -> A -> Prop) : Prop :=
    (forall v, V v <-> V' v) /\ (forall u w, R u w <-> R' u w).
End GraphSpec.
