(* Spec/XsdCm.v — what C02 adds on top of Spec/Cm.v for XML Schema:
     * wildcards with namespace constraints (schema side `wns`, binding side `fns`),
     * content models over qualified names `xcm`, their language `xlang`,
     * the binding abstract `xfield`/`xmeta` with namespace-constrained wildcard fields and the
       greedy slot assignment of ElementNode.child over it,
     * the validator `xcheck`: the content model and the metadata are ENCODED into Spec/Cm.v's
       `cm`/`meta` over a finite alphabet (known names + one representative per namespace class),
       and Spec/Cm.v's `check` is run on the encoding (soundness: Proofs/XsdCm.v, from Proofs/Cm.v),
     * a schema as a table of type definitions (attribute uses with default/fixed and their simple
       types, simple content, nillable, mixed, substitution groups already expanded into choices,
       xsi:type-derived types), typed validity of a document, and the canonical typed infoset
       (defaults applied, insignificant white space dropped, values canonical per simple type).
   Specification side: imports neither Gen/ nor Model/. *)
From Coq Require Import NArith ZArith List Bool Arith Permutation.
From XV Require Import Base.Str Base.Eqb Spec.Cm Spec.XsdVal.
Import ListNotations.
Local Close Scope N_scope.
Local Open Scope nat_scope.

(* ---------------------------------------------------------------- namespaces of Clark names *)
Definition ns := option str.                       (* None: no namespace *)
Definition ns_eqb : ns -> ns -> bool := opt_eqb str_eqb.

Definition ns_of (q : name) : ns :=
  match q with
  | 123%N :: r => let (u, rest) := span (fun c => negb (N.eqb c 125)) r in
                  match rest with [] => None | _ => Some u end
  | _ => None
  end.

Definition local_of (q : name) : str :=
  match q with
  | 123%N :: r => let (_, rest) := span (fun c => negb (N.eqb c 125)) r in
                  match rest with [] => q | _ :: l => l end
  | _ => q
  end.

(* schema side: xs:any / xs:anyAttribute namespace="..." *)
Inductive wns :=
| WAny                              (* ##any *)
| WOther (t : ns)                   (* ##other: not the target namespace and not absent *)
| WIn (l : list ns).                (* list of ##local (None), ##targetNamespace, URIs *)

Definition wns_allows (c : wns) (n : ns) : bool :=
  match c with
  | WAny => true
  | WOther t => negb (ns_eqb n t) && negb (ns_eqb n None)
  | WIn l => existsb (ns_eqb n) l
  end.
Definition wns_mentions (c : wns) : list ns :=
  match c with WAny => [] | WOther t => [t; None] | WIn l => l end.
Definition wns_fresh (c : wns) : bool := match c with WIn _ => false | _ => true end.

(* binding side: XmlVar.namespaces as _match_namespace reads it *)
Inductive fatom :=
| FAny                              (* "##any" *)
| FIs (n : ns)                      (* "" (no namespace) or a URI *)
| FNot (u : str).                   (* "!uri": anything but uri — the absent namespace included *)
Definition fns := list fatom.

Definition fatom_allows (a : fatom) (n : ns) : bool :=
  match a with FAny => true | FIs m => ns_eqb n m | FNot u => negb (ns_eqb n (Some u)) end.
Definition fns_allows (c : fns) (n : ns) : bool := existsb (fun a => fatom_allows a n) c.
Definition fatom_mentions (a : fatom) : list ns :=
  match a with FAny => [] | FIs m => [m] | FNot u => [Some u] end.
Definition fns_mentions (c : fns) : list ns := concat (map fatom_mentions c).
Definition fatom_fresh (a : fatom) : bool := match a with FIs _ => false | _ => true end.
Definition fns_fresh (c : fns) : bool := existsb fatom_fresh c.

(* ---------------------------------------------------------------- content models *)
Inductive xcm :=
| XEl (q : name)
| XSeq (l : list xcm)
| XChoice (l : list xcm)
| XAll (l : list xcm)
| XAny (c : wns)
| XOcc (mn : nat) (mx : enat) (c : xcm).

Inductive xlang : xcm -> list name -> Prop :=
| XL_el q : xlang (XEl q) [q]
| XL_seq_nil : xlang (XSeq []) []
| XL_seq_cons c r w1 w2 : xlang c w1 -> xlang (XSeq r) w2 -> xlang (XSeq (c :: r)) (w1 ++ w2)
| XL_choice_here c r w : xlang c w -> xlang (XChoice (c :: r)) w
| XL_choice_there c r w : xlang (XChoice r) w -> xlang (XChoice (c :: r)) w
| XL_all l l' w : Permutation l l' -> xlang (XSeq l') w -> xlang (XAll l) w
| XL_any c q : wns_allows c (ns_of q) = true -> xlang (XAny c) [q]
| XL_occ mn mx c ws : mn <= length ws -> ele (length ws) mx -> Forall (xlang c) ws -> xlang (XOcc mn mx c) (concat ws).

(* the same language through Spec/Cm.v (its wildcard takes any predicate): used for the decidable matcher *)
Fixpoint to_cm (c : xcm) : cm :=
  match c with
  | XEl q => Elem q
  | XSeq l => Seq (map to_cm l)
  | XChoice l => Choice (map to_cm l)
  | XAll l => All (map to_cm l)
  | XAny w => AnyElem (fun q => wns_allows w (ns_of q))
  | XOcc mn mx c => Occ mn mx (to_cm c)
  end.
Definition xmatches_cm (c : xcm) (w : list name) : bool := matches (to_cm c) w.

(* A matcher of its own for the typed validity check: Brzozowski derivatives on xcm with the alternatives of a
   choice flattened and de-duplicated (structural equality is decidable on xcm: wildcards are data here), so
   that ambiguous models with nested optional repetitions do not blow up. *)
Definition wns_eqb (a b : wns) : bool :=
  match a, b with
  | WAny, WAny => true
  | WOther s, WOther t => ns_eqb s t
  | WIn l, WIn m => list_eqb ns_eqb l m
  | _, _ => false
  end.
Definition enat_eqb (a b : enat) : bool := opt_eqb Nat.eqb a b.

Fixpoint xcm_eqb (a b : xcm) : bool :=
  match a, b with
  | XEl p, XEl q => name_eqb p q
  | XSeq l, XSeq m | XChoice l, XChoice m | XAll l, XAll m =>
      (fix go (l m : list xcm) : bool :=
         match l, m with
         | [], [] => true
         | x :: l', y :: m' => xcm_eqb x y && go l' m'
         | _, _ => false
         end) l m
  | XAny c, XAny d => wns_eqb c d
  | XOcc mn mx c, XOcc mn' mx' d => (mn =? mn') && enat_eqb mx mx' && xcm_eqb c d
  | _, _ => false
  end.

Definition XEmpty : xcm := XChoice [].
Definition x_is_empty (c : xcm) : bool := match c with XChoice [] => true | _ => false end.
Definition x_is_eps (c : xcm) : bool := match c with XSeq [] => true | _ => false end.

Fixpoint xnullable (c : xcm) : bool :=
  match c with
  | XEl _ | XAny _ => false
  | XSeq l | XAll l => forallb xnullable l
  | XChoice l => existsb xnullable l
  | XOcc mn _ c => (mn =? 0) || xnullable c
  end.

Fixpoint dedupe (l : list xcm) : list xcm :=
  match l with
  | [] => []
  | x :: r => if existsb (xcm_eqb x) r then dedupe r else x :: dedupe r
  end.

(* partial derivatives (Antimirov): the SET of residual models after reading one child; residuals are kept as
   flat sequences of sub-models of the original, so the number of distinct states stays linear in the model
   (times the bounded counters) *)
Definition seq_cat (p : xcm) (r : list xcm) : xcm :=
  match p, r with
  | XSeq l, _ => XSeq (l ++ r)
  | _, [] => p
  | _, _ => XSeq (p :: r)
  end.

Fixpoint xpd (a : name) (c : xcm) : list xcm :=
  match c with
  | XEl q => if name_eqb q a then [XSeq []] else []
  | XAny w => if wns_allows w (ns_of a) then [XSeq []] else []
  | XSeq l =>
      (fix go (l : list xcm) : list xcm :=
         match l with
         | [] => []
         | c :: r => map (fun p => seq_cat p r) (xpd a c) ++ (if xnullable c then go r else [])
         end) l
  | XChoice l => concat (map (xpd a) l)
  | XAll l =>
      (fix dall (pre l : list xcm) : list xcm :=
         match l with
         | [] => []
         | c :: r => map (fun p => seq_cat p [XAll (rev pre ++ r)]) (xpd a c) ++ dall (c :: pre) r
         end) [] l
  | XOcc mn mx c => if ezero mx then [] else map (fun p => seq_cat p [XOcc (pred mn) (epred mx) c]) (xpd a c)
  end.

Fixpoint xrun (states : list xcm) (w : list name) : bool :=
  match w with
  | [] => existsb xnullable states
  | a :: r => match dedupe (concat (map (xpd a) states)) with
              | [] => false
              | st' => xrun st' r
              end
  end.
Definition xmatches (c : xcm) (w : list name) : bool := xrun [c] w.

Fixpoint xalphabet (c : xcm) : list name :=
  match c with
  | XEl q => [q]
  | XSeq l | XChoice l | XAll l => concat (map xalphabet l)
  | XAny _ => []
  | XOcc _ _ c => xalphabet c
  end.

Fixpoint xmentioned (c : xcm) : list ns :=
  match c with
  | XEl _ => []
  | XSeq l | XChoice l | XAll l => concat (map xmentioned l)
  | XAny w => wns_mentions w
  | XOcc _ _ c => xmentioned c
  end.

(* ---------------------------------------------------------------- binding metadata *)
Record xfield := mk_xfield {
  xf_names : list name;          (* qnames routed to this field *)
  xf_wild : option fns;          (* a wildcard var (or a compound var with a wildcard choice): its namespaces *)
  xf_bounded : bool;             (* holds one item *)
  xf_required : bool;            (* constructor argument without default *)
  xf_rank : nat                  (* XmlVar.index *)
}.

Definition xfmatch (f : xfield) (q : name) : bool :=
  existsb (name_eqb q) (xf_names f) ||
  match xf_wild f with Some c => fns_allows c (ns_of q) | None => false end.

Record xmeta := mk_xmeta { xm_fields : list xfield; xm_text : bool; xm_mixed : bool }.

Definition xslots := list (xfield * bool).
Definition xinit_slots (fs : list xfield) : xslots := map (fun f => (f, false)) fs.

Fixpoint xtake_slot (st : xslots) (q : name) : option xslots :=
  match st with
  | [] => None
  | (f, a) :: r =>
      if xfmatch f q then
        if negb (xf_bounded f) then Some ((f, a) :: r)
        else if a then option_map (cons (f, a)) (xtake_slot r q)
        else Some ((f, true) :: r)
      else option_map (cons (f, a)) (xtake_slot r q)
  end.

Fixpoint xrun_slots (st : xslots) (w : list name) : option xslots :=
  match w with
  | [] => Some st
  | q :: r => match xtake_slot st q with Some st' => xrun_slots st' r | None => None end
  end.

Definition xrequired_ok (st : xslots) : bool :=
  forallb (fun p => negb (xf_required (fst p)) || negb (xf_bounded (fst p)) || snd p) st.

Definition xaccepts_word (m : xmeta) (w : list name) : bool :=
  match xrun_slots (xinit_slots (xm_fields m)) w with
  | Some st => xrequired_ok st
  | None => false
  end.

(* index and rank of the field a child named q goes to first *)
Fixpoint xfirst_idx (fs : list xfield) (q : name) : option nat :=
  match fs with
  | [] => None
  | f :: r => if xfmatch f q then Some 0 else option_map S (xfirst_idx r q)
  end.
Definition xdflt_field : xfield := mk_xfield [] None false false 0.
Definition xrank_of (fs : list xfield) (q : name) : nat :=
  match xfirst_idx fs q with
  | Some i => xf_rank (nth i fs xdflt_field)
  | None => match fs with f :: _ => xf_rank f | [] => 0 end
  end.

(* ---------------------------------------------------------------- metadata of two option sets *)
Definition xfield_eqb (a b : xfield) : bool :=
  list_eqb name_eqb (xf_names a) (xf_names b)
  && opt_eqb (list_eqb (fun x y => match x, y with
                                   | FAny, FAny => true
                                   | FIs m, FIs n => ns_eqb m n
                                   | FNot u, FNot v => str_eqb u v
                                   | _, _ => false end)) (xf_wild a) (xf_wild b)
  && Bool.eqb (xf_bounded a) (xf_bounded b) && Bool.eqb (xf_required a) (xf_required b) && (xf_rank a =? xf_rank b).


(* the abstract of the metadata two option sets must agree on: collection factories (list / tuple) and the
   nesting of the classes are not part of xmeta at all; what is left must coincide *)
Definition meta_equiv (m m' : xmeta) : bool :=
  list_eqb xfield_eqb (xm_fields m) (xm_fields m') && Bool.eqb (xm_text m) (xm_text m') && Bool.eqb (xm_mixed m) (xm_mixed m').


(* ---------------------------------------------------------------- the encoding into Spec/Cm.v
   Known names K stay themselves; any other name is represented by one abstract letter per
   namespace class: a namespace mentioned by some wildcard (NSS), or "any other namespace". *)
Definition wname (cls : option ns) : name :=
  match cls with
  | None => [0%N]
  | Some None => [0%N; 0%N]
  | Some (Some u) => 0%N :: 1%N :: u
  end.

Definition cls_of (NSS : list ns) (n : ns) : option ns := if existsb (ns_eqb n) NSS then Some n else None.

Definition abs_name (K : list name) (NSS : list ns) (q : name) : name :=
  if existsb (name_eqb q) K then q else wname (cls_of NSS (ns_of q)).

Definition wild_names (K : list name) (NSS : list ns) (allows : ns -> bool) (fresh : bool) : list name :=
  filter (fun k => allows (ns_of k)) K ++ map (fun n => wname (Some n)) (filter allows NSS)
  ++ (if fresh then [wname None] else []).

Fixpoint enc_cm (K : list name) (NSS : list ns) (c : xcm) : cm :=
  match c with
  | XEl q => Elem q
  | XSeq l => Seq (map (enc_cm K NSS) l)
  | XChoice l => Choice (map (enc_cm K NSS) l)
  | XAll l => All (map (enc_cm K NSS) l)
  | XAny w => Choice (map Elem (wild_names K NSS (wns_allows w) (wns_fresh w)))
  | XOcc mn mx c => Occ mn mx (enc_cm K NSS c)
  end.

Definition enc_field (K : list name) (NSS : list ns) (f : xfield) : efield :=
  mk_efield (xf_names f ++ match xf_wild f with
                           | Some c => wild_names K NSS (fns_allows c) (fns_fresh c)
                           | None => [] end)
            false (xf_bounded f) (xf_required f) (xf_rank f).

Definition enc_meta (K : list name) (NSS : list ns) (m : xmeta) : meta :=
  mk_meta (map (enc_field K NSS) (xm_fields m)) (xm_text m) (xm_mixed m).

Definition field_mentions (f : xfield) : list ns :=
  match xf_wild f with Some c => fns_mentions c | None => [] end.

Definition known_names (c : xcm) (m : xmeta) : list name := xalphabet c ++ concat (map xf_names (xm_fields m)).
Definition known_nss (c : xcm) (m : xmeta) : list ns := xmentioned c ++ concat (map field_mentions (xm_fields m)).

(* no real element name starts with U+0000, so the abstract letters are fresh *)
Definition clean_name (k : name) : bool := match k with 0%N :: _ => false | _ => true end.
Definition names_clean (K : list name) : bool := forallb clean_name K.

Definition xenc_cm (c : xcm) (m : xmeta) : cm := enc_cm (known_names c m) (known_nss c m) c.
Definition xenc_meta (c : xcm) (m : xmeta) : meta := enc_meta (known_names c m) (known_nss c m) m.

(* the validator for element content *)
Definition xcheck_children (c : xcm) (m : xmeta) : bool :=
  names_clean (known_names c m) && check_children (xenc_cm c m) (xenc_meta c m).

Definition xorder_safe (c : xcm) (m : xmeta) : bool :=
  names_clean (known_names c m) && order_safe (xenc_cm c m) (xenc_meta c m).

(* a shortest valid word the metadata rejects, over the encoded alphabet (abstract letters stand for
   "some element of that namespace class") *)
Definition xrejected_word (c : xcm) (m : xmeta) : option (list name) := rejected_word (xenc_cm c m) (xenc_meta c m).

(* ---------------------------------------------------------------- the property's own side condition for order:
   every repeating group is a choice of single elements, or the top-level sequence of single elements *)
Fixpoint xsingle_names (c : xcm) : bool :=
  match c with
  | XEl _ => true
  | XChoice l => forallb (fun x => match x with XEl _ => true | XChoice _ => xsingle_names x | _ => false end) l
  | _ => false
  end.

Fixpoint xrep_confined (c : xcm) : bool :=
  match c with
  | XEl _ | XAny _ => true
  | XSeq l | XChoice l | XAll l => forallb xrep_confined l
  | XOcc _ mx b => if enat_leb mx (Some 1) then xrep_confined b else xsingle_names b
  end.

Definition xtop_seq_of_singles (c : xcm) : bool :=
  match c with
  | XOcc _ _ (XSeq l) => forallb (fun x => match x with XEl _ => true | _ => false end) l
  | _ => false
  end.

Definition xorder_claimed (c : xcm) : bool := xrep_confined c || xtop_seq_of_singles c.

(* ---------------------------------------------------------------- schemas *)
Record xattr := mk_xattr { xa_name : name; xa_use : attr_use; xa_type : stype }.
Record xdecl := mk_xdecl {
  xd_name : name; xd_type : nat; xd_nillable : bool; xd_default : option str; xd_fixed : option str }.
Inductive xcontent := XCEmpty | XCSimple (t : stype) | XCElems (c : xcm) | XCMixed (c : xcm).
Record tdef := mk_tdef {
  td_content : xcontent;
  td_attrs : list xattr;
  td_anyattr : option wns;
  td_decls : list xdecl;               (* one per element name of the content model (Element Declarations Consistent) *)
  td_derived : list (name * nat);      (* what xsi:type may name: Clark type name -> type *)
  td_abstract : bool
}.
Definition schema := list tdef.
Definition empty_tdef : tdef := mk_tdef XCEmpty [] None [] [] false.
Definition get_type (s : schema) (t : nat) : tdef := nth t s empty_tdef.
Definition find_decl (d : tdef) (q : name) : option xdecl := find (fun x => name_eqb (xd_name x) q) (td_decls d).
Definition find_xattr (d : tdef) (q : name) : option xattr := find (fun x => name_eqb (xa_name x) q) (td_attrs d).
Definition tdef_cm (d : tdef) : xcm := match td_content d with XCElems c | XCMixed c => c | _ => XSeq [] end.

(* ---------------------------------------------------------------- documents *)
Inductive xdoc := DText (t : str) | DElem (q : name) (attrs : list (name * str)) (kids : list xdoc).

Definition XSI : str :=
  [123;104;116;116;112;58;47;47;119;119;119;46;119;51;46;111;114;103;47;50;48;48;49;47;88;77;76;83;99;104;101;109;97;
   45;105;110;115;116;97;110;99;101;125]%N.
Definition XSI_type : name := XSI ++ [116;121;112;101]%N.
Definition XSI_nil : name := XSI ++ [110;105;108]%N.
Definition XSI_loc : name := XSI ++ [115;99;104;101;109;97;76;111;99;97;116;105;111;110]%N.
Definition XSI_nnloc : name :=
  XSI ++ [110;111;78;97;109;101;115;112;97;99;101;83;99;104;101;109;97;76;111;99;97;116;105;111;110]%N.
Definition is_xsi (a : name) : bool := startswith XSI a.

Definition attr_get (attrs : list (name * str)) (a : name) : option str :=
  option_map snd (find (fun kv => name_eqb (fst kv) a) attrs).

Definition child_names (kids : list xdoc) : list name :=
  concat (map (fun k => match k with DElem q _ _ => [q] | DText _ => [] end) kids).
Definition text_of (kids : list xdoc) : str :=
  concat (map (fun k => match k with DText t => t | _ => [] end) kids).
Definition ws_only (t : str) : bool := forallb xml_ws t.
Definition has_text (kids : list xdoc) : bool :=
  existsb (fun k => match k with DText t => negb (ws_only t) | _ => false end) kids.
Definition has_elems (kids : list xdoc) : bool :=
  existsb (fun k => match k with DElem _ _ _ => true | _ => false end) kids.

Definition is_true_lex (v : str) : bool :=
  match canon_boolean (ws_collapse v) with Some c => str_eqb c L_true | None => false end.
Definition is_nil (attrs : list (name * str)) : bool :=
  match attr_get attrs XSI_nil with Some v => is_true_lex v | None => false end.

(* the type an element instance is read with: xsi:type (a Clark name here: prefixes are resolved
   by whoever builds the xdoc) must name a type derived from the declared one *)
Definition instance_type (s : schema) (t : nat) (attrs : list (name * str)) : option nat :=
  match attr_get attrs XSI_type with
  | None => Some t
  | Some qn => option_map snd (find (fun p => name_eqb (fst p) (ws_collapse qn)) (td_derived (get_type s t)))
  end.

Fixpoint depth (n : xdoc) : nat :=
  match n with DText _ => 1 | DElem _ _ kids => S (fold_right Nat.max 0 (map depth kids)) end.

(* --- typed validity (cross-checked against lxml's validator on every generated document) *)
Definition attr_valid (d : tdef) (kv : name * str) : bool :=
  let (a, v) := kv in
  if is_xsi a then true else
  match find_xattr d a with
  | Some x => value_valid (xa_type x) v
              && match xa_use x with AFixed f => value_eqb (xa_type x) v f | _ => true end
  | None => match td_anyattr d with Some w => wns_allows w (ns_of a) | None => false end
  end.

Definition attrs_valid (d : tdef) (attrs : list (name * str)) : bool :=
  forallb (attr_valid d) attrs
  && forallb (fun x => match xa_use x with
                       | AReq => match attr_get attrs (xa_name x) with Some _ => true | None => false end
                       | _ => true end) (td_attrs d).

Definition simple_text_valid (t : stype) (dflt fixed : option str) (txt : str) : bool :=
  match txt, dflt, fixed with
  | [], Some _, _ => true
  | [], _, Some _ => true
  | _, _, Some f => value_valid t txt && value_eqb t txt f
  | _, _, _ => value_valid t txt
  end.

Fixpoint svalid (fuel : nat) (s : schema) (t : nat) (nillable : bool) (dflt fixed : option str) (n : xdoc) : bool :=
  match fuel with
  | O => false
  | S f =>
      match n with
      | DText _ => true
      | DElem q attrs kids =>
          match instance_type s t attrs with
          | None => false
          | Some t' =>
              let d := get_type s t' in
              negb (td_abstract d) && attrs_valid d attrs &&
              if is_nil attrs then nillable && match kids with [] => true | _ => false end
              else
                match td_content d with
                | XCEmpty => match kids with [] => true | _ => false end
                | XCSimple st => negb (has_elems kids) && simple_text_valid st dflt fixed (text_of kids)
                | XCElems c | XCMixed c =>
                    (match td_content d with XCMixed _ => true | _ => negb (has_text kids) end)
                    && xmatches c (child_names kids)
                    && forallb (fun k => match k with
                                         | DText _ => true
                                         | DElem cq _ _ =>
                                             match find_decl d cq with
                                             | Some x => svalid f s (xd_type x) (xd_nillable x) (xd_default x) (xd_fixed x) k
                                             | None => true           (* matched by a wildcard: lax *)
                                             end
                                         end) kids
                end
          end
      end
  end.

(* --- the canonical typed infoset *)
Inductive ndoc :=
| NText (t : str)
| NRaw (d : xdoc)                                             (* wildcard-matched subtree: compared as is *)
| NElem (q : name) (ty : option nat) (attrs : list (name * str)) (kids : list ndoc).

Definition canon_or_ws (t : stype) (v : str) : str :=
  match canon_value t v with Some c => c | None => ws_apply (ws_of t) v end.

Definition norm_attr (d : tdef) (kv : name * str) : name * str :=
  let (a, v) := kv in
  if name_eqb a XSI_nil then (a, if is_true_lex v then L_true else L_false)
  else if name_eqb a XSI_type then (a, ws_collapse v)
  else (a, v).

(* Known deviations of the implementation, each of which can be switched off in the comparison so that a
   difference is attributed to exactly the deviations needed to explain it (Model/XsdCorr.v: doc_quirks):
     q_nil     instances of nillable declarations are ignored altogether, and so is the xsi:nil attribute
     q_empty   simple-typed elements with empty content that have NO default / fixed value, and declared attributes
               with an empty value, are ignored
     q_edef    (input side only) empty instances of simple-typed elements that DO declare a default / fixed value
               are MARKED: the output may lack them ("<e/> was lost") or have them; an element the input does not
               have at all is never excused
     q_mixed   character data next to child elements is ignored (mixed content, and text that ended up inside an
               element-only child); the element children are still compared
     q_union   union-typed elements and attributes: only their presence is compared, not their value
     q_alias   q_alias t q: under type t the child q shares a compound field with other primitive-typed
               choices (the serializer picks the choice by value, so names can be confused): only the
               number of such children is compared *)
Record quirks := mk_quirks { q_nil : bool; q_empty : bool; q_union : bool; q_alias : nat -> name -> bool; q_edef : bool;
                             q_mixed : bool }.
Definition no_alias : nat -> name -> bool := fun _ _ => false.
Definition no_quirks : quirks := mk_quirks false false false no_alias false false.

Definition is_list_type (t : stype) : bool := match t with STList _ => true | _ => false end.
Fixpoint is_union_type (t : stype) : bool :=
  match t with STUnion _ => true | STList i => is_union_type i | STAtom _ _ _ => false end.

(* declared attributes that are absent materialise with their default / fixed value; xsi:nil="false",
   schemaLocation hints carry no information *)
Definition norm_attrs (qk : quirks) (d : tdef) (attrs : list (name * str)) : list (name * str) :=
  let present := filter (fun kv => negb (name_eqb (fst kv) XSI_loc || name_eqb (fst kv) XSI_nnloc
                                        || (name_eqb (fst kv) XSI_nil && (q_nil qk || negb (is_true_lex (snd kv))))
                                        || (q_empty qk && ws_only (snd kv)
                                            && match find_xattr d (fst kv) with Some _ => true | None => false end))) attrs in
  let blank := fun (a : name) (v : str) =>
                 if q_union qk && match find_xattr d a with Some x => is_union_type (xa_type x) | None => false end
                 then ([] : str) else v in
  map (fun kv => let (a, v) := norm_attr d kv in (a, blank a v)) present
  ++ concat (map (fun x => match attr_get present (xa_name x), xa_use x with
                           | None, AFixed v | None, ADefault v => [(xa_name x, blank (xa_name x) v)]
                           | _, _ => [] end) (td_attrs d)).

Fixpoint merge_text (kids : list ndoc) : list ndoc :=
  match kids with
  | NText a :: r => match merge_text r with
                    | NText b :: r' => NText (a ++ b) :: r'
                    | r' => NText a :: r'
                    end
  | k :: r => k :: merge_text r
  | [] => []
  end.

Definition ALIAS : name := [0%N; 97%N].
Definition ndoc_empty (n : ndoc) : bool :=
  match n with NElem _ _ _ [] => true | NElem _ _ _ [NText t] => ws_only t | _ => false end.
Definition simple_of (d : tdef) : option stype := match td_content d with XCSimple st => Some st | _ => None end.

(* what a normalised child instance becomes under the quirks *)
(* an input instance that may be missing from the output without blame (q_edef): marked, not dropped *)
Definition EDEF_MARK : name := [0%N; 101%N].
Definition mark_edef (n : ndoc) : ndoc :=
  match n with NElem q ty attrs kids => NElem q ty ((EDEF_MARK, []) :: attrs) kids | _ => n end.
Definition is_marked (n : ndoc) : bool :=
  match n with NElem _ _ attrs _ => existsb (fun kv => name_eqb (fst kv) EDEF_MARK) attrs | _ => false end.
Definition unmark (attrs : list (name * str)) : list (name * str) :=
  filter (fun kv => negb (name_eqb (fst kv) EDEF_MARK)) attrs.

Definition raw_empty (k : xdoc) : bool :=
  match k with DElem _ _ ks => negb (has_elems ks) && ws_only (text_of ks) | DText _ => false end.

Definition quirk_child (qk : quirks) (s : schema) (t : nat) (x : xdecl) (k : xdoc) (nk : ndoc) : list ndoc :=
  let st := simple_of (get_type s (xd_type x)) in
  if q_alias qk t (xd_name x) then [NElem ALIAS None [] []]
  else if q_nil qk && xd_nillable x then []
  else if q_empty qk && raw_empty k && negb (match k with DElem _ a _ => is_nil a | _ => false end)
          && match st, xd_default x, xd_fixed x with Some _, None, None => true | _, _, _ => false end
       then []
  else if q_edef qk && raw_empty k && match st, xd_default x, xd_fixed x with Some _, None, None | None, _, _ => false | _, _, _ => true end
       then [mark_edef nk]
  else if q_union qk && match st with Some u => is_union_type u | None => false end then [NElem (xd_name x) None [] []]
  else [nk].

Fixpoint norm (qk : quirks) (fuel : nat) (s : schema) (t : nat) (dflt : option str) (n : xdoc) : ndoc :=
  match fuel with
  | O => NRaw n
  | S f =>
      match n with
      | DText x => NText x
      | DElem q attrs kids =>
          match instance_type s t attrs with
          | None => NRaw n
          | Some t' =>
              let d := get_type s t' in
              let attrs' := norm_attrs qk d attrs in
              if is_nil attrs && negb (q_nil qk) then NElem q (Some t') attrs' []
              else
                match td_content d with
                | XCEmpty => NElem q (Some t') attrs' []
                | XCSimple st =>
                    let txt := text_of kids in
                    let txt' := match txt, dflt with [], Some v => v | _, _ => txt end in
                    NElem q (Some t') attrs' [NText (if q_union qk && is_union_type st then [] else txt')]
                | XCElems _ | XCMixed _ =>
                    let mixed := match td_content d with XCMixed _ => true | _ => false end in
                    let keep_text := mixed && negb (q_mixed qk) in
                    let ks := concat (map (fun k => match k with
                                                    | DText x => if keep_text then [NText x] else
                                                                 if ws_only x || q_mixed qk then [] else [NText x]
                                                    | DElem cq _ _ =>
                                                        match find_decl d cq with
                                                        | Some x => quirk_child qk s t' x k
                                                                    (norm qk f s (xd_type x)
                                                                       (match xd_fixed x with Some v => Some v | None => xd_default x end) k)
                                                        | None => [NRaw k]
                                                        end
                                                    end) kids) in
                    NElem q (Some t') attrs' (merge_text ks)
                end
          end
      end
  end.

(* equality of canonical infosets; `ordered ty` says whether the children of an element of that type
   must come out in the same order *)
Fixpoint remove_first {A} (e : A -> A -> bool) (x : A) (l : list A) : option (list A) :=
  match l with
  | [] => None
  | y :: r => if e x y then Some r else option_map (cons y) (remove_first e x r)
  end.
Fixpoint perm_eqb {A} (e : A -> A -> bool) (a b : list A) : bool :=
  match a with
  | [] => match b with [] => true | _ => false end
  | x :: r => match remove_first e x b with Some b' => perm_eqb e r b' | None => false end
  end.

Definition attr_pair_eqb := pair_eqb name_eqb str_eqb.

Fixpoint xdoc_eqb (fuel : nat) (a b : xdoc) : bool :=
  match fuel with
  | O => false
  | S f =>
      match a, b with
      | DText s, DText t => str_eqb s t
      | DElem q xs ks, DElem q' ys ks' =>
          name_eqb q q' && perm_eqb attr_pair_eqb xs ys && list_eqb (xdoc_eqb f) ks ks'
      | _, _ => false
      end
  end.

(* values are compared as values of their simple type (Spec/XsdVal.v: value_eqb) *)
Definition typed_attr_eqb (len : bool) (d : tdef) (x y : name * str) : bool :=
  name_eqb (fst x) (fst y) &&
  match find_xattr d (fst x) with
  | Some a => value_eqb_gen len (xa_type a) (snd x) (snd y)
  | None => str_eqb (snd x) (snd y)
  end.

(* every item of b is matched by a distinct item of a; what is left of a must be marked *)
Fixpoint perm_sub {A} (e : A -> A -> bool) (marked : A -> bool) (a b : list A) : bool :=
  match b with
  | [] => forallb marked a
  | y :: r =>
      (* an unmarked partner first: the marked ones are the ones that may stay over *)
      match remove_first (fun y' x => negb (marked x) && e x y') y a with
      | Some a' => perm_sub e marked a' r
      | None => match remove_first (fun y' x => e x y') y a with
                | Some a' => perm_sub e marked a' r
                | None => false
                end
      end
  end.

Fixpoint ndoc_eqb_gen (len : bool) (fuel : nat) (s : schema) (ordered : option nat -> bool) (a b : ndoc) : bool :=
  match fuel with
  | O => false
  | S f =>
      match a, b with
      | NText x, NText y => str_eqb x y
      | NRaw x, NRaw y => xdoc_eqb (S (depth x)) x y
      | NElem q ty xs ks, NElem q' ty' ys ks' =>
          name_eqb q q' && opt_eqb Nat.eqb ty ty' &&
          match ty with
          | None => perm_eqb attr_pair_eqb (unmark xs) ys && list_eqb (ndoc_eqb_gen len f s ordered) ks ks'
          | Some t =>
              let d := get_type s t in
              perm_eqb (typed_attr_eqb len d) (unmark xs) ys &&
              match td_content d, ks, ks' with
              | XCSimple st, [NText x], [NText y] => value_eqb_gen len st x y
              | XCSimple _, [], [] => true
              | XCSimple _, _, _ => false
              | _, _, _ =>
                  if ordered ty then list_eqb (ndoc_eqb_gen len f s ordered) ks ks'
                  else perm_sub (ndoc_eqb_gen len f s ordered) is_marked ks ks'
              end
          end
      | _, _ => false
      end
  end.
Definition ndoc_eqb := ndoc_eqb_gen false.

(* merge adjacent text of raw subtrees and drop empty text: what any XML reader presents *)
Fixpoint tidy (fuel : nat) (n : xdoc) : xdoc :=
  match fuel with
  | O => n
  | S f =>
      match n with
      | DText _ => n
      | DElem q attrs kids =>
          DElem q attrs
            ((fix go (ks : list xdoc) : list xdoc :=
                match ks with
                | [] => []
                | DText a :: r => match go r with
                                  | DText b :: r' => DText (a ++ b) :: r'
                                  | r' => match a with [] => r' | _ => DText a :: r' end
                                  end
                | k :: r => tidy f k :: go r
                end) kids)
      end
  end.
