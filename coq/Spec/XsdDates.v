(* Spec/XsdDates.v — SPECIFICATION side for C06, written from XML Schema 1.1
   part 2 (§3.3.7-3.3.16, App. E) and the proleptic Gregorian calendar.
   Deliberately imports nothing from Gen/ or Model/.

   Lexical spaces are given generatively: a "spelling" record says which of the
   permitted alternatives a lexical form uses, `lex_*` prints it, `wf_*` is the
   XSD side condition and `val_*` the value XSD assigns. *)
From Coq Require Import NArith ZArith List Bool Lia.
From XV Require Import Base.Str Base.Dec.
Import ListNotations.
Open Scope Z_scope.

(* ---- the calendar --------------------------------------------------- *)
Definition spec_leap (y : Z) : bool :=
  ((y mod 4 =? 0) && negb (y mod 100 =? 0)) || (y mod 400 =? 0).

Definition spec_month_days (y m : Z) : Z :=
  match m with
  | 1 => 31 | 2 => if spec_leap y then 29 else 28 | 3 => 31 | 4 => 30
  | 5 => 31 | 6 => 30 | 7 => 31 | 8 => 31 | 9 => 30 | 10 => 31 | 11 => 30 | 12 => 31
  | _ => 0
  end.

Definition real_date (y m d : Z) : bool :=
  (1 <=? m) && (m <=? 12) && (1 <=? d) && (d <=? spec_month_days y m).

Definition real_time (h mi s f : Z) : bool :=
  ((0 <=? h) && (h <=? 23) && (0 <=? mi) && (mi <=? 59) && (0 <=? s) && (s <=? 59)
   && (0 <=? f) && (f <=? 999999999))
  || ((h =? 24) && (mi =? 0) && (s =? 0) && (f =? 0)).

(* XSD: -14:00 .. +14:00 *)
Definition real_offset (o : option Z) : bool :=
  match o with None => true | Some z => (-840 <=? z) && (z <=? 840) end.

(* ---- spellings ------------------------------------------------------ *)
(* two-digit field *)
Definition d2 (n : Z) : str := [Z.to_N (48 + n / 10); Z.to_N (48 + n mod 10)].

(* yearFrag ::= '-'? (([1-9] digit digit digit+) | ('0' digit digit digit)) *)
Record year_sp := mk_year_sp { y_neg : bool; y_digits : str }.
Definition wf_year (y : year_sp) : bool :=
  all_digits (y_digits y)
  && ((length (y_digits y) =? 4)%nat
      || ((4 <? length (y_digits y))%nat && negb (N.eqb (hd 48%N (y_digits y)) 48))).
Definition lex_year (y : year_sp) : str := (if y_neg y then [45%N] else []) ++ y_digits y.
Definition val_year (y : year_sp) : Z :=
  if y_neg y then - Z.of_N (str_val (y_digits y)) else Z.of_N (str_val (y_digits y)).

(* timezoneFrag ::= 'Z' | ('+' | '-') (('0' digit | '1' [0-3]) ':' minuteFrag | '14:00') *)
Inductive tz_sp := TzNone | TzZ | TzOff (neg : bool) (hh mm : Z).
Definition wf_tz (t : tz_sp) : bool :=
  match t with
  | TzOff _ hh mm => ((0 <=? hh) && (hh <=? 13) && (0 <=? mm) && (mm <=? 59)) || ((hh =? 14) && (mm =? 0))
  | _ => true
  end.
Definition lex_tz (t : tz_sp) : str :=
  match t with
  | TzNone => []
  | TzZ => [90%N]
  | TzOff neg hh mm => [if neg then 45%N else 43%N] ++ d2 hh ++ [58%N] ++ d2 mm
  end.
Definition val_tz (t : tz_sp) : option Z :=
  match t with
  | TzNone => None
  | TzZ => Some 0
  | TzOff neg hh mm => Some (if neg then - (hh * 60 + mm) else hh * 60 + mm)
  end.

(* secondFrag fraction: ('.' digit+)?  — the property bounds it to 9 digits *)
Definition wf_frac (fs : str) : bool := all_digits fs && (length fs <=? 9)%nat.
Definition lex_frac (fs : str) : str := match fs with [] => [] | _ => 46%N :: fs end.
Definition val_frac (fs : str) : Z := Z.of_N (str_val fs) * 10 ^ (9 - Z.of_nat (length fs)).

Record date_sp := mk_date_sp { ds_year : year_sp; ds_month : Z; ds_day : Z; ds_tz : tz_sp }.
Definition wf_date (d : date_sp) : bool :=
  wf_year (ds_year d) && real_date (val_year (ds_year d)) (ds_month d) (ds_day d) && wf_tz (ds_tz d).
Definition lex_date (d : date_sp) : str :=
  lex_year (ds_year d) ++ [45%N] ++ d2 (ds_month d) ++ [45%N] ++ d2 (ds_day d) ++ lex_tz (ds_tz d).

Record time_sp := mk_time_sp { ts_hour : Z; ts_minute : Z; ts_second : Z; ts_frac : str; ts_tz : tz_sp }.
Definition wf_time (t : time_sp) : bool :=
  wf_frac (ts_frac t) && real_time (ts_hour t) (ts_minute t) (ts_second t) (val_frac (ts_frac t)) && wf_tz (ts_tz t).
Definition lex_hmsf (h mi s : Z) (fs : str) : str :=
  d2 h ++ [58%N] ++ d2 mi ++ [58%N] ++ d2 s ++ lex_frac fs.
Definition lex_time (t : time_sp) : str :=
  lex_hmsf (ts_hour t) (ts_minute t) (ts_second t) (ts_frac t) ++ lex_tz (ts_tz t).

Record datetime_sp := mk_datetime_sp {
  dts_year : year_sp; dts_month : Z; dts_day : Z;
  dts_hour : Z; dts_minute : Z; dts_second : Z; dts_frac : str; dts_tz : tz_sp }.
Definition wf_datetime (t : datetime_sp) : bool :=
  wf_year (dts_year t) && real_date (val_year (dts_year t)) (dts_month t) (dts_day t)
  && wf_frac (dts_frac t)
  && real_time (dts_hour t) (dts_minute t) (dts_second t) (val_frac (dts_frac t)) && wf_tz (dts_tz t).
Definition lex_datetime (t : datetime_sp) : str :=
  lex_year (dts_year t) ++ [45%N] ++ d2 (dts_month t) ++ [45%N] ++ d2 (dts_day t) ++ [84%N]
  ++ lex_hmsf (dts_hour t) (dts_minute t) (dts_second t) (dts_frac t) ++ lex_tz (dts_tz t).

(* ---- the timeline ---------------------------------------------------- *)
(* days since 0000-03-01 (proleptic Gregorian), the usual era arithmetic *)
Definition days_from_civil (y m d : Z) : Z :=
  let y' := if m <=? 2 then y - 1 else y in
  let era := y' / 400 in
  let yoe := y' - era * 400 in
  let mp := (m + 9) mod 12 in
  let doy := (153 * mp + 2) / 5 + d - 1 in
  let doe := yoe * 365 + yoe / 4 - yoe / 100 + doy in
  era * 146097 + doe.

Definition off0 (o : option Z) : Z := match o with Some z => z | None => 0 end.

(* nanoseconds on the UTC timeline; a value without timezone is read as UTC
   (XSD leaves the comparison with zoned values partly indeterminate; this is
   the total order the library documents) *)
Definition instant_ns (y m d h mi s f : Z) (o : option Z) : Z :=
  ((days_from_civil y m d * 86400 + h * 3600 + mi * 60 + s) - off0 o * 60) * 1000000000 + f.

Definition time_ns (h mi s f : Z) (o : option Z) : Z :=
  ((h * 3600 + mi * 60 + s) - off0 o * 60) * 1000000000 + f.

(* the same timeline in microseconds, for an object given by calendar fields with microsecond
   precision (what the standard library's datetime holds) *)
Definition instant_us (y m d h mi s us : Z) (o : option Z) : Z :=
  ((days_from_civil y m d * 86400 + h * 3600 + mi * 60 + s) - off0 o * 60) * 1000000 + us.
Definition time_us (h mi s us : Z) (o : option Z) : Z :=
  ((h * 3600 + mi * 60 + s) - off0 o * 60) * 1000000 + us.

(* ---- xs:duration ------------------------------------------------------- *)
(* durationLexicalRep ::= '-'? 'P' ((duYearMonthFrag duDayTimeFrag?) | duDayTimeFrag)
   given generatively: each component is an optional non-empty digit string; the seconds
   may carry a fraction *)
Record duration_sp := mk_duration_sp {
  du_sp_neg : bool;
  du_sp_y : option str; du_sp_mo : option str; du_sp_d : option str;
  du_sp_h : option str; du_sp_mi : option str;
  du_sp_s : option (str * str)           (* integer digits, fraction digits ([] = no '.') *)
}.

Definition wf_digits (o : option str) : bool :=
  match o with None => true | Some ds => all_digits ds && negb (Nat.eqb (length ds) 0) end.
Definition wf_seconds (o : option (str * str)) : bool :=
  match o with
  | None => true
  | Some (i, f) => all_digits i && negb (Nat.eqb (length i) 0) && all_digits f
  end.
Definition is_some {A} (o : option A) : bool := match o with Some _ => true | None => false end.

Definition wf_duration (d : duration_sp) : bool :=
  wf_digits (du_sp_y d) && wf_digits (du_sp_mo d) && wf_digits (du_sp_d d)
  && wf_digits (du_sp_h d) && wf_digits (du_sp_mi d) && wf_seconds (du_sp_s d)
  && (is_some (du_sp_y d) || is_some (du_sp_mo d) || is_some (du_sp_d d)
      || is_some (du_sp_h d) || is_some (du_sp_mi d) || is_some (du_sp_s d)).

Definition lex_comp (o : option str) (letter : N) : str :=
  match o with Some ds => ds ++ [letter] | None => [] end.
Definition lex_secs (o : option (str * str)) : str :=
  match o with
  | Some (i, []) => i ++ [83%N]
  | Some (i, f) => i ++ [46%N] ++ f ++ [83%N]
  | None => []
  end.
Definition has_time (d : duration_sp) : bool :=
  is_some (du_sp_h d) || is_some (du_sp_mi d) || is_some (du_sp_s d).
Definition lex_duration (d : duration_sp) : str :=
  (if du_sp_neg d then [45%N] else []) ++ [80%N]
  ++ lex_comp (du_sp_y d) 89 ++ lex_comp (du_sp_mo d) 77 ++ lex_comp (du_sp_d d) 68
  ++ (if has_time d
      then [84%N] ++ lex_comp (du_sp_h d) 72 ++ lex_comp (du_sp_mi d) 77 ++ lex_secs (du_sp_s d)
      else []).
Definition val_comp (o : option str) : option Z := option_map (fun ds => Z.of_N (str_val ds)) o.
(* the text XSD assigns to the seconds: integer digits, optionally '.' fraction *)
Definition secs_text (o : option (str * str)) : option str :=
  match o with
  | Some (i, []) => Some i
  | Some (i, f) => Some (i ++ [46%N] ++ f)
  | None => None
  end.

(* ---- gDay, gMonth, gMonthDay, gYear, gYearMonth -------------------------- *)
Inductive period_sp :=
| GDay (d : Z) (t : tz_sp)
| GMonth (m : Z) (t : tz_sp)
| GMonthDay (m d : Z) (t : tz_sp)
| GYear (y : year_sp) (t : tz_sp)
| GYearMonth (y : year_sp) (m : Z) (t : tz_sp).

(* gMonthDay: the day must exist in that month of a leap year (--02-29 is valid) *)
Definition wf_period (p : period_sp) : bool :=
  match p with
  | GDay d t => (1 <=? d) && (d <=? 31) && wf_tz t
  | GMonth m t => (1 <=? m) && (m <=? 12) && wf_tz t
  | GMonthDay m d t => real_date 2000 m d && wf_tz t
  | GYear y t => wf_year y && wf_tz t
  | GYearMonth y m t => wf_year y && (1 <=? m) && (m <=? 12) && wf_tz t
  end.

Definition lex_period (p : period_sp) : str :=
  match p with
  | GDay d t => [45;45;45]%N ++ d2 d ++ lex_tz t
  | GMonth m t => [45;45]%N ++ d2 m ++ lex_tz t
  | GMonthDay m d t => [45;45]%N ++ d2 m ++ [45%N] ++ d2 d ++ lex_tz t
  | GYear y t => lex_year y ++ lex_tz t
  | GYearMonth y m t => lex_year y ++ [45%N] ++ d2 m ++ lex_tz t
  end.

(* (year, month, day, offset) *)
Definition val_period (p : period_sp) : option Z * option Z * option Z * option Z :=
  match p with
  | GDay d t => (None, None, Some d, val_tz t)
  | GMonth m t => (None, Some m, None, val_tz t)
  | GMonthDay m d t => (None, Some m, Some d, val_tz t)
  | GYear y t => (Some (val_year y), None, None, val_tz t)
  | GYearMonth y m t => (Some (val_year y), Some m, None, val_tz t)
  end.
