"""Inert stand-in for jinja2 (absent): lets xsdata.formats.dataclass.{filters,generator}
be imported.  Rendering templates is NOT possible; see harness/render_standin.py."""


class FileSystemLoader:
    def __init__(self, searchpath=None, **kw):
        self.searchpath = searchpath


class _Template:
    def __init__(self, name):
        self.name = name

    def render(self, *a, **kw):
        raise RuntimeError("jinja2 stand-in cannot render templates: " + str(self.name))


class Environment:
    def __init__(self, loader=None, **kw):
        self.loader = loader
        self.filters = {}
        self.globals = {}
        self.tests = {}

    def get_template(self, name):
        return _Template(name)
