"""Inert stand-in for requests (absent): lets xsdata.formats.dataclass.transports import."""


class Response:
    status_code = 200
    content = b""

    def raise_for_status(self):
        pass


class Session:
    def get(self, *a, **kw):
        raise RuntimeError("requests stand-in: no network")

    def post(self, *a, **kw):
        raise RuntimeError("requests stand-in: no network")

    def close(self):
        pass
