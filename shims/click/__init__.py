"""Stand-in for `click` (absent from the sandbox): only what xsdata imports at module
level outside the CLI.  The command line itself (xsdata/cli.py) is NOT usable."""
import sys


class ClickException(Exception):
    exit_code = 1

    def __init__(self, message):
        super().__init__(message)
        self.message = message

    def format_message(self):
        return self.message

    def __str__(self):
        return self.message


def echo(message=None, file=None, nl=True, err=False, color=None):
    out = file or (sys.stderr if err else sys.stdout)
    out.write(("" if message is None else str(message)) + ("\n" if nl else ""))


def style(text, **kw):
    return text


def secho(message=None, **kw):
    echo(message)
