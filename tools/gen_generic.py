"""Table generator plug-in for C11 (generic element model): coq/Gen/GenericTables.v.

Re-extracted with `ast` from the working tree on every run (fail-closed):
  * xsdata/models/enums.py: the DataType members (code, python type name, format,
    wrapper), Namespace.XS / Namespace.XSI uris and the XS prefix, the int_datatype
    bounds;
  * xsdata/models/enums.py: NamespaceType.ANY_NS.
Loaded by tools/gen_tables.py.
"""
import ast
import os
import sys

HERE = os.path.dirname(os.path.abspath(__file__))
sys.path.insert(0, HERE)
sys.path.insert(0, os.path.join(os.path.dirname(HERE), "harness"))
from coqterm import cZ, cstr, clist  # noqa: E402

REPO = os.environ.get("XSDATA_REPO", "/repo")


def _die(msg):
    raise SystemExit("gen_generic: " + msg)


def _cls(tree, name):
    found = [n for n in tree.body if isinstance(n, ast.ClassDef) and n.name == name]
    if len(found) != 1:
        _die(f"class {name} not found exactly once")
    return found[0]


def _num(node):
    if isinstance(node, ast.UnaryOp) and isinstance(node.op, ast.USub):
        return -_num(node.operand)
    if isinstance(node, ast.Constant) and isinstance(node.value, int) and not isinstance(node.value, bool):
        return node.value
    _die("expected an int literal, got " + ast.dump(node)[:80])


KIND = {"str": 0, "int": 1, "bool": 2}


def gen_generic():
    path = os.path.join(REPO, "xsdata/models/enums.py")
    with open(path, encoding="utf-8") as f:
        tree = ast.parse(f.read())
    # ---- Namespace
    ns = {}
    for st in _cls(tree, "Namespace").body:
        if isinstance(st, ast.Assign) and len(st.targets) == 1 and isinstance(st.targets[0], ast.Name):
            try:
                v = ast.literal_eval(st.value)
            except Exception:
                _die("Namespace member is not a literal")
            if not (isinstance(v, tuple) and len(v) == 2 and all(isinstance(x, str) for x in v)):
                _die("Namespace member shape")
            ns[st.targets[0].id] = v
    for k in ("XS", "XSI"):
        if k not in ns:
            _die(f"Namespace.{k} missing")
    # ---- NamespaceType
    nst = {}
    for st in _cls(tree, "NamespaceType").body:
        if isinstance(st, ast.Assign) and len(st.targets) == 1 and isinstance(st.targets[0], ast.Name):
            try:
                nst[st.targets[0].id] = ast.literal_eval(st.value)
            except Exception:
                _die("NamespaceType member is not a literal")
    for k in ("ANY_NS", "OTHER_NS", "LOCAL_NS", "TARGET_NS"):
        if not isinstance(nst.get(k), str):
            _die(f"NamespaceType.{k}")
    # ---- DataType members
    rows = []
    for st in _cls(tree, "DataType").body:
        if isinstance(st, ast.Assign) and len(st.targets) == 1 and isinstance(st.targets[0], ast.Name):
            v = st.value
            if not (isinstance(v, ast.Tuple) and 2 <= len(v.elts) <= 4):
                _die(f"DataType.{st.targets[0].id} shape")
            code = v.elts[0]
            tp = v.elts[1]
            if not (isinstance(code, ast.Constant) and isinstance(code.value, str) and isinstance(tp, ast.Name)):
                _die(f"DataType.{st.targets[0].id} shape")
            fmt = len(v.elts) > 2
            rows.append((st.targets[0].id, code.value, KIND.get(tp.id, 3) if not fmt else 3))
    if len(rows) < 40 or not any(r[0] == "STRING" for r in rows):
        _die("DataType table looks wrong")
    # DataType.__str__ must be "{XS uri}code"
    strfn = [n for n in _cls(tree, "DataType").body if isinstance(n, ast.FunctionDef) and n.name == "__str__"]
    if len(strfn) != 1 or "Namespace.XS.uri" not in ast.unparse(strfn[0]) or "self.code" not in ast.unparse(strfn[0]):
        _die("DataType.__str__ shape")
    # ---- int_datatype bounds
    fn = [n for n in tree.body if isinstance(n, ast.FunctionDef) and n.name == "int_datatype"]
    if len(fn) != 1:
        _die("int_datatype not found")
    body = fn[0].body
    if body and isinstance(body[0], ast.Expr) and isinstance(body[0].value, ast.Constant):
        body = body[1:]
    bounds = []
    for st in body[:-1]:
        ok = (isinstance(st, ast.If) and not st.orelse and len(st.body) == 1 and isinstance(st.body[0], ast.Return)
              and isinstance(st.test, ast.Compare) and len(st.test.ops) == 2
              and all(isinstance(o, ast.LtE) for o in st.test.ops)
              and isinstance(st.test.comparators[0], ast.Name) and st.test.comparators[0].id == "value"
              and isinstance(st.body[0].value, ast.Attribute))
        if not ok:
            _die("int_datatype: unexpected statement shape")
        bounds.append((_num(st.test.left), _num(st.test.comparators[1]), st.body[0].value.attr))
    last = body[-1]
    if not (isinstance(last, ast.Return) and isinstance(last.value, ast.Attribute)):
        _die("int_datatype: final return")
    code_of = {r[0]: r[1] for r in rows}
    # from_type / from_value for str and bool (the __DataTypeIndex__ literal)
    idx = [n for n in tree.body if isinstance(n, ast.Assign) and len(n.targets) == 1
           and isinstance(n.targets[0], ast.Name) and n.targets[0].id == "__DataTypeIndex__"]
    if len(idx) != 1 or not isinstance(idx[0].value, ast.Dict):
        _die("__DataTypeIndex__ shape")
    tindex = {}
    for k, v in zip(idx[0].value.keys, idx[0].value.values):
        if isinstance(k, ast.Name) and isinstance(v, ast.Attribute):
            tindex[k.id] = v.attr
    for k in ("str", "bool"):
        if k not in tindex:
            _die(f"__DataTypeIndex__[{k}]")
    infer = [n for n in tree.body if isinstance(n, (ast.Assign, ast.AnnAssign))
             and isinstance(getattr(n, "target", None) or n.targets[0], ast.Name)
             and (getattr(n, "target", None) or n.targets[0]).id == "__DataTypeInferIndex__"]
    if len(infer) != 1 or not isinstance(infer[0].value, ast.Dict):
        _die("__DataTypeInferIndex__ shape")
    infer_keys = [k.id for k in infer[0].value.keys if isinstance(k, ast.Name)]
    if "int" not in infer_keys or "str" in infer_keys or "bool" in infer_keys:
        _die("__DataTypeInferIndex__ keys changed")

    out = ("(* GENERATED by tools/gen_generic.py from xsdata/models/enums.py — do not edit *)\n"
           "From Coq Require Import NArith ZArith List.\nImport ListNotations.\nOpen Scope N_scope.\n")
    out += f"Definition xs_uri : list N := {cstr(ns['XS'][0])}.\n"
    out += f"Definition xs_prefix : list N := {cstr(ns['XS'][1])}.\n"
    out += f"Definition xsi_uri : list N := {cstr(ns['XSI'][0])}.\n"
    out += f"Definition any_ns_kw : list N := {cstr(nst['ANY_NS'])}.\n"
    out += f"Definition other_ns_kw : list N := {cstr(nst['OTHER_NS'])}.\n"
    out += f"Definition local_ns_kw : list N := {cstr(nst['LOCAL_NS'])}.\n"
    out += f"Definition target_ns_kw : list N := {cstr(nst['TARGET_NS'])}.\n"
    out += "(* (code, kind): kind 0 = str, 1 = int, 2 = bool, 3 = anything else (not modelled) *)\n"
    out += "Definition datatype_tbl : list (list N * N) := " + clist(rows, lambda r: f"({cstr(r[1])}, {r[2]})") + ".\n"
    out += ("Definition int_datatype_bounds : list (Z * Z * list N) := "
            + clist(bounds, lambda b: f"({cZ(b[0])}, {cZ(b[1])}, {cstr(code_of[b[2]])})") + ".\n")
    out += f"Definition int_datatype_default : list N := {cstr(code_of[last.value.attr])}.\n"
    out += f"Definition str_datatype_code : list N := {cstr(code_of[tindex['str']])}.\n"
    out += f"Definition bool_datatype_code : list N := {cstr(code_of[tindex['bool']])}.\n"
    return out


GENERATORS = {"GenericTables.v": gen_generic}
