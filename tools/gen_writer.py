"""Table generator plug-in for the Writer topic (property C03, writer half).

Extracts from xsdata/models/enums.py, with `ast` only:
  * Namespace members (uri, prefix)            -> std_namespaces
  * DataType member codes + DataType.__str__   -> datatype_qnames (keys of __DataTypeQNameIndex__)
  * QNames.XSI_*                               -> qn_xsi_* (Clark strings)
and from xsdata/formats/dataclass/serializers/mixins.py the XSI_NIL tuple shape.
Fail-closed: any unrecognised shape aborts the check.
"""
import ast
import os
import sys

HERE = os.path.dirname(os.path.abspath(__file__))
sys.path.insert(0, os.path.join(os.path.dirname(HERE), "harness"))
from coqterm import cstr, clist  # noqa: E402


def _die(msg):
    raise SystemExit("gen_writer: " + msg)


def gen_writer_tables():
    from gen_tables import Src, HEADER  # late import: gen_tables loads this plug-in

    e = Src("xsdata/models/enums.py")
    # ---- Namespace members
    cls = [n for n in e.tree.body if isinstance(n, ast.ClassDef) and n.name == "Namespace"]
    if len(cls) != 1:
        _die("class Namespace")
    members = {}
    for node in cls[0].body:
        if isinstance(node, ast.Assign) and len(node.targets) == 1 and isinstance(node.targets[0], ast.Name):
            try:
                v = ast.literal_eval(node.value)
            except Exception:
                _die("Namespace member is not a literal")
            if not (isinstance(v, tuple) and len(v) == 2 and all(isinstance(x, str) for x in v)):
                _die("Namespace member shape")
            members[node.targets[0].id] = v
    for need in ("XS", "XSI", "XML"):
        if need not in members:
            _die("Namespace." + need)
    # get_enum must be a lookup by uri in a dict of all members
    ge = ast.unparse(e.func("get_enum", "Namespace").body[-1])
    if ge != "return __STANDARD_NAMESPACES__.get(uri) if uri else None":
        _die("Namespace.get_enum body changed: " + ge)
    sn = ast.unparse(e.const_node("__STANDARD_NAMESPACES__"))
    if sn != "{ns.uri: ns for ns in Namespace}":
        _die("__STANDARD_NAMESPACES__ changed: " + sn)

    # ---- f-string evaluation over Namespace.<M>.<uri|prefix> and self.code
    def fstr(node, env):
        if isinstance(node, ast.Constant) and isinstance(node.value, str):
            return node.value
        if isinstance(node, ast.Call) and ast.unparse(node.func) == "sys.intern" and len(node.args) == 1:
            return fstr(node.args[0], env)
        if not isinstance(node, ast.JoinedStr):
            _die("not an f-string: " + ast.unparse(node))
        out = ""
        for part in node.values:
            if isinstance(part, ast.Constant):
                out += part.value
            elif isinstance(part, ast.FormattedValue) and part.conversion == -1 and part.format_spec is None:
                src = ast.unparse(part.value)
                if src in env:
                    out += env[src]
                else:
                    _die("unknown f-string part " + src)
            else:
                _die("f-string shape")
        return out

    env = {}
    for k, (uri, prefix) in members.items():
        env[f"Namespace.{k}.uri"] = uri
        env[f"Namespace.{k}.prefix"] = prefix
    qn = {}
    qcls = [n for n in e.tree.body if isinstance(n, ast.ClassDef) and n.name == "QNames"]
    if len(qcls) != 1:
        _die("class QNames")
    for node in qcls[0].body:
        if isinstance(node, ast.Assign) and isinstance(node.targets[0], ast.Name):
            qn[node.targets[0].id] = fstr(node.value, env)
    for need in ("XSI_NIL", "XSI_TYPE", "XSI_SCHEMA_LOCATION", "XSI_NO_NAMESPACE_SCHEMA_LOCATION"):
        if need not in qn:
            _die("QNames." + need)

    # ---- DataType codes and __str__
    dcls = [n for n in e.tree.body if isinstance(n, ast.ClassDef) and n.name == "DataType"]
    if len(dcls) != 1:
        _die("class DataType")
    codes = []
    for node in dcls[0].body:
        if isinstance(node, ast.Assign) and len(node.targets) == 1 and isinstance(node.targets[0], ast.Name):
            v = node.value
            if not (isinstance(v, ast.Tuple) and v.elts and isinstance(v.elts[0], ast.Constant)
                    and isinstance(v.elts[0].value, str)):
                _die("DataType member shape: " + node.targets[0].id)
            codes.append(v.elts[0].value)
    strf = e.func("__str__", "DataType")
    ret = strf.body[-1]
    if not isinstance(ret, ast.Return):
        _die("DataType.__str__ shape")
    idx = ast.unparse(e.const_node("__DataTypeQNameIndex__"))
    if idx != "{str(dt): dt for dt in DataType}":
        _die("__DataTypeQNameIndex__ changed: " + idx)
    fq = ast.unparse(e.func("from_qname", "DataType").body[-1])
    if fq != "return __DataTypeQNameIndex__.get(qname)":
        _die("DataType.from_qname changed: " + fq)
    dqn = []
    for c in codes:
        env2 = dict(env)
        env2["self.code"] = c
        dqn.append(fstr(ret.value, env2))

    # ---- XSI_NIL in mixins.py
    m = Src("xsdata/formats/dataclass/serializers/mixins.py")
    xn = ast.unparse(m.const_node("XSI_NIL"))
    if xn != "(Namespace.XSI.uri, 'nil')":
        _die("mixins.XSI_NIL changed: " + xn)

    out = HEADER.format(src="xsdata/models/enums.py, xsdata/formats/dataclass/serializers/mixins.py")
    out += "Open Scope N_scope.\n"
    out += "Definition std_namespaces : list (list N * list N) := " + clist(
        [f"({cstr(u)}, {cstr(p)})" for (u, p) in members.values()], str) + ".\n"
    out += f"Definition xs_uri : list N := {cstr(members['XS'][0])}.\n"
    out += f"Definition xsi_uri : list N := {cstr(members['XSI'][0])}.\n"
    out += f"Definition xml_uri : list N := {cstr(members['XML'][0])}.\n"
    out += f"Definition xsi_nil_local : list N := {cstr('nil')}.\n"
    for k in ("XSI_NIL", "XSI_TYPE", "XSI_SCHEMA_LOCATION", "XSI_NO_NAMESPACE_SCHEMA_LOCATION"):
        out += f"Definition qn_{k.lower()} : list N := {cstr(qn[k])}.\n"
    out += "Definition datatype_qnames : list (list N) := " + clist([cstr(x) for x in dqn], str) + ".\n"
    return out


GENERATORS = {"WriterTables.v": gen_writer_tables}
