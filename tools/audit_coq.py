#!/usr/bin/env python3
"""Audit of the Coq development, as a stranger would do it: no Admitted/admit/Axiom/Parameter/Conjecture,
no Variable/Hypothesis/Context outside a Section, no switched-off kernel checks, no quick-compilation flags.
Comments are stripped first.  Prints one line per hit and exits 1 if there is any."""
import os, re, sys
ROOT = os.path.join(os.path.dirname(os.path.dirname(os.path.abspath(__file__))), "coq")
FORBID = re.compile(r"\b(Admitted|admit|give_up|Axiom|Axioms|Parameter|Parameters|Conjecture|Conjectures|"
                    r"Admit\s+Obligations|bypass_check|Unset\s+Guard\s+Checking|Unset\s+Positivity\s+Checking|"
                    r"Unset\s+Universe\s+Checking|Set\s+Type\s+In\s+Type|native_compute)\b")
SECT = re.compile(r"^\s*(Section|Module\s+Type|Module|End)\s+([A-Za-z0-9_']+)\s*(\.|:|<:|\()", re.M)
VARS = re.compile(r"^\s*(?:Local\s+|Global\s+|Polymorphic\s+)*(Variable|Variables|Hypothesis|Hypotheses|Context)\b")

def strip_comments(t):
    out, depth, i, instr = [], 0, 0, False
    while i < len(t):
        if depth == 0 and t[i] == '"':
            instr = not instr; out.append(t[i]); i += 1; continue
        if not instr and t.startswith("(*", i):
            depth += 1; i += 2; continue
        if not instr and depth and t.startswith("*)", i):
            depth -= 1; i += 2; continue
        if depth == 0:
            out.append(t[i])
        elif t[i] == "\n":
            out.append("\n")
        i += 1
    return "".join(out)

def audit(root=ROOT):
    hits = []
    for d, _, fs in os.walk(root):
        if os.path.basename(d) == "Corr":
            continue
        for f in fs:
            if not f.endswith(".v"):
                continue
            p = os.path.join(d, f)
            txt = strip_comments(open(p, encoding="utf-8").read())
            stack = []
            for n, line in enumerate(txt.split("\n"), 1):
                m = FORBID.search(line)
                if m:
                    hits.append(f"{os.path.relpath(p, root)}:{n}: forbidden `{m.group(0)}`")
                m = re.match(r"^\s*(Section|Module\s+Type|Module|End)\s+([A-Za-z0-9_']+)", line)
                if m:
                    kind = m.group(1).split()[0]
                    if kind == "End":
                        if stack:
                            stack.pop()
                    elif kind == "Section":
                        stack.append("S")
                    elif ":=" not in line:          # `Module M := N.` opens nothing
                        stack.append("M")
                if VARS.match(line) and "S" not in stack:
                    hits.append(f"{os.path.relpath(p, root)}:{n}: `{line.strip()[:60]}` outside a Section")
    for f in ("_CoqProject", "Makefile.conf"):
        p = os.path.join(root, f)
        if os.path.exists(p):
            t = open(p).read()
            for bad in ("-type-in-type", "-impredicative-set", "-vos", "-vok", "-noinit"):
                if re.search(r"(^|\s)" + re.escape(bad) + r"(\s|$)", t):
                    hits.append(f"{f}: flag {bad}")
    return hits

if __name__ == "__main__":
    h = audit()
    for x in h:
        print(x)
    print(f"audit_coq: {len(h)} hit(s)")
    sys.exit(1 if h else 0)
