"""Table generator plug-in for C12 (reproducible generation): coq/Gen/GraphTables.v.

Re-extracts with `ast` (fail-closed) from the working tree:
  * `__PYTHON_TYPES_SORTED__` (xsdata/formats/converter.py): type name -> priority,
  * the default of the `.get(x, <default>)` in `ConverterFactory.sort_types` and the
    `len(types) < <n>` short cut,
  * the python types of the `DataType` members (xsdata/models/enums.py): the universe of
    `Attr.native_types`.
Loaded by tools/gen_tables.py.
"""
import ast
import os
import sys

HERE = os.path.dirname(os.path.abspath(__file__))
sys.path.insert(0, HERE)
sys.path.insert(0, os.path.join(os.path.dirname(HERE), "harness"))
from coqterm import cstr, clist  # noqa: E402


def _die(msg):
    raise SystemExit("gen_graph: " + msg)


def _name(node):
    if isinstance(node, ast.Name):
        return node.id
    if isinstance(node, ast.Attribute):
        return node.attr
    _die("type expression is not a name: " + ast.dump(node))


def gen_graph():
    from gen_tables import HEADER, Src

    conv = Src("xsdata/formats/converter.py")
    node = conv.const_node("__PYTHON_TYPES_SORTED__")
    if not isinstance(node, ast.Dict):
        _die("__PYTHON_TYPES_SORTED__ is not a dict literal")
    table = []
    for k, v in zip(node.keys, node.values):
        if not (isinstance(v, ast.Constant) and isinstance(v.value, int) and not isinstance(v.value, bool) and v.value >= 0):
            _die("priority is not a non-negative int literal")
        table.append((_name(k), v.value))
    # sort_types: `if len(types) < N: return list(types)` ; `sorted(types, key=lambda x: TABLE.get(x, D))`
    fn = conv.func("sort_types", "ConverterFactory")
    body = [n for n in fn.body if not (isinstance(n, ast.Expr) and isinstance(n.value, ast.Constant))]
    if len(body) != 2 or not isinstance(body[0], ast.If) or not isinstance(body[1], ast.Return):
        _die("sort_types: unexpected shape")
    test = body[0].test
    if not (isinstance(test, ast.Compare) and len(test.ops) == 1 and isinstance(test.ops[0], ast.Lt)
            and isinstance(test.left, ast.Call) and _name(test.left.func) == "len"
            and isinstance(test.comparators[0], ast.Constant) and isinstance(test.comparators[0].value, int)):
        _die("sort_types: unexpected short-cut test")
    shortcut = test.comparators[0].value
    ret0 = body[0].body
    if not (len(ret0) == 1 and isinstance(ret0[0], ast.Return) and isinstance(ret0[0].value, ast.Call)
            and _name(ret0[0].value.func) == "list"):
        _die("sort_types: short cut does not return list(types)")
    call = body[1].value
    if not (isinstance(call, ast.Call) and _name(call.func) == "sorted" and len(call.args) == 1
            and len(call.keywords) == 1 and call.keywords[0].arg == "key" and isinstance(call.keywords[0].value, ast.Lambda)):
        _die("sort_types: not `sorted(types, key=lambda ...)` (a `reverse=` or another key changes the model)")
    lam = call.keywords[0].value.body
    if not (isinstance(lam, ast.Call) and isinstance(lam.func, ast.Attribute) and lam.func.attr == "get"
            and _name(lam.func.value) == "__PYTHON_TYPES_SORTED__" and len(lam.args) == 2
            and isinstance(lam.args[1], ast.Constant) and isinstance(lam.args[1].value, int)
            and not isinstance(lam.args[1].value, bool) and lam.args[1].value >= 0):
        _die("sort_types: key is not TABLE.get(x, <non-negative int>)")
    default = lam.args[1].value

    # Attr.native_types: list(dict.fromkeys(...)) (order preserving, since /repo 4392a4a) or the old list(set(...))
    models = Src("xsdata/codegen/models.py")
    nt = models.func("native_types", "Attr")
    rets = [n for n in ast.walk(nt) if isinstance(n, ast.Return)]
    shape = "other"
    if len(rets) == 1 and isinstance(rets[0].value, ast.Call):
        c = rets[0].value
        if _name(c.func) == "list" and len(c.args) == 1 and isinstance(c.args[0], ast.Call):
            inner = c.args[0]
            if isinstance(inner.func, ast.Name) and inner.func.id == "set":
                shape = "list_set"
            elif (isinstance(inner.func, ast.Attribute) and inner.func.attr == "fromkeys" and isinstance(inner.func.value, ast.Name)
                  and inner.func.value.id == "dict" and len(inner.args) == 1):
                shape = "dict_fromkeys"
    if shape == "other":
        _die("Attr.native_types: neither list(set(...)) nor list(dict.fromkeys(...))")
    # DataType members: python types
    enums = Src("xsdata/models/enums.py")
    found = [n for n in enums.tree.body if isinstance(n, ast.ClassDef) and n.name == "DataType"]
    if len(found) != 1:
        _die("DataType not found")
    pytypes = []
    for k, v in enums._assigns(found[0].body):
        if isinstance(v, ast.Tuple) and len(v.elts) >= 2 and isinstance(v.elts[0], ast.Constant):
            t = _name(v.elts[1])
            if t not in pytypes:
                pytypes.append(t)
    if not pytypes:
        _die("no DataType members recognised")

    out = HEADER.format(src="xsdata/formats/converter.py, xsdata/models/enums.py, xsdata/codegen/models.py")
    out += "Open Scope N_scope.\n"
    out += "Definition type_priority : list (list N * N) := " + clist(table, lambda p: f"({cstr(p[0])}, {p[1]})") + ".\n"
    out += f"Definition type_priority_default : N := {default}.\n"
    out += f"Definition sort_types_shortcut : nat := {shortcut}%nat.\n"
    out += "Definition datatype_python_types : list (list N) := " + clist(pytypes, cstr) + ".\n"
    out += f"Definition native_types_is_list_of_set : bool := {'true' if shape == 'list_set' else 'false'}.\n"
    out += f"Definition native_types_is_order_preserving : bool := {'true' if shape == 'dict_fromkeys' else 'false'}.\n"
    return out


GENERATORS = {"GraphTables.v": gen_graph}
