#!/bin/bash
# Independent re-check of every compiled property file (and everything it depends on) with coqchk,
# printing the axioms the development relies on.  Takes 30-90 minutes; output in trusted_base/coqchk.txt
cd "$(dirname "$0")/../coq" || exit 2
mods=$(ls Properties/*.vo | sed 's#Properties/\(.*\)\.vo#XV.Properties.\1#')
mkdir -p ../trusted_base
( time timeout 14400 coqchk -silent -o -Q . XV $mods ) > ../trusted_base/coqchk.txt 2>&1
echo "exit=$?" >> ../trusted_base/coqchk.txt
tail -5 ../trusted_base/coqchk.txt
