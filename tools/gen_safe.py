"""Table generator plug-in for C07 (loaded by tools/gen_tables.py): Gen/SafeTables.v.

From /repo by `ast` (fail-closed): text.stop_words, the bounds used by text.classify, the
regular expressions of text.original_case and Filters.safe_name (as text: the model is
hand-written for exactly these and a lemma pins them), namespaces.__uri_ignore__,
constants.DEFAULT_ATTR_NAME, the Tag constants the rename handlers look at, the
NameConvention defaults (case + safe prefix) of models/config.py and the NameCase ->
text function table, REQUIRE_UNIQUE_NAMES of rename_duplicate_classes.py.
From the interpreter that runs the implementation: code-point ranges of str.isalnum
(regex \\w = isalnum or '_'), of XID_Start / XID_Continue as str.isidentifier sees them,
and keyword.kwlist.
"""
import ast
import keyword
import os
import sys

HERE = os.path.dirname(os.path.abspath(__file__))
sys.path.insert(0, HERE)
sys.path.insert(0, os.path.join(os.path.dirname(HERE), "harness"))
from coqterm import cstr, clist  # noqa: E402


def _gt():
    # the module object of the running gen_tables (it is executed as __main__)
    return sys.modules.get("gen_tables") or sys.modules["__main__"]


def _ranges(pred):
    out, start = [], None
    for cp in range(0x110000):
        if pred(cp):
            if start is None:
                start = cp
        elif start is not None:
            out.append((start, cp - 1))
            start = None
    if start is not None:
        out.append((start, 0x10FFFF))
    return out


def _crange(rs):
    return "[" + "; ".join(f"({a},{b})" for a, b in rs) + "]"


def _fail(msg):
    raise SystemExit("gen_safe: " + msg)


def _str_consts_in(fn_node, what):
    """Every string literal inside a function (in source order)."""
    return [n.value for n in ast.walk(fn_node) if isinstance(n, ast.Constant) and isinstance(n.value, str)]


def gen_safe():
    gt = _gt()
    Src, HEADER = gt.Src, gt.HEADER
    text = Src("xsdata/utils/text.py")
    ns = Src("xsdata/utils/namespaces.py")
    consts = Src("xsdata/utils/constants.py")
    enums = Src("xsdata/models/enums.py")
    config = Src("xsdata/models/config.py")
    filters = Src("xsdata/formats/dataclass/filters.py")
    rdc = Src("xsdata/codegen/handlers/rename_duplicate_classes.py")

    out = HEADER.format(src="xsdata/utils/{text,namespaces,constants}.py, models/{enums,config}.py, "
                            "formats/dataclass/filters.py, codegen/handlers/rename_duplicate_classes.py and the "
                            "implementation interpreter (" + sys.version.split()[0] + ")")
    out += "Open Scope N_scope.\n"

    # ---- stop_words (a set literal of strings)
    node = text.const_node("stop_words")
    if not (isinstance(node, ast.Set) and all(isinstance(e, ast.Constant) and isinstance(e.value, str) for e in node.elts)):
        _fail("text.stop_words is not a set literal of strings")
    words = sorted({e.value for e in node.elts})
    out += f"Definition stop_words : list (list N) := {clist(words, cstr)}.\n"
    # is_reserved must still be membership in that very set
    node = text.const_node("is_reserved")
    if ast.dump(node) != ast.dump(ast.parse("stop_words.__contains__").body[0].value):
        _fail("text.is_reserved is no longer stop_words.__contains__")

    # ---- classify: three chained comparisons  LO < code_point < HI
    fn = text.func("classify")
    bounds = []
    for n in sorted((n for n in ast.walk(fn) if isinstance(n, ast.Compare)), key=lambda n: n.lineno):
        if True:
            if not (len(n.ops) == 2 and all(isinstance(o, ast.Lt) for o in n.ops) and isinstance(n.left, ast.Constant)
                    and isinstance(n.comparators[1], ast.Constant) and isinstance(n.comparators[0], ast.Name)):
                _fail("text.classify comparison shape")
            bounds.append((n.left.value, n.comparators[1].value))
    if len(bounds) != 3:
        _fail("text.classify must have exactly three range tests")
    rets = [n.value.attr for n in sorted((n for n in ast.walk(fn) if isinstance(n, ast.Return)), key=lambda n: n.lineno)
            if isinstance(n.value, ast.Attribute)]
    if rets != ["UPPER", "LOWER", "NUMERIC", "OTHER"]:
        _fail("text.classify return order " + repr(rets))
    (ulo, uhi), (llo, lhi), (nlo, nhi) = bounds  # source order: UPPER, LOWER, NUMERIC (checked by `rets`)
    out += f"Definition classify_upper : N * N := ({ulo}, {uhi}).\n"
    out += f"Definition classify_lower : N * N := ({llo}, {lhi}).\n"
    out += f"Definition classify_numeric : N * N := ({nlo}, {nhi}).\n"

    # ---- regexes (text only; the models are written for these exact patterns)
    oc = _str_consts_in(text.func("original_case"), "original_case")
    pats = [s for s in oc if "\\" in s or "^" in s]
    if len(pats) != 2:
        _fail("text.original_case: expected two regex literals, got " + repr(pats))
    out += f"Definition original_case_re1 : list N := {cstr(pats[0])}.\n"
    out += f"Definition original_case_re2 : list N := {cstr(pats[1])}.\n"
    sn = filters.func("safe_name", cls="Filters")
    pats = [s for s in _str_consts_in(sn, "safe_name") if "\\d" in s]
    if len(pats) != 1:
        _fail("Filters.safe_name: expected one regex literal")
    out += f"Definition safe_name_minus_re : list N := {cstr(pats[0])}.\n"
    # the f-strings of safe_name: literal pieces in source order
    pieces = []
    for n in sorted((n for n in ast.walk(sn) if isinstance(n, ast.JoinedStr)), key=lambda n: n.lineno):
        if True:
            pieces.append("".join(v.value if isinstance(v, ast.Constant) else "{" + ast.unparse(v.value) + "}" for v in n.values))
    if pieces != ["{prefix}_minus_{name}", "{prefix}_{name}", "{name}_{prefix}"]:
        _fail("Filters.safe_name f-strings changed: " + repr(pieces))
    # the alnum alphabet
    node = text.const_node("__alnum_ascii__")
    if ast.dump(node) != ast.dump(ast.parse("set(string.digits + string.ascii_letters)").body[0].value):
        _fail("text.__alnum_ascii__ changed")

    # ---- namespaces / constants / tags
    ign = ns.const("__uri_ignore__")
    if not (isinstance(ign, tuple) and all(isinstance(x, str) for x in ign)):
        _fail("__uri_ignore__ shape")
    out += f"Definition uri_ignore : list (list N) := {clist(ign, cstr)}.\n"
    dan = consts.const("DEFAULT_ATTR_NAME")
    if not isinstance(dan, str):
        _fail("DEFAULT_ATTR_NAME")
    out += f"Definition default_attr_name : list N := {cstr(dan)}.\n"
    tags = enums.class_consts("Tag")
    for k in ("ATTRIBUTE", "ANY_ATTRIBUTE", "ELEMENT", "ENUMERATION", "ANY", "CHOICE", "EXTENSION", "RESTRICTION"):
        if not isinstance(tags.get(k), str):
            _fail("Tag." + k)
        out += f"Definition tag_{k} : list N := {cstr(tags[k])}.\n"

    # ---- NameCase table and convention defaults
    cases = config.class_consts("NameCase")
    node = config.const_node("__name_case_func__")
    if not isinstance(node, ast.Dict):
        _fail("__name_case_func__ shape")
    table = []
    for k, v in zip(node.keys, node.values):
        if not (isinstance(k, ast.Constant) and isinstance(v, ast.Attribute) and isinstance(v.value, ast.Name)
                and v.value.id == "text"):
            _fail("__name_case_func__ entry shape")
        table.append((k.value, v.attr))
    if sorted(x for x, _ in table) != sorted(cases.values()):
        _fail("NameCase members and __name_case_func__ keys differ")
    out += "Definition name_case_table : list (list N * list N) := " + clist(
        table, lambda kv: f"({cstr(kv[0])}, {cstr(kv[1])})") + ".\n"
    cls = [n for n in config.tree.body if isinstance(n, ast.ClassDef) and n.name == "GeneratorConventions"]
    if len(cls) != 1:
        _fail("GeneratorConventions")
    seen = {}
    for st in cls[0].body:
        if isinstance(st, ast.AnnAssign) and isinstance(st.target, ast.Name):
            call = st.value
            lam = [kw.value for kw in call.keywords if kw.arg == "default_factory"] if isinstance(call, ast.Call) else []
            if not (len(lam) == 1 and isinstance(lam[0], ast.Lambda) and isinstance(lam[0].body, ast.Call)
                    and len(lam[0].body.args) == 2):
                _fail("GeneratorConventions." + st.target.id + " default shape")
            a0, a1 = lam[0].body.args
            if not (isinstance(a0, ast.Attribute) and isinstance(a0.value, ast.Name) and a0.value.id == "NameCase"
                    and isinstance(a1, ast.Constant) and isinstance(a1.value, str)):
                _fail("GeneratorConventions." + st.target.id + " default args")
            seen[st.target.id] = (cases[a0.attr], a1.value)
    for k in ("class_name", "field_name", "constant_name", "module_name", "package_name"):
        if k not in seen:
            _fail("GeneratorConventions has no " + k)
        out += f"Definition conv_{k}_case : list N := {cstr(seen[k][0])}.\n"
        out += f"Definition conv_{k}_prefix : list N := {cstr(seen[k][1])}.\n"
    # which prefix does constant_name use?  (it reads field_safe_prefix today)
    cn = filters.func("constant_name", cls="Filters")
    attrs = [n.attr for n in ast.walk(cn) if isinstance(n, ast.Attribute) and n.attr.endswith("_safe_prefix")]
    if len(attrs) != 1:
        _fail("Filters.constant_name prefix attribute")
    out += f"Definition constant_name_uses_field_prefix : bool := {'true' if attrs[0] == 'field_safe_prefix' else 'false'}.\n"

    # ---- RenameDuplicateClasses.REQUIRE_UNIQUE_NAMES
    node = rdc.const_node("REQUIRE_UNIQUE_NAMES")
    if not (isinstance(node, ast.Tuple) and all(isinstance(e, ast.Attribute) for e in node.elts)):
        _fail("REQUIRE_UNIQUE_NAMES shape")
    styles = config.class_consts("StructureStyle")
    out += "Definition require_unique_names : list (list N) := " + clist([styles[e.attr] for e in node.elts], cstr) + ".\n"

    # ---- interpreter tables
    out += f"Definition py_alnum_ranges : list (N * N) := {_crange(_ranges(lambda c: chr(c).isalnum()))}.\n"
    out += f"Definition py_xid_start_ranges : list (N * N) := {_crange(_ranges(lambda c: chr(c).isidentifier()))}.\n"
    out += f"Definition py_xid_continue_ranges : list (N * N) := {_crange(_ranges(lambda c: ('a' + chr(c)).isidentifier()))}.\n"
    out += f"Definition py_kwlist : list (list N) := {clist(sorted(keyword.kwlist), cstr)}.\n"
    return out


GENERATORS = {"SafeTables.v": gen_safe}
