#!/usr/bin/env python3
"""Print a markdown table of the seeded breakages under /verif/seeded from their meta.json files."""
import json, os, glob
rows = []
for d in sorted(glob.glob("/verif/seeded/*/")):
    try:
        m = json.load(open(os.path.join(d, "meta.json")))
    except Exception:
        continue
    v = m.get("verification", {})
    vio = [l.split("replays/")[-1].split("/")[-1].rsplit("-", 1)[0] for l in v.get("check_output", []) if l.startswith("VIOLATION")]
    rows.append((os.path.basename(d.rstrip("/")), (m.get("summary") or "")[:150].replace("|", "/"),
                 (m.get("manifests_when") or "")[:130].replace("|", "/"), ("yes" if v.get("detected_with_input", v.get("detected")) else ("only broken obligation" if v.get("detected") else "NO")),
                 ", ".join(sorted(set(vio)))[:120]))
print("| seed | change | needs | detected | by (failure classes) |\n|---|---|---|---|---|")
for r in rows:
    print("| " + " | ".join(r) + " |")
