#!/venv/bin/python
"""Assemble MANIFEST.json from manifest.d/*.json (one fragment per property) and
validate it against /root/.vp/MANIFEST.schema.json."""
import json
import os
import sys

ROOT = os.path.dirname(os.path.dirname(os.path.abspath(__file__)))
ALL = ["C%02d" % i for i in range(1, 20)]


def main():
    checks, na = [], []
    frags = {}
    for fn in sorted(os.listdir(os.path.join(ROOT, "manifest.d"))):
        if fn.endswith(".json"):
            frags[fn[:-5]] = json.load(open(os.path.join(ROOT, "manifest.d", fn)))
    for pid in ALL:
        f = frags.get(pid)
        if f and "not_applicable" in f:
            na.append({"property_id": pid, "reason": f["not_applicable"]})
        elif f:
            c = {"property_id": pid,
                 "quick_cmd": f"./check {pid} --tier quick",
                 "thorough_cmd": f"./check {pid} --tier thorough",
                 "evidence_file": f"/verif/evidence/{pid}.json",
                 "replay_cmd_template": f"./check {pid} --replay {{path}}",
                 "engine": "coq-models"}
            c.update(f)
            checks.append(c)
        else:
            na.append({"property_id": pid, "reason": "not yet claimed: the model/theorems for this property are not built yet (no weaker technique substituted)"})
    m = {
        "version": 1,
        "setup_cmd": "./setup.sh",
        "hooks": {"guard": "XSDATA_VERIF", "enable": "checks export XSDATA_VERIF=1; no source hook is currently needed",
                  "baseline_off_cmd": "cd /repo && env -u XSDATA_VERIF /venv/bin/python -m pytest -ra -q -p no:cacheprovider --timeout=900 --continue-on-collection-errors",
                  "source_commits": [], "add_only": True},
        "engines": [{"name": "coq-models", "path": "/verif/coq", "serves_properties": [c["property_id"] for c in checks],
                     "kind_free_text": "Coq 8.16.1 development: Gallina models of xsdata functions, theorems in coq/Properties, tables regenerated from /repo by tools/gen_tables.py, differential correspondence harness in harness/"}],
        "checks": checks,
        "not_applicable": na,
        "notes": "See DESIGN.md. Known findings: known_findings/<id>.json. Seeded breakages: seeded/<id>/.",
    }
    path = os.path.join(ROOT, "MANIFEST.json")
    with open(path, "w") as f:
        json.dump(m, f, indent=1)
    try:
        import jsonschema
        jsonschema.validate(m, json.load(open("/root/.vp/MANIFEST.schema.json")))
        print("MANIFEST.json valid;", len(checks), "checks,", len(na), "not claimed")
    except ImportError:
        print("jsonschema not available; wrote MANIFEST.json unvalidated")


main()
