#!/bin/bash
# tools/reverify_all.sh [jobs] [pattern] — re-verify every seeded breakage under seeded/ against /repo HEAD
# (scratch worktree + scratch copy of /verif per seed; uses patch.rebased.diff when present).
jobs=${1:-3}; pat=${2:-.}
cd "$(dirname "$0")/.." || exit 2
mkdir -p replays/reverify
one() { n=$1; pid=${n%%-*}; [ "$pid" = "C03b" ] && pid=C03
  python3 tools/verify_seed.py $pid "$PWD/seeded/$n" > replays/reverify/$n.log 2>&1
  echo "$n $(grep -E '"(patch_applies|tests_passed_with_patch|detected|detected_with_input|confirmed)"' replays/reverify/$n.log | tr -d '\n ')"; }
export -f one
ls seeded | grep -E "$pat" | xargs -P$jobs -I{} bash -c 'one {}' | tee replays/reverify/summary.txt
echo "not detected with a concrete input:"; grep -a -v '"detected_with_input":true' replays/reverify/summary.txt
