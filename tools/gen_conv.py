"""Table generator plug-in for C05 (converters): coq/Gen/ConvTables.v.

Everything the converter models use as a constant is re-extracted here from the
working tree with `ast` (fail-closed: an unrecognised source shape aborts), or
from the interpreter that runs the implementation (Unicode predicates, decimal
and int limits).  Loaded by tools/gen_tables.py.
"""
import ast
import os
import sys

HERE = os.path.dirname(os.path.abspath(__file__))
sys.path.insert(0, HERE)
sys.path.insert(0, os.path.join(os.path.dirname(HERE), "harness"))
from coqterm import cZ, cstr, clist, cfloat_hex  # noqa: E402


def _die(msg):
    raise SystemExit("gen_conv: " + msg)


def _ranges(pred):
    out, start = [], None
    for c in range(0x110000):
        if pred(chr(c)):
            if start is None:
                start = c
        elif start is not None:
            out.append((start, c - 1))
            start = None
    if start is not None:
        out.append((start, 0x10FFFF))
    return out


def _cranges(rs):
    return clist(rs, lambda p: f"({p[0]}, {p[1]})", "N * N")


def _name(node):
    if isinstance(node, ast.Name):
        return node.id
    _die("expected a plain name, got " + ast.dump(node)[:80])


def _num(node):
    """int literal, possibly negated"""
    if isinstance(node, ast.UnaryOp) and isinstance(node.op, ast.USub):
        return -_num(node.operand)
    if isinstance(node, ast.Constant) and isinstance(node.value, (int, float)) and not isinstance(node.value, bool):
        return node.value
    _die("expected a numeric literal, got " + ast.dump(node)[:80])


def _strip_doc(body):
    if body and isinstance(body[0], ast.Expr) and isinstance(body[0].value, ast.Constant) and isinstance(body[0].value.value, str):
        return body[1:]
    return body


def _bounds_fn(fn, argname):
    """`if lo <= value <= hi: return DataType.X` ... `return DataType.Y`"""
    body = _strip_doc(fn.body)
    rows = []
    for st in body[:-1]:
        ok = (isinstance(st, ast.If) and not st.orelse and len(st.body) == 1 and isinstance(st.body[0], ast.Return)
              and isinstance(st.test, ast.Compare) and len(st.test.ops) == 2
              and all(isinstance(o, ast.LtE) for o in st.test.ops)
              and isinstance(st.test.comparators[0], ast.Name) and st.test.comparators[0].id == argname)
        if not ok:
            _die(f"{fn.name}: unexpected statement shape")
        rv = st.body[0].value
        if not (isinstance(rv, ast.Attribute) and _name(rv.value) == "DataType"):
            _die(f"{fn.name}: unexpected return")
        rows.append((_num(st.test.left), _num(st.test.comparators[1]), rv.attr))
    last = body[-1]
    if not (isinstance(last, ast.Return) and isinstance(last.value, ast.Attribute) and _name(last.value.value) == "DataType"):
        _die(f"{fn.name}: unexpected final return")
    return rows, last.value.attr


def _uri_regex(pat):
    """Check the shape ^((F R* ':')? '/'{0,k} C+)? ('#' D+)? $ and return the classes."""
    import re
    prs = re._parser
    c = re._constants
    tree = list(prs.parse(pat))

    def in_class(node):
        op, items = node
        if op != c.IN:
            _die("URI_REGEX: expected a character class")
        out = []
        for k, v in items:
            if k == c.RANGE:
                out.append((v[0], v[1]))
            elif k == c.LITERAL:
                out.append((v, v))
            else:
                _die("URI_REGEX: unsupported class item %r" % (k,))
        return out

    def rep(node, lo, hi):
        op, av = node
        if op != c.MAX_REPEAT or av[0] != lo or (hi is not None and av[1] != hi) or (hi is None and av[1] != c.MAXREPEAT):
            _die("URI_REGEX: unexpected repeat")
        return list(av[2])

    def group(node):
        op, av = node
        if op != c.SUBPATTERN or av[1] != 0 or av[2] != 0:
            _die("URI_REGEX: unexpected group")
        return list(av[3])

    if len(tree) != 4 or tree[0] != (c.AT, c.AT_BEGINNING) or tree[3] != (c.AT, c.AT_END):
        _die("URI_REGEX: unexpected top-level shape")
    g1 = rep(tree[1], 0, 1)
    if len(g1) != 1:
        _die("URI_REGEX: group 1")
    g1 = group(g1[0])
    if len(g1) != 3:
        _die("URI_REGEX: group 1 body")
    sch = rep(g1[0], 0, 1)
    if len(sch) != 1:
        _die("URI_REGEX: scheme group")
    sch = group(sch[0])
    if len(sch) != 3 or sch[2] != (c.LITERAL, 58):
        _die("URI_REGEX: scheme body")
    first = in_class(sch[0])
    rest_r = rep(sch[1], 0, None)
    if len(rest_r) != 1:
        _die("URI_REGEX: scheme rest")
    rest = in_class(rest_r[0])
    op, av = g1[1]
    if op != c.MAX_REPEAT or av[0] != 0 or list(av[2]) != [(c.LITERAL, 47)]:
        _die("URI_REGEX: slashes")
    max_slash = av[1]
    ch = rep(g1[2], 1, None)
    if len(ch) != 1:
        _die("URI_REGEX: chars")
    chars = in_class(ch[0])
    g3 = rep(tree[2], 0, 1)
    if len(g3) != 1:
        _die("URI_REGEX: group 3")
    g3 = group(g3[0])
    if len(g3) != 2 or g3[0] != (c.LITERAL, 35):
        _die("URI_REGEX: fragment")
    fr = rep(g3[1], 1, None)
    if len(fr) != 1:
        _die("URI_REGEX: fragment chars")
    frag = in_class(fr[0])
    return first, rest, max_slash, chars, frag


def gen_conv():
    from gen_tables import Src, HEADER

    conv = Src("xsdata/formats/converter.py")
    enums = Src("xsdata/models/enums.py")
    ns = Src("xsdata/utils/namespaces.py")
    out = HEADER.format(src="xsdata/formats/converter.py, xsdata/models/enums.py, xsdata/utils/namespaces.py and the interpreter")
    out += "From Coq Require Import PrimFloat.\nOpen Scope N_scope.\n"

    # ---- __PYTHON_TYPES_SORTED__ / __EXPLICIT_TYPES__ -------------------------------
    node = conv.const_node("__PYTHON_TYPES_SORTED__")
    if not isinstance(node, ast.Dict):
        _die("__PYTHON_TYPES_SORTED__ is not a dict display")
    rows = []
    for k, v in zip(node.keys, node.values):
        pr = _num(v)
        if not isinstance(pr, int):
            _die("__PYTHON_TYPES_SORTED__: priority is not an int")
        rows.append((_name(k), pr))
    if len({k for k, _ in rows}) != len(rows):
        _die("__PYTHON_TYPES_SORTED__: duplicate key")
    out += "Definition py_types_sorted : list (list N * Z) := " + clist(rows, lambda r: f"({cstr(r[0])}, {cZ(r[1])})") + ".\n"
    node = conv.const_node("__EXPLICIT_TYPES__")
    if not isinstance(node, ast.Tuple):
        _die("__EXPLICIT_TYPES__ is not a tuple display")
    out += "Definition explicit_types : list (list N) := " + clist([_name(e) for e in node.elts], cstr) + ".\n"
    # the default of `.get(x, 0)` in sort_types
    fn = conv.func("sort_types", "ConverterFactory")
    dflt = None
    for n in ast.walk(fn):
        if (isinstance(n, ast.Call) and isinstance(n.func, ast.Attribute) and n.func.attr == "get"
                and isinstance(n.func.value, ast.Name) and n.func.value.id == "__PYTHON_TYPES_SORTED__"):
            if len(n.args) != 2 or dflt is not None:
                _die("sort_types: unexpected .get call")
            dflt = _num(n.args[1])
    srt = [n for n in ast.walk(fn) if isinstance(n, ast.Call) and isinstance(n.func, ast.Name) and n.func.id == "sorted"]
    if dflt is None or len(srt) != 1 or any(k.arg != "key" for k in srt[0].keywords):
        _die("sort_types: expected sorted(types, key=lambda x: __PYTHON_TYPES_SORTED__.get(x, <int>))")
    out += f"Definition sort_default_key : Z := {cZ(dflt)}.\n"

    # ---- registered converters ------------------------------------------------------
    regs = []
    for st in conv.tree.body:
        if (isinstance(st, ast.Expr) and isinstance(st.value, ast.Call) and isinstance(st.value.func, ast.Attribute)
                and st.value.func.attr == "register_converter" and _name(st.value.func.value) == "converter"):
            a = st.value.args
            if len(a) != 2:
                _die("register_converter arity")
            regs.append((_name(a[0]), ast.unparse(a[1])))
    if not regs:
        _die("no register_converter calls found")
    out += "Definition registered_converters : list (list N * list N) := " + clist(regs, lambda r: f"({cstr(r[0])}, {cstr(r[1])})") + ".\n"

    # ---- BoolConverter literals -----------------------------------------------------
    fn = conv.func("deserialize", "BoolConverter")
    lits = {}
    for n in ast.walk(fn):
        if (isinstance(n, ast.If) and isinstance(n.test, ast.Compare) and len(n.test.ops) == 1
                and isinstance(n.test.ops[0], ast.In) and isinstance(n.test.left, ast.Name) and n.test.left.id == "val"):
            tup = n.test.comparators[0]
            if not (isinstance(tup, ast.Tuple) and len(n.body) == 1 and isinstance(n.body[0], ast.Return)
                    and isinstance(n.body[0].value, ast.Constant) and isinstance(n.body[0].value.value, bool)):
                _die("BoolConverter.deserialize: unexpected `val in (...)` branch")
            vals = [ast.literal_eval(e) for e in tup.elts]
            if not all(isinstance(v, str) for v in vals) or n.body[0].value.value in lits:
                _die("BoolConverter.deserialize: literals")
            lits[n.body[0].value.value] = vals
    if set(lits) != {True, False}:
        _die("BoolConverter.deserialize: expected one true branch and one false branch")
    strip_calls = [n for n in ast.walk(fn) if isinstance(n, ast.Call) and isinstance(n.func, ast.Attribute) and n.func.attr == "strip"]
    if len(strip_calls) != 1 or strip_calls[0].args:
        _die("BoolConverter.deserialize: expected exactly one value.strip()")
    out += "Definition bool_true_literals : list (list N) := " + clist(lits[True], cstr) + ".\n"
    out += "Definition bool_false_literals : list (list N) := " + clist(lits[False], cstr) + ".\n"
    fn = conv.func("serialize", "BoolConverter")
    body = _strip_doc(fn.body)
    if not (len(body) == 1 and isinstance(body[0], ast.Return) and isinstance(body[0].value, ast.IfExp)
            and isinstance(body[0].value.body, ast.Constant) and isinstance(body[0].value.orelse, ast.Constant)
            and isinstance(body[0].value.test, ast.Name)):
        _die("BoolConverter.serialize shape")
    out += f"Definition bool_ser_true : list N := {cstr(body[0].value.body.value)}.\n"
    out += f"Definition bool_ser_false : list N := {cstr(body[0].value.orelse.value)}.\n"

    # ---- Float/Decimal serializer literals -------------------------------------------
    fn = conv.func("serialize", "FloatConverter")
    consts = [n.value for n in ast.walk(fn) if isinstance(n, ast.Constant) and isinstance(n.value, str)][1:]
    if consts != ["NaN", "INF", "-INF", "E+", "E"]:
        _die("FloatConverter.serialize: unexpected string constants %r" % (consts,))
    out += "Definition float_ser_consts : list (list N) := " + clist(consts, cstr) + ".\n"
    fn = conv.func("serialize", "DecimalConverter")
    consts = [n.value for n in ast.walk(fn) if isinstance(n, ast.Constant) and isinstance(n.value, str)][1:]
    if consts != ["Infinity", "INF", "f"]:
        _die("DecimalConverter.serialize: unexpected string constants %r" % (consts,))
    out += f"Definition decimal_inf_from : list N := {cstr(consts[0])}.\nDefinition decimal_inf_to : list N := {cstr(consts[1])}.\n"

    # ---- bytes formats ---------------------------------------------------------------
    fn = conv.func("deserialize", "BytesConverter")
    fm = [n.comparators[0].value for n in ast.walk(fn) if isinstance(n, ast.Compare) and isinstance(n.left, ast.Name)
          and n.left.id == "fmt" and isinstance(n.comparators[0], ast.Constant)]
    subs = [n for n in ast.walk(fn) if isinstance(n, ast.Call) and isinstance(n.func, ast.Attribute) and n.func.attr == "sub"]
    if fm != ["base16", "base64"] or len(subs) != 1 or [ast.literal_eval(a) for a in subs[0].args[:2]] != [r"\s+", ""]:
        _die("BytesConverter.deserialize shape")
    out += f"Definition bytes_fmt_base16 : list N := {cstr(fm[0])}.\nDefinition bytes_fmt_base64 : list N := {cstr(fm[1])}.\n"

    # ---- enums.py: int_datatype / float_datatype / Namespace ---------------------------
    rows, dflt = _bounds_fn(enums.func("int_datatype"), "value")
    if not all(isinstance(lo, int) and isinstance(hi, int) for lo, hi, _ in rows):
        _die("int_datatype bounds are not ints")
    out += "Definition int_datatype_rows : list (Z * Z * list N) := " + clist(rows, lambda r: f"({cZ(r[0])}, {cZ(r[1])}, {cstr(r[2])})") + ".\n"
    out += f"Definition int_datatype_default : list N := {cstr(dflt)}.\n"
    rows, dflt = _bounds_fn(enums.func("float_datatype"), "value")
    out += "Definition float_datatype_rows : list (float * float * list N) := " + clist(
        rows, lambda r: f"({cfloat_hex(float(r[0]))}, {cfloat_hex(float(r[1]))}, {cstr(r[2])})") + ".\n"
    out += f"Definition float_datatype_default : list N := {cstr(dflt)}.\n"
    # DataType.from_value: __DataTypeIndex__ (type -> member), __DataTypeInferIndex__ (type -> function)
    def _type_map(name, val):
        node = enums.const_node(name)
        if not isinstance(node, ast.Dict):
            _die(f"{name} is not a dict display")
        rows_ = []
        for k_, v_ in zip(node.keys, node.values):
            rows_.append((_name(k_), val(v_)))
        if len({k_ for k_, _ in rows_}) != len(rows_):
            _die(f"{name}: duplicate key")
        return rows_

    def _member(v_):
        if not (isinstance(v_, ast.Attribute) and _name(v_.value) == "DataType"):
            _die("__DataTypeIndex__: value is not DataType.<member>")
        return v_.attr
    idx = _type_map("__DataTypeIndex__", _member)
    inf = _type_map("__DataTypeInferIndex__", _name)
    out += "Definition datatype_index : list (list N * list N) := " + clist(idx, lambda r: f"({cstr(r[0])}, {cstr(r[1])})") + ".\n"
    out += "Definition datatype_infer : list (list N * list N) := " + clist(inf, lambda r: f"({cstr(r[0])}, {cstr(r[1])})") + ".\n"
    fn = enums.func("from_type", "DataType")
    dfl = [n for n in ast.walk(fn) if isinstance(n, ast.Call) and isinstance(n.func, ast.Attribute) and n.func.attr == "get"
           and isinstance(n.func.value, ast.Name) and n.func.value.id == "__DataTypeIndex__" and len(n.args) == 2]
    if len(dfl) != 1:
        _die("DataType.from_type: expected __DataTypeIndex__.get(tp, DataType.<default>)")
    out += f"Definition datatype_default : list N := {cstr(_member(dfl[0].args[1]))}.\n"
    nsm = enums.class_consts("Namespace")
    nrows = []
    for k, v in nsm.items():
        if not (isinstance(v, tuple) and len(v) == 2 and all(isinstance(x, str) for x in v)):
            _die("Namespace member shape")
        nrows.append(v)
    out += "Definition standard_namespaces : list (list N * list N) := " + clist(nrows, lambda r: f"({cstr(r[0])}, {cstr(r[1])})") + ".\n"

    # ---- namespaces.py ------------------------------------------------------------------
    # is_ncname: NCNAME_REGEX = re.compile(f"[{NCNAME_START}][{NCNAME_START}...]*"), used with fullmatch
    start_txt = ns.const("NCNAME_START")
    if not isinstance(start_txt, str):
        _die("NCNAME_START shape")
    node = ns.const_node("NCNAME_REGEX")
    if not (isinstance(node, ast.Call) and isinstance(node.func, ast.Attribute) and node.func.attr == "compile"
            and len(node.args) == 1 and not node.keywords and isinstance(node.args[0], ast.JoinedStr)):
        _die("NCNAME_REGEX shape")
    pat = ""
    for part in node.args[0].values:
        if isinstance(part, ast.Constant) and isinstance(part.value, str):
            pat += part.value
        elif (isinstance(part, ast.FormattedValue) and isinstance(part.value, ast.Name) and part.value.id == "NCNAME_START"
              and part.conversion == -1 and part.format_spec is None):
            pat += start_txt
        else:
            _die("NCNAME_REGEX: unexpected f-string part")
    import re as _re
    c = _re._constants
    tree = list(_re._parser.parse(pat))

    def cls(node):
        if node[0] != c.IN:
            _die("NCNAME_REGEX: expected a character class")
        out_ = []
        for k, v in node[1]:
            if k == c.RANGE:
                out_.append((v[0], v[1]))
            elif k == c.LITERAL:
                out_.append((v, v))
            else:
                _die("NCNAME_REGEX: unsupported class item")
        return out_
    if not (len(tree) == 2 and tree[1][0] == c.MAX_REPEAT and tree[1][1][0] == 0 and tree[1][1][1] == c.MAXREPEAT
            and len(list(tree[1][1][2])) == 1):
        _die("NCNAME_REGEX: expected [start][char]*")
    out += f"Definition ncname_start_ranges : list (N * N) := {_cranges(cls(tree[0]))}.\n"
    out += f"Definition ncname_char_ranges : list (N * N) := {_cranges(cls(list(tree[1][1][2])[0]))}.\n"
    fn = ns.func("is_ncname")
    body = _strip_doc(fn.body)
    fm = [n for n in ast.walk(fn) if isinstance(n, ast.Attribute) and n.attr == "fullmatch" and isinstance(n.value, ast.Name)
          and n.value.id == "NCNAME_REGEX"]
    if not (len(body) == 1 and isinstance(body[0], ast.Return) and len(fm) == 1
            and any(isinstance(n, ast.BoolOp) and isinstance(n.op, ast.And) for n in ast.walk(fn))):
        _die("is_ncname: expected `return bool(name and NCNAME_REGEX.fullmatch(name))`")
    node = ns.const_node("URI_REGEX")
    if not (isinstance(node, ast.Call) and isinstance(node.func, ast.Attribute) and node.func.attr == "compile"
            and len(node.args) == 1 and not node.keywords):
        _die("URI_REGEX shape")
    pat = ast.literal_eval(node.args[0])
    first, rest, max_slash, chars, frag = _uri_regex(pat)
    out += f"Definition uri_regex_pattern : list N := {cstr(pat)}.\n"
    out += f"Definition uri_scheme_first : list (N * N) := {_cranges(first)}.\n"
    out += f"Definition uri_scheme_rest : list (N * N) := {_cranges(rest)}.\n"
    out += f"Definition uri_max_slashes : nat := {int(max_slash)}%nat.\n"
    out += f"Definition uri_chars : list (N * N) := {_cranges(chars)}.\n"
    out += f"Definition uri_frag_chars : list (N * N) := {_cranges(frag)}.\n"
    fn = ns.func("generate_prefix")
    js = [n for n in ast.walk(fn) if isinstance(n, ast.JoinedStr)]
    stems = set()
    for j in js:
        if not (len(j.values) == 2 and isinstance(j.values[0], ast.Constant) and isinstance(j.values[0].value, str)
                and isinstance(j.values[1], ast.FormattedValue) and isinstance(j.values[1].value, ast.Name)
                and j.values[1].value.id == "number"):
            _die("generate_prefix: expected f-strings of the form '<lit>{number}'")
        stems.add(j.values[0].value)
    if len(stems) != 1:
        _die("generate_prefix: expected one literal stem in its f-strings")
    # the shape the model follows: a standard prefix only if ns_map.get(<std prefix>, uri) == uri,
    # otherwise number = len(ns_map) and `while prefix in ns_map: number += 1`
    whiles = [n for n in ast.walk(fn) if isinstance(n, ast.While)]
    gets = [n for n in ast.walk(fn) if isinstance(n, ast.Call) and isinstance(n.func, ast.Attribute) and n.func.attr == "get"
            and isinstance(n.func.value, ast.Name) and n.func.value.id == "ns_map" and len(n.args) == 2]
    lens = [n for n in ast.walk(fn) if isinstance(n, ast.Call) and isinstance(n.func, ast.Name) and n.func.id == "len"]
    ok_while = (len(whiles) == 1 and isinstance(whiles[0].test, ast.Compare) and len(whiles[0].test.ops) == 1
                and isinstance(whiles[0].test.ops[0], ast.In) and isinstance(whiles[0].test.left, ast.Name)
                and whiles[0].test.left.id == "prefix" and isinstance(whiles[0].test.comparators[0], ast.Name)
                and whiles[0].test.comparators[0].id == "ns_map"
                and any(isinstance(n, ast.AugAssign) and isinstance(n.op, ast.Add) and isinstance(n.value, ast.Constant) and n.value.value == 1
                        for n in ast.walk(whiles[0])))
    if not (ok_while and len(gets) == 1 and len(lens) == 1):
        _die("generate_prefix: unexpected shape (expected the std-prefix .get() test, number = len(ns_map), and one `while prefix in ns_map` loop)")
    out += f"Definition generated_prefix_stem : list N := {cstr(stems.pop())}.\n"

    # ---- interpreter facts -----------------------------------------------------------------
    import decimal
    import re
    out += f"(* interpreter {sys.version.split()[0]} *)\n"
    sp_re = [c for c in range(0x110000) if re.fullmatch(r"\s", chr(c))]
    if sp_re != [c for c in range(0x110000) if chr(c).isspace()]:
        _die("re \\s and str.isspace disagree on this interpreter")
    out += f"Definition dec_max_emax : Z := {cZ(decimal.MAX_EMAX)}.\nDefinition dec_min_etiny : Z := {cZ(decimal.MIN_ETINY)}.\n"
    out += f"Definition int_max_str_digits : N := {sys.get_int_max_str_digits()}.\n"
    import base64
    b64 ="".join(base64.b64encode(bytes([i << 2, 0, 0])).decode()[0] for i in range(64))
    out += f"Definition b64_alphabet : list N := {cstr(b64)}.\n"
    return out


GENERATORS = {"ConvTables.v": gen_conv}
