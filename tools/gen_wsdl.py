"""Table generator plug-in for C17: coq/Gen/WsdlTables.v.

Every string constant Model/Wsdl.v uses is re-extracted here, with `ast`, from the place
in the working tree where the code uses it (fail-closed: an unrecognised source shape
aborts).  Loaded by tools/gen_tables.py.
"""
import ast
import os
import sys

HERE = os.path.dirname(os.path.abspath(__file__))
sys.path.insert(0, HERE)
sys.path.insert(0, os.path.join(os.path.dirname(HERE), "harness"))
from coqterm import cstr, clist  # noqa: E402

REPO = os.environ.get("XSDATA_REPO", "/repo")


def _die(msg):
    raise SystemExit("gen_wsdl: " + msg)


def _parse(rel):
    with open(os.path.join(REPO, rel), encoding="utf-8") as f:
        return ast.parse(f.read())


def _func(tree, cls, name):
    for n in tree.body:
        if isinstance(n, ast.ClassDef) and n.name == cls:
            for m in n.body:
                if isinstance(m, ast.FunctionDef) and m.name == name:
                    return m
    _die(f"{cls}.{name} not found")


def _strs(node):
    """all str constants under node, docstrings excluded, in source order"""
    out = []
    doc = set()
    for n in ast.walk(node):
        if isinstance(n, (ast.FunctionDef, ast.ClassDef, ast.Module)) and n.body and isinstance(n.body[0], ast.Expr) \
                and isinstance(n.body[0].value, ast.Constant) and isinstance(n.body[0].value.value, str):
            doc.add(id(n.body[0].value))
    for n in ast.walk(node):
        if isinstance(n, ast.Constant) and isinstance(n.value, str) and id(n) not in doc:
            out.append((n.lineno, n.col_offset, n.value))
    return [v for _, _, v in sorted(out)]


def _one(cond, what):
    if not cond:
        _die("unrecognised source shape: " + what)


def _compare_consts(fn, name):
    """string constants compared (==) with the variable `name` inside fn"""
    out = []
    for n in ast.walk(fn):
        if isinstance(n, ast.Compare) and len(n.ops) == 1 and isinstance(n.ops[0], ast.Eq):
            l, r = n.left, n.comparators[0]
            if isinstance(l, ast.Name) and l.id == name and isinstance(r, ast.Constant) and isinstance(r.value, str):
                out.append(r.value)
    return out


def _assign_list(fn, name):
    for n in ast.walk(fn):
        if isinstance(n, ast.Assign) and len(n.targets) == 1 and isinstance(n.targets[0], ast.Name) and n.targets[0].id == name:
            try:
                v = ast.literal_eval(n.value)
            except Exception:
                _die(f"{name} is not a literal")
            return v
    _die(f"{name} not assigned in {fn.name}")


def gen_wsdl():
    m = _parse("xsdata/codegen/mappers/definitions.py")
    C = "DefinitionsMapper"
    # operation_namespace: transport == <http> -> namespace = <envelope>
    fn = _func(m, C, "operation_namespace")
    tr = _compare_consts(fn, "transport")
    _one(len(tr) == 1, "operation_namespace: one comparison of transport")
    env = [n.value.value for n in ast.walk(fn) if isinstance(n, ast.Assign) and isinstance(n.value, ast.Constant)
           and isinstance(n.value.value, str)]
    _one(len(env) == 1, "operation_namespace: one string assignment")
    _one(_strs(fn).count("transport") == 1, "operation_namespace reads config['transport']")
    # map_binding_operation: default style, service attr type
    fn = _func(m, C, "map_binding_operation")
    dflt = [c.args[1].value for c in ast.walk(fn) if isinstance(c, ast.Call) and isinstance(c.func, ast.Attribute)
            and c.func.attr == "get" and len(c.args) == 2 and isinstance(c.args[0], ast.Constant) and c.args[0].value == "style"
            and isinstance(c.args[1], ast.Constant)]
    _one(len(dflt) == 1, "map_binding_operation: config.get('style', <default>)")
    isnot = [n for n in ast.walk(fn) if isinstance(n, ast.Compare) and len(n.ops) == 1 and isinstance(n.ops[0], ast.IsNot)
             and isinstance(n.left, ast.Subscript) and isinstance(n.comparators[0], ast.Constant) and n.comparators[0].value is None]
    comps = [c for c in ast.walk(fn) if isinstance(c, ast.ListComp) and len(c.generators) == 1 and len(c.generators[0].ifs) == 1
             and c.generators[0].ifs[0] in isnot]
    _one(len(comps) == 1, "map_binding_operation: constants kept `if config[key] is not None`")
    sdflt = [c.args[1].value for c in ast.walk(fn) if isinstance(c, ast.Call) and isinstance(c.func, ast.Attribute)
             and c.func.attr == "setdefault" and len(c.args) == 2 and isinstance(c.args[0], ast.Constant)
             and c.args[0].value == "style" and isinstance(c.args[1], ast.Constant)]
    _one(sdflt == dflt, "map_binding_operation: config.setdefault('style', <the same default>)")
    # map_binding_operation_messages: suffixes and the rpc test
    fn = _func(m, C, "map_binding_operation_messages")
    ss = _strs(fn)
    _one(ss.count("input") == 1 and ss.count("output") == 2, "map_binding_operation_messages: 'input' / 'output' literals")
    rpc = _compare_consts(fn, "style")
    _one(rpc == ["rpc"], "map_binding_operation_messages: style == 'rpc'")
    _one(_compare_consts(fn, "suffix") == ["output"], "map_binding_operation_messages: suffix == 'output'")
    # build_envelope_class
    fn = _func(m, C, "build_envelope_class")
    meta = [k.value.value for c in ast.walk(fn) if isinstance(c, ast.Call) for k in c.keywords
            if k.arg == "meta_name" and isinstance(k.value, ast.Constant)]
    _one(len(meta) == 1, "build_envelope_class: meta_name=<const>")
    _one(_compare_consts(fn, "style") == ["rpc"] and _compare_consts(fn, "class_name") == ["Body"],
         "build_envelope_class: style == 'rpc' and class_name == 'Body'")
    _one("namespace" in _strs(fn), "build_envelope_class reads ext.attributes['namespace']")
    hdr = [n.comparators[0].value for n in ast.walk(fn) if isinstance(n, ast.Compare) and len(n.ops) == 1
           and isinstance(n.ops[0], ast.NotEq) and isinstance(n.left, ast.Attribute) and n.left.attr == "name"
           and isinstance(n.comparators[0], ast.Constant)]
    sorts = [c for c in ast.walk(fn) if isinstance(c, ast.Call) and isinstance(c.func, ast.Attribute) and c.func.attr == "sort"]
    _one(len(hdr) == 2 and hdr[0] == hdr[1] and len(sorts) == 2, "build_envelope_class: attrs/inner sorted by name != <Header>")
    # build_envelope_fault
    fn = _func(m, C, "build_envelope_fault")
    req = _assign_list(fn, "required_fields")
    opt = _assign_list(fn, "optional_fields")
    calls = [[a.value for a in c.args if isinstance(a, ast.Constant) and isinstance(a.value, str)] for c in ast.walk(fn)
             if isinstance(c, ast.Call) and isinstance(c.func, ast.Attribute) and c.func.attr == "build_inner_class"]
    calls = sorted(x[0] for x in calls if x)
    _one(len(calls) == 2, "build_envelope_fault: two build_inner_class(<const>) calls")
    appended = [c.args[0].value for c in ast.walk(fn) if isinstance(c, ast.Call) and isinstance(c.func, ast.Attribute)
                and c.func.attr == "append" and c.args and isinstance(c.args[0], ast.Constant)]
    _one(len(appended) == 1 and appended[0] in calls, "build_envelope_fault: optional_fields.append(<detail>)")
    detail = appended[0]
    fault = [x for x in calls if x != detail][0]
    body = [n.comparators[0].value for n in ast.walk(fn) if isinstance(n, ast.Compare) and isinstance(n.comparators[0], ast.Constant)
            and isinstance(n.comparators[0].value, str)]
    _one(body == ["Body", "Body"], "build_envelope_fault: inner.name == 'Body' and attr.name != 'Body'")
    ops = sorted(type(n.ops[0]).__name__ for n in ast.walk(fn) if isinstance(n, ast.Compare) and isinstance(n.comparators[0], ast.Constant)
                 and isinstance(n.comparators[0].value, str))
    _one(ops == ["Eq", "NotEq"], "build_envelope_fault: one == and one != against 'Body'")
    # build_parts_attributes
    fn = _func(m, C, "build_parts_attributes")
    lazy = [s for s in _strs(fn) if s.startswith("##")]
    _one(len(lazy) == 1, "build_parts_attributes: one '##...' literal")
    # map_binding_message_parts
    fn = _func(m, C, "map_binding_message_parts")
    ss = _strs(fn)
    _one(ss.count("part") == 2 and ss.count("parts") == 2 and ss.count("message") == 2,
         "map_binding_message_parts: 'part' / 'parts' / 'message' attribute names")
    # enums
    e = _parse("xsdata/models/enums.py")
    xs = None
    string_code = None
    for n in e.body:
        if isinstance(n, ast.ClassDef) and n.name == "Namespace":
            for a in n.body:
                if isinstance(a, ast.Assign) and a.targets[0].id == "XS":
                    xs = ast.literal_eval(a.value)[0]
        if isinstance(n, ast.ClassDef) and n.name == "DataType":
            for a in n.body:
                if isinstance(a, ast.Assign) and isinstance(a.targets[0], ast.Name) and a.targets[0].id == "STRING":
                    string_code = a.value.elts[0].value
    _one(isinstance(xs, str) and isinstance(string_code, str), "enums: Namespace.XS / DataType.STRING")
    # client
    c = _parse("xsdata/formats/dataclass/client.py")
    soap = None
    for n in c.body:
        if isinstance(n, ast.ClassDef) and n.name == "TransportTypes":
            for a in n.body:
                if isinstance(a, ast.Assign) and a.targets[0].id == "SOAP":
                    soap = ast.literal_eval(a.value)
    _one(isinstance(soap, str), "client: TransportTypes.SOAP")
    fn = _func(c, "Client", "prepare_headers")
    sets = []
    for n in ast.walk(fn):
        if isinstance(n, ast.Assign) and isinstance(n.targets[0], ast.Subscript) and isinstance(n.targets[0].slice, ast.Constant):
            sets.append((n.targets[0].slice.value, n.value.value if isinstance(n.value, ast.Constant) else None))
    _one(len(sets) == 2 and sets[0][1] is not None and sets[1][1] is None, "prepare_headers: two header assignments")
    guards = [n.test for n in ast.walk(fn) if isinstance(n, ast.If) and isinstance(n.test, ast.Compare) and len(n.test.ops) == 1
              and isinstance(n.test.ops[0], ast.IsNot) and isinstance(n.test.left, ast.Attribute) and n.test.left.attr == "soap_action"
              and isinstance(n.test.comparators[0], ast.Constant) and n.test.comparators[0].value is None]
    _one(len(guards) == 1, "prepare_headers: `if self.config.soap_action is not None`")

    out = "(* GENERATED by tools/gen_wsdl.py from xsdata/codegen/mappers/definitions.py, xsdata/models/enums.py, " \
          "xsdata/formats/dataclass/client.py — do not edit *)\nFrom Coq Require Import NArith List.\nImport ListNotations.\nOpen Scope N_scope.\n"

    def d(name, s):
        return f"Definition {name} : list N := {cstr(s)}.  (* {s!r} *)\n"

    out += d("m_soap_http", tr[0]) + d("m_soap_env", env[0]) + d("m_default_style", dflt[0]) + d("m_rpc", rpc[0])
    out += d("m_input", "input") + d("m_output", "output") + d("m_envelope", meta[0]) + d("m_body", "Body")
    out += d("m_header", hdr[0]) + d("m_fault", fault) + d("m_detail", detail) + d("m_lazy", lazy[0]) + d("m_xs_uri", xs) + d("m_string", string_code)
    out += f"Definition m_required_fields : list (list N) := {clist(req, cstr, 'list N')}.\n"
    out += f"Definition m_optional_fields : list (list N) := {clist(opt, cstr, 'list N')}.\n"
    out += d("k_style", "style") + d("k_location", "location") + d("k_transport", "transport") + d("k_soap_action", "soapAction")
    out += d("c_soap_transport", soap) + d("c_content_type", sets[0][0]) + d("c_text_xml", sets[0][1]) + d("c_soap_action", sets[1][0])
    return out


GENERATORS = {"WsdlTables.v": gen_wsdl}
