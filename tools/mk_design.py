#!/usr/bin/env python3
"""Assemble /verif/DESIGN.md = DESIGN.plan.md (Part I, the plan) + DESIGN.built.md (Part II) + generated tables
(repairs from /repo's git log, seeded breakages from seeded/*/meta.json, claims from manifest.d) + design.d/*.md."""
import glob, json, os, re, subprocess
R = "/verif"
plan = open(f"{R}/DESIGN.plan.md").read()
plan = plan.replace("Status: design only (no framework code yet).",
                    "Status: Part I is the design written before any framework code existed; Part II (after it) records what was built.", 1)
built = open(f"{R}/DESIGN.built.md").read()
# --- repairs
log = subprocess.run(["git", "-C", "/repo", "log", "--format=%h\t%s", "--reverse"], capture_output=True, text=True).stdout
fixes = [l.split("\t", 1) for l in log.splitlines() if "\tfix:" in l]
fixed_by = {}
for fn in glob.glob(f"{R}/known_findings/*.json"):
    pid = os.path.basename(fn)[:-5]
    for k in json.load(open(fn)):
        m = re.match(r"fixed: (\w+)", k.get("status", ""))
        if m:
            fixed_by.setdefault(m.group(1)[:7], set()).add("C03" if pid == "C03b" else pid)
rows = ["| commit | property | what failed (commit subject) |", "|---|---|---|"]
for h, s in fixes:
    rows.append(f"| {h} | {' '.join(sorted(fixed_by.get(h[:7], []))) or '?'} | {s[4:].strip()[:400].replace('|', '/')} |")
fix_table = "\n".join(rows)
built = re.sub(r"\| commit \| property \| what failed \|\n\|---\|---\|---\|\n(?:\|.*\n)+", lambda m: fix_table + "\n", built)
# --- seeds
seed = subprocess.run(["python3", f"{R}/tools/seed_table.py"], capture_output=True, text=True).stdout
# --- claims
claims = ["| property | level | technique | open findings | fixed findings |", "|---|---|---|---|---|"]
for pid in ["C%02d" % i for i in range(1, 20)]:
    fn = f"{R}/manifest.d/{pid}.json"
    kf = []
    for name in ([pid, pid + "b"] if pid == "C03" else [pid]):
        try:
            kf += json.load(open(f"{R}/known_findings/{name}.json"))
        except Exception:
            pass
    op = sum(1 for k in kf if k.get("status", "open") == "open")
    fx = sum(1 for k in kf if k.get("status", "").startswith("fixed"))
    if os.path.exists(fn):
        f = json.load(open(fn))
        claims.append(f"| {pid} | {f['level_claimed']['category']} | {f.get('technique', '')[:110]} | {op} | {fx} |")
    else:
        claims.append(f"| {pid} | not claimed | | {op} | {fx} |")
# --- trusted base per property, from the evidence the checks wrote
tb_rows = ["| property | theorems (discharged/stated) | axioms reported by `Print Assumptions` | modelling assumptions recorded by the check |", "|---|---|---|---|"]
for pid in ["C%02d" % i for i in range(1, 20)]:
    for name in ([pid, pid + "b"] if pid == "C03" else [pid]):
        try:
            e = json.load(open(f"{R}/evidence/{name}.json"))
        except Exception:
            continue
        c = e.get("coverage", {})
        ax = [t for t in c.get("trusted_base", []) if t.lower().startswith("axioms")]
        axs = ax[0][7:].strip() if ax else "none (closed under the global context)"
        asm = "; ".join(a[:160] for a in (e.get("assumptions") or []))[:700].replace("|", "/")
        tb_rows.append(f"| {name} | {c.get('discharged')}/{c.get('obligations')} | {axs.replace('|', '/')} | {asm} |")
tb_table = "\n".join(tb_rows)
built = built.replace("<<TRUSTED_BASE_TABLE>>", tb_table)
try:
    chk = open(f"{R}/trusted_base/coqchk.txt").read()
    tail = chk
    built = built.replace("<<COQCHK>>", "```\n" + tail + "\n```")
except Exception:
    built = built.replace("<<COQCHK>>", "(`tools/coqchk_all.sh` has not been run yet on this tree)")
# --- summary in numbers
n_open = n_fixed = 0
for fn in glob.glob(f"{R}/known_findings/*.json"):
    for k in json.load(open(fn)):
        if k.get("status", "open") == "open":
            n_open += 1
        elif k.get("status", "").startswith("fixed"):
            n_fixed += 1
n_thm = 0
for fn in glob.glob(f"{R}/evidence/C*.json"):
    try:
        n_thm += json.load(open(fn))["coverage"].get("discharged") or 0
    except Exception:
        pass
n_seeds = len(glob.glob(f"{R}/seeded/*/meta.json"))
_sd = {"input": [], "broken": [], "missed": [], "superseded": []}
for _fn in sorted(glob.glob(f"{R}/seeded/*/meta.json")):
    _m = json.load(open(_fn)); _name = os.path.basename(os.path.dirname(_fn))
    _v = _m.get("rebased") if isinstance(_m.get("rebased"), dict) and "detected" in _m.get("rebased", {}) else _m.get("verification", {})
    if _m.get("superseded"):
        _sd["superseded"].append(_name)
    elif _v.get("detected_with_input", _v.get("detected")):
        _sd["input"].append(_name)
    elif _v.get("detected"):
        _sd["broken"].append(_name)
    else:
        _sd["missed"].append(_name)
n_v = sum(1 for _ in glob.glob(f"{R}/coq/*/*.v") if "/Corr/" not in _)
loc = 0
for fn in glob.glob(f"{R}/coq/*/*.v"):
    if "/Corr/" not in fn and "/Gen/" not in fn:
        loc += sum(1 for _ in open(fn, encoding="utf-8", errors="replace"))
cats = {}
for fn in glob.glob(f"{R}/manifest.d/C*.json"):
    cats[os.path.basename(fn)[:-5]] = json.load(open(fn))["level_claimed"]["category"]
n_proof = sum(1 for v in cats.values() if v == "proof")
tv = sorted(k for k, v in cats.items() if v == "translation_validation")
summary = f"""## 9b. Summary in numbers (generated)

* all 19 properties are claimed ({n_proof} at level *proof*; {', '.join(tv)} at *translation validation*: a Coq-proved validator run on every generated program, because the generator pipeline itself is validated, not modelled); none is listed as not applicable;
* {n_thm} statements in `coq/Properties/*.v`, all discharged, closed under the global context except for Coq's primitive
  float/int operations; {n_v} hand-written or regenerated `.v` files, about {loc:,} lines of models, specifications and proofs;
* {len(fixes)} genuine defects of tefra/xsdata repaired by `fix:` commits (the 263 baseline tests pass unedited after each), {n_fixed} `fixed:` entries,
  {n_open} open known findings (each with a witness that the check re-finds on every run and, where the model reproduces it, a
  machine-checked refutation + guard clause);
* {n_seeds} independently seeded breakages kept under `seeded/` (six rounds): {len(_sd["input"])} detected by their property's check with a
  concrete failing input, {len(_sd["broken"])} only through a broken obligation / source tie ({", ".join(_sd["broken"]) or "none"}), {len(_sd["missed"])} not detected
  ({", ".join(_sd["missed"]) or "none"}; see §13 rounds 5–6 for why), {len(_sd["superseded"])} superseded (`C05-m1` became an equivalent mutant after a repair);
* `coqchk` over all property files: exit 0, no type-in-type, no unsafe fixpoints, no assumed positivity (§12b)."""
built = built.replace("<<SUMMARY_NUMBERS>>", summary)
parts = [plan, "\n---------------------------------------------------------------------------\n", built,
         "\n### Seeded breakages and which check catches them\n\n" + seed,
         "\n## 14. Claims per property (from manifest.d and known_findings)\n\n" + "\n".join(claims) + "\n",
         "\n## 15. Per-property notes (design.d/*.md, written by the builder of each property)\n"]
for fn in sorted(glob.glob(f"{R}/design.d/*.md")):
    txt = open(fn).read()
    txt = re.sub(r"^(#+) ", lambda m: "##" + m.group(1) + " ", txt, flags=re.M)   # demote headings by two levels
    parts.append("\n" + txt + "\n")
open(f"{R}/DESIGN.md", "w").write("".join(parts))
print("DESIGN.md written:", sum(len(p) for p in parts), "chars")
