#!/bin/bash
# tools/fullpass.sh [quick|thorough] [jobs] — every registered check once on /repo's working tree; summary on stdout,
# logs under replays/fullpass/ (ignored by git).  Exit 0 iff every check exited 0 and printed no VIOLATION line.
tier=${1:-quick}; jobs=${2:-1}
cd "$(dirname "$0")/.." || exit 2
out=replays/fullpass; mkdir -p $out
run1() { p=$1; s=$(date +%s); timeout 14400 ./check $p --tier $2 > $3/$p.log 2>&1; rc=$?
  echo "$p rc=$rc viol=$(grep -c '^VIOLATION' $3/$p.log) known=$(grep -c '^KNOWN-FINDING' $3/$p.log) wall=$(( $(date +%s)-s ))s"; }
export -f run1
python3 -c "import json; [print(c['property_id']) for c in json.load(open('MANIFEST.json'))['checks']]" \
  | xargs -P$jobs -I{} bash -c "run1 {} $tier $out" | tee $out/summary.txt
! grep -qv "rc=0 viol=0" $out/summary.txt
