#!/bin/bash
# tools/mutation_test.sh <Cxx> <patch.diff> [tier]
# Applies a patch to a scratch worktree of /repo, runs the check from a scratch copy of
# /verif against it, prints the tail of the output, cleans up.  Never touches /repo.
set -u
pid=$1; patch=$(readlink -f "$2"); tier=${3:-quick}
tag=$$
wt=/tmp/mt-wt-$tag; vc=/tmp/mt-v-$tag
git -C /repo worktree add --detach "$wt" HEAD >/dev/null 2>&1 || exit 3
rsync -a --exclude .git --exclude replays --exclude "coq/Corr" /verif/ "$vc/" 2>/dev/null
if ! git -C "$wt" apply "$patch"; then echo "PATCH DOES NOT APPLY"; rc=4; else
  ( cd "$vc" && XSDATA_REPO="$wt" ./check "$pid" --tier "$tier" 2>&1 | tail -${TAIL:-12} ); rc=${PIPESTATUS[0]}
fi
git -C /repo worktree remove --force "$wt"; rm -rf "$vc"
exit $rc
