#!/usr/bin/env python3
"""Re-verify every seeded breakage under /verif/seeded against the current /repo HEAD (sequentially).
usage: tools/reverify_seeds.py [Cxx ...]"""
import glob, json, os, subprocess, sys
want = set(sys.argv[1:])
rows = []
for d in sorted(glob.glob("/verif/seeded/*/")):
    name = os.path.basename(d.rstrip("/"))
    pid, m = name.split("-", 1)
    if want and pid not in want:
        continue
    check_pid = "C03" if pid == "C03b" else pid
    r = subprocess.run(["python3", "/verif/tools/verify_seed.py", check_pid, d.rstrip("/")],
                       capture_output=True, text=True)
    try:
        rep = json.loads(r.stdout[:r.stdout.rindex("}") + 1])
    except Exception:
        rep = {"error": r.stdout[-300:] + r.stderr[-300:]}
    rows.append((name, rep.get("patch_applies"), rep.get("tests_passed_with_patch"), rep.get("confirmed"), rep.get("detected")))
    print(rows[-1], flush=True)
