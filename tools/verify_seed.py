#!/usr/bin/env python3
"""tools/verify_seed.py <Cxx> <dir with patch.diff demo.py meta.json> [<name>]
Confirms a seeded breakage independently (patch applies to a scratch worktree of /repo, the 263
baseline tests still pass, demo passes on the original and fails on the patched tree), runs the
property's check against the patched tree from a scratch copy of /verif, and stores everything
under /verif/seeded/<Cxx>-<name>/ (meta.json extended with what was run and what the check said)."""
import json, os, re, shutil, subprocess, sys, tempfile

pid, src = sys.argv[1], os.path.abspath(sys.argv[2])
name = sys.argv[3] if len(sys.argv) > 3 else os.path.basename(src.rstrip("/"))
tiers = os.environ.get("TIER", "quick")
wt = tempfile.mkdtemp(prefix="vs-wt-"); os.rmdir(wt)
vc = tempfile.mkdtemp(prefix="vs-v-")
def sh(cmd, **kw):
    return subprocess.run(cmd, shell=True, capture_output=True, text=True, **kw)
report = {}
try:
    assert sh(f"git -C /repo worktree add --detach {wt} HEAD").returncode == 0
    env = f"PYTHONPATH={wt}:/verif/shims PYTHONHASHSEED=0"
    r0 = sh(f"cd {wt} && {env} timeout 300 /venv/bin/python {src}/demo.py")
    report["demo_original_exit"] = r0.returncode
    patch = f"{src}/patch.rebased.diff" if os.path.exists(f"{src}/patch.rebased.diff") else f"{src}/patch.diff"
    report["patch_used"] = os.path.basename(patch)
    ap = sh(f"git -C {wt} apply {patch}")
    report["patch_applies"] = ap.returncode == 0
    for _try in range(3):
        t = sh(f"mkdir -p {vc}-tmp && cd {wt} && TMPDIR={vc}-tmp /venv/bin/python -m pytest -q -p no:cacheprovider --timeout=900 --color=no --continue-on-collection-errors 2>&1 | tail -5")
        m = re.search(r"(\d+) passed", t.stdout)
        if m:
            break
        report["tests_tail"] = t.stdout[-600:]
    report["tests_passed_with_patch"] = int(m.group(1)) if m else None
    r1 = sh(f"cd {wt} && {env} timeout 300 /venv/bin/python {src}/demo.py")
    report["demo_patched_exit"] = r1.returncode
    sh(f"rsync -a --exclude .git --exclude replays --exclude coq/Corr /verif/ {vc}/")
    c = sh(f"cd {vc} && XSDATA_REPO={wt} timeout 3000 ./check {pid} --tier {tiers}")
    lines = [l for l in c.stdout.splitlines() if l.startswith(("VIOLATION", "KNOWN-FINDING", pid + ":", "note:"))]
    report["check_exit"] = c.returncode
    report["check_output"] = [l[:400] for l in lines][-12:]
    report["detected"] = c.returncode == 1 and any(l.startswith("VIOLATION") for l in lines)
    # detected with a concrete failing input (not only through a proof/table/case file that no longer builds)
    report["detected_with_input"] = c.returncode == 1 and any(
        l.startswith("VIOLATION") and "no-failing-input-found" not in l for l in lines)
    report["check_cmd"] = f"XSDATA_REPO=<patched worktree> ./check {pid} --tier {tiers}  (from a scratch copy of /verif)"
finally:
    sh(f"git -C /repo worktree remove --force {wt}")
    shutil.rmtree(vc, ignore_errors=True)
    shutil.rmtree(vc + '-tmp', ignore_errors=True)
ok = report.get("patch_applies") and report.get("tests_passed_with_patch") == 263 and report.get("demo_original_exit") == 0 and report.get("demo_patched_exit") == 1
report["confirmed"] = bool(ok)
print(json.dumps(report, indent=1))
if not ok and src.startswith("/verif/seeded/"):
    # keep the record up to date even when the patch went stale (e.g. the code it touches was repaired)
    try:
        meta = json.load(open(os.path.join(src, "meta.json")))
        meta["verification_latest"] = report
        json.dump(meta, open(os.path.join(src, "meta.json"), "w"), indent=1)
    except Exception:
        pass
if ok:
    inplace = src.startswith("/verif/seeded/")
    dst = src if inplace else f"/verif/seeded/{pid}-{name}"
    os.makedirs(dst, exist_ok=True)
    if not inplace:
        for fn in ("patch.diff", "demo.py"):
            shutil.copy(os.path.join(src, fn), dst)
    meta = json.load(open(os.path.join(src, "meta.json")))
    meta["verification"] = report
    json.dump(meta, open(os.path.join(dst, "meta.json"), "w"), indent=1)
    print("kept:", dst)
