"""C14 implementation runner: operation sequences on SHARED XmlContext / parser /
serializer instances versus FRESH instances, call by call (JSON stdin -> stdout).

Input  {"static": [class descriptions], "dynamic": [class descriptions],
        "ops": [operation descriptions], "seqs": [[step, ...], ...]}
  step = {"op": i} | {"env": "define", "cid": c, "bump": bool} | {"env": "import"}
       | {"env": "preload", "n": k}   k helper modules enter sys.modules (an "old plugin")
       | {"env": "unload", "n": k}    the k most recently preloaded helper modules leave sys.modules again
Output {"ambient": [...], "order": [...], "modules0": n,
        "runs": [[{"shared": r, "fresh": r, "ts": trace, "tf": trace, "mod": [before, after]} ...] ...]}

The classes are generated from the same descriptions the Coq model receives.
Results are canonicalised to labelled trees (the `tree` of Model/Context.v).
The context is a *subclass* of XmlContext that only logs `build` and `find_types`
invocations (XmlContext has __slots__; no attribute can be patched on an instance).
"""
import dataclasses
import gc
import io
import json
import sys
import types
import warnings
from xml.etree import ElementTree as ET

from xsdata.formats.dataclass.context import XmlContext
from xsdata.formats.dataclass.models.generics import AnyElement, DerivedElement
from xsdata.formats.dataclass.parsers import DictDecoder, JsonParser, XmlParser
from xsdata.formats.dataclass.parsers.config import ParserConfig
from xsdata.formats.dataclass.parsers.handlers import XmlEventHandler
from xsdata.formats.dataclass.serializers import DictEncoder, JsonSerializer, XmlSerializer

warnings.simplefilter("ignore")
XSI = "http://www.w3.org/2001/XMLSchema-instance"
POOL_MOD = "c14pool"


class TracingContext(XmlContext):
    __slots__ = ("log",)

    def __init__(self, *a, **k):
        super().__init__(*a, **k)
        self.log = []

    def build(self, clazz, parent_ns=None, globalns=None):
        self.log.append(["b", cid_of(clazz), parent_ns])
        return super().build(clazz, parent_ns, globalns)

    def find_types(self, qname):
        r = super().find_types(qname)
        self.log.append(["l", qname, [cid_of(c) for c in r]])
        return r

    # methods whose effect on the index an opaque replay (build / find_types only) cannot reproduce
    def find_type_by_fields(self, field_names):
        self.log.append(["m", "find_type_by_fields"])
        return super().find_type_by_fields(field_names)

    def local_names_match(self, names, clazz):
        self.log.append(["m", "local_names_match"])
        return super().local_names_match(names, clazz)

    def build_recursive(self, clazz, parent_ns=None):
        self.log.append(["m", "build_recursive"])
        return super().build_recursive(clazz, parent_ns)

    def reset(self):
        self.log.append(["m", "reset"])
        return super().reset()


CID = {}        # class object -> cid
BY_CID = {}     # cid -> class object


def cid_of(clazz):
    try:
        return CID.get(clazz, -1)
    except TypeError:
        return -1


# ------------------------------------------------------------------ class generation
def annotation(f):
    if f.get("pytype"):
        return f["pytype"]
    t = f["type"]
    if t == "str":
        base = "str"
    elif t == "any":
        base = "object"
    else:
        base = f'"_C{t}"' 
    return f"List[{base}]" if f["list"] else f"Optional[{base}]"


def class_source(d, names):
    """Python source of the class described by d (own fields only)."""
    parent = f"_C{d['parent']}" if d["parent"] is not None else ""
    lines = ["@dataclass", f"class {d['name']}({parent}):" if parent else f"class {d['name']}:"]
    meta = []
    if d["ns"] is not None:
        meta.append(f"        namespace = {d['ns']!r}")
    if d["tns"] is not None:
        meta.append(f"        target_namespace = {d['tns']!r}")
    if not d["global"]:
        meta.append("        global_type = False")
    if meta:
        lines.append("    class Meta:")
        lines += meta
    body = 0
    if d.get("broken"):
        lines.append('    a: Optional[str] = field(default=None, metadata={"type": "Text"})')
        lines.append('    b: Optional[str] = field(default=None, metadata={"type": "Text"})')
        body = 2
    for f in d["own_fields"]:
        md = {"type": {"attr": "Attribute", "elem": "Element", "wild": "Wildcard", "attrs": "Attributes"}[f["kind"]]}
        if f["ns"] is not None:
            md["namespace"] = f["ns"]
        extra = dict(f.get("md") or {})
        choices = extra.pop("choices", None)
        md.update(extra)
        mdsrc = repr(md)
        if choices:
            md["type"] = "Elements"
            ch = ", ".join('{"name": %r, "type": %s}' % (c[0], c[1]) for c in choices)
            mdsrc = repr(md)[:-1] + ', "choices": (' + ch + ",)}"
        default = "default_factory=dict" if f["kind"] == "attrs" else "default_factory=list" if f["list"] else "default=None"
        lines.append(f"    {f['name']}: {annotation(f)} = field({default}, metadata={mdsrc})")
        body += 1
    if not body and not meta:
        lines.append("    pass")
    return "\n".join(lines) + "\n"


def define(d, mod, names):
    src = class_source(d, names)
    g = mod.__dict__
    for c, n in names.items():
        if c in BY_CID:
            g[f"_C{c}"] = BY_CID[c]
    exec(src, g)
    clazz = g[d["name"]]
    clazz.__cid__ = d["cid"]
    CID[clazz] = d["cid"]
    BY_CID[d["cid"]] = clazz
    g[f"_C{d['cid']}"] = clazz
    return clazz


def new_module(name):
    mod = types.ModuleType(name)
    exec("from dataclasses import dataclass, field\nfrom typing import List, Optional, Union\n"
         "from xsdata.models.datatype import XmlDate\nfrom decimal import Decimal\nfrom typing import Dict\n"
         "from xml.etree.ElementTree import QName\n"
         "class Money(Decimal):\n    pass\nclass MyInt(int):\n    pass\nclass MyStr(str):\n    pass\n", mod.__dict__)
    return mod


# ------------------------------------------------------------------ values
def to_obj(v):
    k = v[0]
    if k == "str":
        return v[1]
    if k == "obj":
        clazz = BY_CID[v[1]]
        fs = dataclasses.fields(clazz)
        kw = {}
        for f, items in zip(fs, v[2]):
            vals = [to_obj(x) for x in items]
            is_list = f.default_factory is list
            if is_list:
                kw[f.name] = vals
            elif vals:
                kw[f.name] = vals[0]
        return clazz(**kw)
    if k == "any":
        return AnyElement(qname=v[1], text=v[2])
    if k == "der":
        return DerivedElement(qname=v[1], type=v[2], value=to_obj(v[3]))
    raise KeyError(k)


def py_literal(x):
    tag, v = x
    if tag == "d":
        from xsdata.models.datatype import XmlDate
        return XmlDate.from_string(v)
    if tag in ("m", "mi", "ms"):      # user subclasses of primitive types, defined in the pool module
        return getattr(sys.modules[POOL_MOD], {"m": "Money", "mi": "MyInt", "ms": "MyStr"}[tag])(v)
    return {"s": str, "i": int, "f": float, "b": bool}[tag](v)


def global_state():
    """Fingerprint of the process-wide mutable state of the library that binding results may
    depend on: no operation on any instance may change it (it is shared by used and fresh instances
    alike, so a per-instance baseline cannot see such a dependence)."""
    from xsdata.formats.converter import converter
    from xsdata.formats.dataclass.compat import class_types
    from xsdata.models import enums
    reg = sorted(f"{t.__module__}.{t.__qualname__}->{type(c).__name__}" for t, c in converter.registry.items())
    idx = {k: len(v) for k, v in vars(enums).items() if k.startswith("__DataType") and isinstance(v, dict)}
    return {"converter.registry": reg, "class_types": sorted(class_types.types), "enums": idx}


def shared_fingerprint(inst):
    """The configuration objects and plain attributes of the shared parser / serializer / decoder instances: no
    call may leave them changed (state leaking through an instance attribute)."""
    out = {}
    for name, obj in vars(inst).items():
        if name == "ctx":
            continue
        for k, v in vars(obj).items():
            if k in ("context", "ns_map"):        # the context is modelled; ns_map is the write-only recorder
                continue
            out[f"{name}.{k}"] = repr(vars(v)) if dataclasses.is_dataclass(v) and not isinstance(v, type) else repr(v)
    return out


def global_diff(a, b):
    out = []
    for k in a:
        if a[k] != b[k]:
            if isinstance(a[k], list):
                out.append(f"{k}: +{sorted(set(b[k]) - set(a[k]))} -{sorted(set(a[k]) - set(b[k]))}")
            else:
                out.append(f"{k}: {a[k]} -> {b[k]}")
    return "; ".join(out)


def tree_of_obj(o):
    if isinstance(o, str):
        return ["s:" + o, []]
    if isinstance(o, AnyElement):
        return [f"a:{o.qname}|{o.text if o.text is not None else ''}", [tree_of_obj(c) for c in o.children]]
    if isinstance(o, DerivedElement):
        return [f"d:{o.qname}|{o.type if o.type is not None else ''}", [tree_of_obj(o.value)]]
    if dataclasses.is_dataclass(o) and type(o) in CID:
        kids = []
        for f in dataclasses.fields(o):
            val = getattr(o, f.name)
            if val is None:
                items = []
            elif isinstance(val, (list, tuple)):
                items = [tree_of_obj(x) for x in val]
            else:
                items = [tree_of_obj(val)]
            kids.append(["f", items])
        return [f"o:{CID[type(o)]}", kids]
    return ["?:" + repr(o), []]


def tree_of_json(j):
    if j is None:
        return ["null", []]
    if isinstance(j, str):
        return ["s:" + j, []]
    if isinstance(j, (list, tuple)):
        return ["[]", [tree_of_json(x) for x in j]]
    if isinstance(j, dict):
        return ["{}", [["k:" + k, [tree_of_json(v)]] for k, v in j.items()]]
    return ["?:" + repr(j), []]


def tree_of_xml(text):
    """Infoset of the serializer output: Clark names, attributes in document order
    (xsi:type resolved to a Clark name), text, children."""
    stack, root = [], None
    nsstack = [{}]
    pending = {}
    for ev, el in ET.iterparse(io.BytesIO(text.encode()), events=("start", "end", "start-ns")):
        if ev == "start-ns":
            pending[el[0]] = el[1]
        elif ev == "start":
            scope = dict(nsstack[-1])
            scope.update(pending)
            pending = {}
            nsstack.append(scope)
            kids = []
            for k, v in el.attrib.items():
                if k == "{%s}type" % XSI:
                    p, _, l = v.rpartition(":")
                    uri = scope.get(p, "")
                    v = "{%s}%s" % (uri, l) if uri else l
                kids.append([f"@{k}={v}", []])
            node = [el.tag, kids]
            if stack:
                stack[-1][1].append(node)
            else:
                root = node
            stack.append(node)
        else:
            node = stack.pop()
            nsstack.pop()
            if el.text:
                # text precedes children in the canonical form
                nattr = len(el.attrib)
                node[1].insert(nattr, ["#" + el.text, []])
    return root


KEEP_FULL = ("Unknown property ", "No class found matching root: ")
KEEP_PREFIX = ("Failed to bind object", "Unable to locate model")


def canon_exc(e):
    msg = str(e)
    for p in KEEP_FULL:
        if msg.startswith(p):
            return {"err": type(e).__name__, "msg": msg}
    for p in KEEP_PREFIX:
        if msg.startswith(p):
            return {"err": type(e).__name__, "msg": p}
    return {"err": type(e).__name__, "msg": ""}


def tree_of_meta(m):
    return ["meta", [[m.qname, [[v.qname, [[n, []] for n in v.namespaces]] for v in m.get_all_vars()]],
                     [m.target_qname or "", []]]]


def tree_of_cls(c):
    return ["none", []] if c is None else [f"c:{cid_of(c)}", []]


# ------------------------------------------------------------------ operations
class Instances:
    def __init__(self):
        self.ctx = TracingContext()
        self.xp = XmlParser(context=self.ctx)                              # default handler (lxml, recovering)
        self.xn = XmlParser(context=self.ctx, handler=XmlEventHandler)     # native handler (expat)
        self.xs = XmlSerializer(context=self.ctx)
        self.jp = JsonParser(context=self.ctx)
        self.js = JsonSerializer(context=self.ctx)
        self.dd = DictDecoder(context=self.ctx)
        self.dds = DictDecoder(context=self.ctx, config=ParserConfig(fail_on_converter_warnings=True))   # strict
        self.de = DictEncoder(context=self.ctx)


def clz(c):
    return None if c is None else BY_CID[c]


def run_op(inst, op):
    k = op["kind"]
    try:
        if k == "ser":
            return {"ok": tree_of_xml(inst.xs.render(to_obj(op["value"])))}
        if k == "parse":
            p = inst.xn if op.get("handler") == "native" else inst.xp
            return {"ok": tree_of_obj(p.from_string(op["doc"], clz(op["clazz"])))}
        if k == "enc":
            return {"ok": tree_of_json(inst.de.encode(to_obj(op["value"])))}
        if k == "jser":
            return {"ok": tree_of_json(json.loads(inst.js.render(to_obj(op["value"]))))}
        if k == "dec":
            return {"ok": tree_of_obj(inst.dd.decode(op["data"], clz(op["clazz"])))}
        if k == "jparse":
            return {"ok": tree_of_obj(inst.jp.from_string(json.dumps(op["data"]), clz(op["clazz"])))}
        if k in ("oser", "ojser"):
            # a value given literally (not obtained by parsing): [[field, [[tag, literal], ...]], ...]
            obj = clz(op["clazz"])(**{f: ([py_literal(x) for x in items] if isinstance(items[0], list) else py_literal(items))
                                  for f, items in op["fields"]})
            return {"ok": ["x:" + (inst.xs if k == "oser" else inst.js).render(obj), []]}
        if k in ("odec", "odecs"):
            return {"ok": ["x:" + repr((inst.dd if k == "odec" else inst.dds).decode(op["data"], clz(op["clazz"]))), []]}
        if k == "oparse" and op.get("source") == "tree":
            # a tree source: xml.etree for the native handler, an lxml tree for the lxml handler
            if op.get("handler") == "native":
                from xml.etree import ElementTree as _ET
                return {"ok": ["x:" + repr(inst.xn.parse(_ET.ElementTree(_ET.fromstring(op["doc"])), clz(op["clazz"]))), []]}
            import lxml.etree as _LE
            return {"ok": ["x:" + repr(inst.xp.parse(_LE.fromstring(op["doc"].encode()).getroottree(), clz(op["clazz"]))), []]}
        if k == "oparse":
            p = inst.xn if op.get("handler") == "native" else inst.xp
            return {"ok": ["x:" + repr(p.from_string(op["doc"], clz(op["clazz"]))), []]}
        if k == "oround":
            obj = XmlParser(context=XmlContext()).from_string(op["doc"], clz(op["clazz"]))
            return {"ok": ["x:" + inst.xs.render(obj), []]}
        if k == "ojparse":
            return {"ok": ["x:" + repr(inst.jp.from_string(op["doc"], clz(op["clazz"]))), []]}
        if k == "ojround":
            obj = JsonParser(context=XmlContext()).from_string(op["doc"], clz(op["clazz"]))
            return {"ok": ["x:" + inst.js.render(obj), []]}
        if k == "call":
            n, a = op["name"], op["args"]
            c = inst.ctx
            if n == "build":
                return {"ok": tree_of_meta(c.build(BY_CID[a[0]], a[1]))}
            if n == "fetch":
                return {"ok": tree_of_meta(c.fetch(BY_CID[a[0]], a[1], a[2]))}
            if n == "find_type":
                return {"ok": tree_of_cls(c.find_type(a[0]))}
            if n == "find_types":
                return {"ok": ["cs", [[str(cid_of(x)), []] for x in c.find_types(a[0])]]}
            if n == "find_subclass":
                return {"ok": tree_of_cls(c.find_subclass(BY_CID[a[0]], a[1]))}
            if n == "find_type_by_fields":
                return {"ok": tree_of_cls(c.find_type_by_fields(set(a[0])))}
            if n == "local_names_match":
                return {"ok": ["true" if c.local_names_match(set(a[0]), BY_CID[a[1]]) else "false", []]}
            if n == "build_recursive":
                c.build_recursive(BY_CID[a[0]], a[1])
                return {"ok": ["none", []]}
            if n == "build_xsi_cache":
                c.build_xsi_cache()
                return {"ok": ["none", []]}
            if n == "reset":
                c.reset()
                return {"ok": ["none", []]}
        raise KeyError(k)
    except Exception as e:  # noqa: BLE001 - every exception is an observable outcome
        return canon_exc(e)


def ambient_desc(clazz, amb_ids):
    meta = clazz.__dict__.get("Meta")
    mod = sys.modules[clazz.__module__]
    tns = getattr(meta, "target_namespace", None) if meta else None
    if tns is None:
        tns = getattr(mod, "__NAMESPACE__", None)
    parent = None
    for b in clazz.__bases__:
        if dataclasses.is_dataclass(b):
            parent = amb_ids.get(b)
    try:
        XmlContext().build(clazz)
        ok = True
    except Exception:  # noqa: BLE001
        ok = False
    return {"cid": amb_ids[clazz], "name": clazz.__name__,
            "ns": getattr(meta, "namespace", None) if meta else None, "tns": tns,
            "global": ("." not in clazz.__qualname__) and bool(getattr(meta, "global_type", True) if meta else True),
            "parent": parent, "fields": [f.name for f in dataclasses.fields(clazz)] if ok else [], "ok": ok}


def setup_world(inp, instances=None):
    """Create the pool module and its static classes, describe the ambient classes,
    warm every operation up once.  Returns what both runners need."""
    instances = instances or Instances
    names = {d["cid"]: d["name"] for d in inp["static"] + inp["dynamic"]}
    dyn = {d["cid"]: d for d in inp["dynamic"]}
    # ambient classes first (they exist before the pool module is imported)
    probe = XmlContext()
    amb = [c for c in probe.get_subclasses(object) if probe.is_binding_model(c)]
    if len(set(amb)) != len(amb):
        raise SystemExit("ambient dataclasses with multiple inheritance: DFS order not a tree")
    amb_ids = {c: 1000 + i for i, c in enumerate(amb)}
    for c, i in amb_ids.items():
        CID[c] = i
        BY_CID[i] = c
    ambient = [ambient_desc(c, amb_ids) for c in amb]

    pool = new_module(POOL_MOD)
    sys.modules[POOL_MOD] = pool
    for d in inp["static"]:
        define(d, pool, names)

    ops = inp["ops"]
    # warm-up: every operation once on throw-away instances, so that lazy imports
    # do not move len(sys.modules) in the middle of a sequence
    for op in ops:
        try:
            run_op(instances(), op)
        except KeyError:
            pass  # operations on classes that are defined only at run time
    gc.collect()
    order = [cid_of(c) for c in probe.get_subclasses(object) if probe.is_binding_model(c)]
    modules0 = len(sys.modules)
    return {"ambient": ambient, "order": order, "modules0": modules0, "pool": pool, "names": names, "dyn": dyn,
            "probe": probe, "ops": ops}


def main():
    inp = json.load(sys.stdin)
    g_start = global_state()
    wd = setup_world(inp)
    g_warm = global_state()
    ambient, order, modules0, pool, names, dyn, probe, ops = (wd[k] for k in (
        "ambient", "order", "modules0", "pool", "names", "dyn", "probe", "ops"))

    runs = []
    fresh = None
    g0 = global_state()
    serial = 0
    for seq in inp["seqs"]:
        shared = Instances()
        fp0 = shared_fingerprint(shared)
        made, mods = [], []
        pre = []
        out = []
        for step in seq:
            before = len(sys.modules)
            if "env" in step:
                if step["env"] == "preload":
                    for _ in range(step["n"]):
                        serial += 1
                        name = f"c14pre_{serial}"
                        sys.modules[name] = types.ModuleType(name)
                        pre.append(name)
                        mods.append(name)
                elif step["env"] == "unload":
                    if step["n"] > len(pre):
                        raise SystemExit("unload of more helper modules than were preloaded")
                    for _ in range(step["n"]):
                        name = pre.pop()
                        mods.remove(name)
                        del sys.modules[name]
                elif step["env"] == "define":
                    d = dyn[step["cid"]]
                    if step["bump"]:
                        serial += 1
                        name = f"c14dyn_{serial}_{d['cid']}"
                        mod = new_module(name)
                        sys.modules[name] = mod
                        mods.append(name)
                    else:
                        mod = pool
                    define(d, mod, names)
                    made.append((d, mod))
                else:
                    serial += 1
                    name = f"c14dummy_{serial}"
                    sys.modules[name] = types.ModuleType(name)
                    mods.append(name)
                out.append({"mod": [before, len(sys.modules)]})
                continue
            op = ops[step["op"]]
            shared.ctx.log = []
            rs = run_op(shared, op)
            ts = shared.ctx.log
            fresh = Instances()
            rf = run_op(fresh, op)
            rec = {"shared": rs, "fresh": rf, "ts": ts, "tf": fresh.ctx.log, "mod": [before, len(sys.modules)]}
            fp1 = shared_fingerprint(shared)
            if fp1 != fp0:
                rec["inst"] = "; ".join(f"{k}: {fp0.get(k)} -> {fp1.get(k)}" for k in fp1 if fp1.get(k) != fp0.get(k))[:600]
                fp0 = fp1
            g1 = global_state()
            if g1 != g0:
                rec["glob"] = global_diff(g0, g1)
                g0 = g1
            out.append(rec)
        runs.append(out)
        # tear the run-time classes down again
        shared = fresh = rs = rf = None
        for d, mod in reversed(made):
            clazz = BY_CID.pop(d["cid"])
            CID.pop(clazz, None)
            mod.__dict__.pop(d["name"], None)
            mod.__dict__.pop(f"_C{d['cid']}", None)
            pool.__dict__.pop(f"_C{d['cid']}", None)
            del clazz
        for name in mods:
            sys.modules.pop(name, None)
        if not made and not mods:
            continue
        made, mods = [], []
        import typing
        for clear in getattr(typing, "_cleanups", []):
            clear()            # typing's generic-alias caches keep classes alive
        gc.collect()
        left = [cid_of(c) for c in probe.get_subclasses(object) if probe.is_binding_model(c)]
        if left != order or len(sys.modules) != modules0:
            raise SystemExit(f"world not restored after a sequence: {left} vs {order}; "
                             f"modules {len(sys.modules)} vs {modules0}")
    res = {"ambient": ambient, "order": order, "modules0": modules0, "runs": runs}
    if g_warm != g_start:
        # some operation changed process-wide state when it ran for the first time (warm-up pass)
        res["glob_warmup"] = global_diff(g_start, g_warm)
    json.dump(res, sys.stdout)


if __name__ == "__main__":
    main()
