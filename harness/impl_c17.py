"""C17 implementation runner: the REAL xsdata WSDL pipeline and the REAL SOAP client on a
batch of jobs (JSON stdin -> JSON stdout).  Runs under /venv/bin/python with
PYTHONPATH=$XSDATA_REPO:/verif/shims (run_impl(..., with_shims=True)).

payload {"op": "jobs", "jobs": [job...]}   job = {"id", "sources": {name: text}, "entry": [wsdl name],
                                                    "wsdl": wsdl name, "seed": int, "package": str}
   -> per job {"id", "status", "stage", "error", "log",
               "definitions": generic dump of the object DefinitionsParser produced (imports merged by the
                              real ResourceTransformer.parse_definitions),
               "mapped": dump of DefinitionsMapper.map(definitions)  (raw classes, before ClassContainer),
               "services": [{"name": codegen qname, "class": python name, "config": {...},
                             "input": class tree, "output": class tree}],
               "e2e": [{...observations of Client.send with a recording transport...}]}
payload {"op": "headers", "cases": [{"transport", "soap_action", "headers": [[k, v]...]}]}
   -> [{"ok": [[k, v]...]} | {"err": exception type name}]
"""
import dataclasses
import decimal
import enum
import json
import os
import random
import sys
import traceback

HERE = os.path.dirname(os.path.abspath(__file__))
sys.path.insert(0, HERE)
from codegen_run import CodegenRun, dump_class, _all_ids, _err  # noqa: E402

SOAP_ENV = "http://schemas.xmlsoap.org/soap/envelope/"


# ------------------------------------------------------------------ generic dump of the parsed WSDL object
def dump_obj(x, src_uri=None):
    from xsdata.formats.dataclass.models.generics import AnyElement

    if isinstance(x, AnyElement):
        return {"$": "AnyElement", "qname": x.qname, "text": x.text, "attributes": dict(x.attributes),
                "children": [dump_obj(c, src_uri) for c in x.children]}
    if dataclasses.is_dataclass(x) and not isinstance(x, type):
        if type(x).__module__.endswith("models.xsd"):
            return {"$": "xsd." + type(x).__name__}
        d = {"$": type(x).__name__}
        for f in dataclasses.fields(x):
            v = getattr(x, f.name)
            if f.name == "ns_map":
                d[f.name] = [[k, u] for k, u in v.items()]
            elif f.name == "location":
                d[f.name] = v.replace(src_uri, "file:///SRC") if (src_uri and isinstance(v, str)) else v
            else:
                d[f.name] = dump_obj(v, src_uri)
        return d
    if isinstance(x, (list, tuple)):
        return [dump_obj(v, src_uri) for v in x]
    if isinstance(x, dict):
        return {str(k): dump_obj(v, src_uri) for k, v in x.items()}
    if x is None or isinstance(x, (str, int, bool, float)):
        return x
    return {"$repr": repr(x)}


# ------------------------------------------------------------------ generated classes -> trees
def codegen_info(run):
    """(python module, qualname) -> what the processed codegen Class says about it."""
    info = {}

    def walk(c, prefix, module):
        py = run.filters.class_name(c.name)
        qual = prefix + py
        attrs = {}
        for a in c.attrs:
            attrs[run.filters.field_name(a.name, c.name)] = {
                "name": a.name, "namespace": a.namespace,
                "types": [{"qname": t.qname, "native": t.native} for t in a.types],
                "min": a.restrictions.min_occurs, "max": a.restrictions.max_occurs}
        info[(module, qual)] = {"qname": c.qname, "tag": c.tag, "namespace": c.namespace, "meta_name": c.meta_name,
                                "attrs": attrs}
        for i in c.inner:
            walk(i, qual + ".", module)

    for c in run.classes or []:
        walk(c, "", c.target_module)
    return info


def class_tree(cls, parent_ns, ctx, info, depth=0, seen=()):
    meta = ctx.build(cls, parent_ns)
    key = (cls.__module__, cls.__qualname__)
    cg = info.get(key)
    out = {"class": cls.__qualname__, "module": cls.__module__, "qname": meta.qname,
           "codegen": {k: cg[k] for k in ("qname", "tag")} if cg else None, "vars": []}
    flds = {f.name: f for f in dataclasses.fields(cls)}
    for var in meta.get_all_vars():
        f = flds[var.name]
        required = f.default is dataclasses.MISSING and f.default_factory is dataclasses.MISSING
        v = {"name": var.name, "qname": var.qname, "kind": ("Element" if var.is_element else "Attribute" if var.is_attribute else "Text" if var.is_text
                                                       else "Wildcard" if var.is_wildcard else "Elements" if var.is_elements else "Attributes"), "required": required,
             "list": bool(var.list_element), "types": [getattr(t, "__name__", repr(t)) for t in var.types],
             "codegen": (cg or {}).get("attrs", {}).get(var.name), "clazz": None}
        if var.clazz is not None and dataclasses.is_dataclass(var.clazz):
            if depth < 8 and var.clazz not in seen:
                v["clazz"] = class_tree(var.clazz, meta.namespace, ctx, info, depth + 1, seen + (cls,))
            else:
                v["clazz"] = {"class": var.clazz.__qualname__, "cut": True}
        out["vars"].append(v)
    return out


# ------------------------------------------------------------------ random instances of generated classes
WORDS = ["alpha", "Bravo", "c3", "delta-4", "E", "fox trot", "g_7", "x&y", "<z>", "été"]


def rand_value(t, r):
    from xsdata.models import datatype as DT

    if isinstance(t, type) and issubclass(t, enum.Enum):
        return r.choice(list(t))
    if t is str:
        return r.choice(WORDS)
    if t is bool:
        return r.random() < 0.5
    if t is int:
        return r.choice([0, 1, -1, 7, 42, 2147483647, r.randint(-10 ** 6, 10 ** 6)])
    if t is float:
        return r.choice([0.5, -1.25, 3.0, 1e10])
    if t is decimal.Decimal:
        return decimal.Decimal(r.choice(["0", "1.5", "-2.25", "100"]))
    if t is bytes:
        return b"ab"
    if t is DT.XmlDate:
        return DT.XmlDate(2001, 2, r.randint(1, 28))
    if t is DT.XmlDateTime:
        return DT.XmlDateTime(2001, 2, 3, 4, 5, r.randint(0, 59))
    if t is DT.XmlTime:
        return DT.XmlTime(1, 2, r.randint(0, 59))
    raise NotImplementedError("rand_value: " + repr(t))


def rand_instance(cls, ctx, parent_ns, r, depth=0, p_opt=0.6):
    meta = ctx.build(cls, parent_ns)
    flds = {f.name: f for f in dataclasses.fields(cls)}
    kw = {}
    for var in meta.get_all_vars():
        f = flds[var.name]
        required = f.default is dataclasses.MISSING and f.default_factory is dataclasses.MISSING
        if var.is_wildcard or var.is_attributes or var.is_elements:
            continue
        if not required and (depth > 4 or r.random() > p_opt):
            continue

        def one():
            if var.clazz is not None and dataclasses.is_dataclass(var.clazz):
                return rand_instance(var.clazz, ctx, meta.namespace, r, depth + 1, p_opt)
            return rand_value(var.types[0], r)

        if var.list_element:
            kw[var.name] = [one() for _ in range(r.choice([1, 2]))]
        else:
            kw[var.name] = one()
    return cls(**kw)


def find_var(meta, qname):
    for v in meta.get_all_vars():
        if v.qname == qname:
            return v
    return None


def envelope_parts(envcls, ctx):
    """(envelope meta, Body var, Body meta, Fault var | None)"""
    meta = ctx.build(envcls)
    body = find_var(meta, "{%s}Body" % SOAP_ENV)
    if body is None or body.clazz is None:
        return meta, None, None, None
    bmeta = ctx.build(body.clazz, meta.namespace)
    return meta, body, bmeta, find_var(bmeta, "{%s}Fault" % SOAP_ENV)


def rand_response(envcls, ctx, r, fault):
    """A random instance of the output envelope: the normal members of Body set and Fault
    unset, or only Fault set (code, string, maybe actor, one declared detail entry)."""
    meta, body, bmeta, fvar = envelope_parts(envcls, ctx)
    if body is None:
        raise RuntimeError("output envelope has no soap Body field")
    kw_env = {}
    for var in meta.get_all_vars():
        if var is body:
            continue
        flds = {f.name: f for f in dataclasses.fields(envcls)}
        f = flds[var.name]
        if f.default is dataclasses.MISSING and var.clazz is not None:
            kw_env[var.name] = rand_instance(var.clazz, ctx, meta.namespace, r, 1, 1.0)
    kw = {}
    for var in bmeta.get_all_vars():
        if var is fvar:
            continue
        if not fault:
            kw[var.name] = (rand_instance(var.clazz, ctx, bmeta.namespace, r, 1, 1.0) if var.clazz is not None
                            and dataclasses.is_dataclass(var.clazz) else rand_value(var.types[0], r))
    if fault:
        if fvar is None:
            raise RuntimeError("output Body has no soap Fault field")
        fmeta = ctx.build(fvar.clazz, bmeta.namespace)
        fkw = {}
        for var in fmeta.get_all_vars():
            if var.qname == "faultcode":
                fkw[var.name] = "soapenv:Server"
            elif var.qname == "faultstring":
                fkw[var.name] = r.choice(["boom", "Denied: x<y", "no"])
            elif var.qname == "faultactor":
                if r.random() < 0.5:
                    fkw[var.name] = "http://actor.example/a"
            elif var.qname == "detail":
                if var.clazz is not None and dataclasses.is_dataclass(var.clazz):
                    dmeta = ctx.build(var.clazz, fmeta.namespace)
                    entries = dmeta.get_all_vars()
                    dkw = {}
                    if entries:
                        e = r.choice(entries)
                        dkw[e.name] = (rand_instance(e.clazz, ctx, dmeta.namespace, r, 2, 1.0) if e.clazz is not None
                                       and dataclasses.is_dataclass(e.clazz) else rand_value(e.types[0], r))
                    fkw[var.name] = var.clazz(**dkw)
                elif r.random() < 0.5:
                    fkw[var.name] = "plain detail text"
        kw[fvar.name] = fvar.clazz(**fkw)
    kw_env[body.name] = body.clazz(**kw)
    return envcls(**kw_env)


GENERIC_FAULT = ('<SOAP-ENV:Envelope xmlns:SOAP-ENV="%s"><SOAP-ENV:Body><SOAP-ENV:Fault>'
                 '<faultcode>SOAP-ENV:Client</faultcode><faultstring>bad request</faultstring>'
                 '<faultactor>urn:actor</faultactor>%%s</SOAP-ENV:Fault></SOAP-ENV:Body></SOAP-ENV:Envelope>' % SOAP_ENV)


def e2e_service(svc, r):
    """Drive the real Client for one generated service class with a recording transport."""
    from xsdata.exceptions import ClientValueError
    from xsdata.formats.dataclass.client import Client, Config
    from xsdata.formats.dataclass.context import XmlContext
    from xsdata.formats.dataclass.serializers import XmlSerializer
    from xsdata.formats.dataclass.transports import Transport

    class Recorder(Transport):
        __slots__ = ("calls", "response")

        def __init__(self):
            self.calls = []
            self.response = b""

        def get(self, url, params, headers):
            raise AssertionError("GET is never used by Client.send")

        def post(self, url, data, headers):
            self.calls.append({"url": url, "data": data, "headers": [[k, v] for k, v in headers.items()]})
            return self.response

    obs = {"steps": []}

    def step(name, fn):
        try:
            d = fn() or {}
            d["step"] = name
        except BaseException as e:  # noqa
            if isinstance(e, (KeyboardInterrupt, SystemExit)):
                raise
            d = {"step": name, "exc": type(e).__name__, "message": str(e)[:300],
                 "tb": traceback.format_exc()[-1200:]}
        obs["steps"].append(d)
        return d

    cfg = Config.from_service(svc)
    obs["config"] = {"style": cfg.style, "location": cfg.location, "transport": cfg.transport,
                     "soap_action": cfg.soap_action, "encoding": cfg.encoding,
                     "input": getattr(cfg.input, "__qualname__", None), "output": getattr(cfg.output, "__qualname__", None)}
    if cfg.input is None or cfg.output is None:
        obs["skipped"] = "service class has no input/output"
        return obs
    ctx = XmlContext()
    fresh = XmlSerializer(context=XmlContext())
    req = rand_instance(cfg.input, ctx, None, r)
    user_headers = r.choice([{}, {"X-Trace": "t1"}, {"content-type": "application/json", "X-A": "1"},
                             {"SOAPAction": "user-supplied", "Accept": "*/*"}])
    if not cfg.soap_action:
        user_headers.pop("SOAPAction", None)   # with no configured action the caller's own header is legitimately kept
    obs["user_headers"] = [[k, v] for k, v in user_headers.items()]
    rendered = fresh.render(req)

    def normal():
        rec = Recorder()
        out = rand_response(cfg.output, ctx, r, fault=False)
        rec.response = fresh.render(out).encode("utf-8")
        before = dict(user_headers)
        res = Client(cfg, transport=rec).send(req, headers=user_headers)
        return {"calls": [{**c, "data": c["data"] if isinstance(c["data"], str) else {"$bytes": c["data"].decode("utf-8")}}
                          for c in rec.calls],
                "payload_is_render": len(rec.calls) == 1 and rec.calls[0]["data"] == rendered,
                "payload_type": type(rec.calls[0]["data"]).__name__ if rec.calls else None,
                "user_headers_untouched": before == user_headers,
                "response": rec.response.decode("utf-8"), "result_type": type(res).__qualname__,
                "result_equal": res == out}

    step("normal", normal)

    def fault():
        rec = Recorder()
        out = rand_response(cfg.output, ctx, r, fault=True)
        rec.response = fresh.render(out).encode("utf-8")
        res = Client(cfg, transport=rec).send(req)
        _, body, _, fvar = envelope_parts(cfg.output, ctx)
        got = getattr(getattr(res, body.name), fvar.name)
        return {"response": rec.response.decode("utf-8"), "result_equal": res == out, "fault_populated": got is not None,
                "n_calls": len(rec.calls)}

    step("fault", fault)

    def generic_fault():
        rec = Recorder()
        rec.response = (GENERIC_FAULT % "").encode("utf-8")
        res = Client(cfg, transport=rec).send(req)
        _, body, _, fvar = envelope_parts(cfg.output, ctx)
        got = getattr(getattr(res, body.name), fvar.name)
        fm = ctx.build(fvar.clazz, SOAP_ENV)
        vals = {v.qname: getattr(got, v.name) for v in fm.get_all_vars()} if got is not None else None
        return {"fault_populated": got is not None,
                "fields_ok": vals is not None and vals.get("faultcode") == "SOAP-ENV:Client"
                and vals.get("faultstring") == "bad request" and vals.get("faultactor") == "urn:actor"
                and vals.get("detail") is None}

    step("generic_fault", generic_fault)

    def undeclared_detail():
        # SOAP 1.1 4.4: detail entries are arbitrary qualified elements
        rec = Recorder()
        rec.response = (GENERIC_FAULT % '<detail><e:info xmlns:e="urn:undeclared">x</e:info></detail>').encode("utf-8")
        res = Client(cfg, transport=rec).send(req)
        _, body, _, fvar = envelope_parts(cfg.output, ctx)
        return {"fault_populated": getattr(getattr(res, body.name), fvar.name) is not None}

    step("undeclared_detail", undeclared_detail)

    def encoded():
        rec = Recorder()
        rec.response = fresh.render(rand_response(cfg.output, ctx, r, fault=False)).encode("utf-8")
        enc = r.choice(["utf-8", "utf-16", "latin-1"])
        c2 = Config.from_service(svc, encoding=enc)
        try:
            want = rendered.encode(enc)
        except UnicodeEncodeError:
            enc, c2, want = "utf-8", Config.from_service(svc, encoding="utf-8"), rendered.encode("utf-8")
        Client(c2, transport=rec).send(req)
        return {"encoding": enc, "payload_is_encoded_render": len(rec.calls) == 1 and rec.calls[0]["data"] == want,
                "payload_type": type(rec.calls[0]["data"]).__name__ if rec.calls else None}

    step("encoded", encoded)

    def foreign_transport():
        rec = Recorder()
        c2 = Config.from_service(svc, transport="http://schemas.xmlsoap.org/soap/smtp")
        try:
            Client(c2, transport=rec).send(req)
        except ClientValueError:
            return {"raised": "ClientValueError", "n_calls": len(rec.calls)}
        return {"raised": None, "n_calls": len(rec.calls)}

    step("foreign_transport", foreign_transport)

    def wrong_input():
        rec = Recorder()
        other = rand_response(cfg.output, ctx, r, fault=False)
        try:
            Client(cfg, transport=rec).send(other)
        except ClientValueError:
            return {"raised": "ClientValueError", "n_calls": len(rec.calls)}
        return {"raised": None, "n_calls": len(rec.calls)}

    step("wrong_input", wrong_input)
    return obs


# ------------------------------------------------------------------ one job
def run_job(job):
    from pathlib import Path

    r = random.Random(job.get("seed", 0))
    out = {"id": job.get("id")}
    options = {"package": job.get("package", "gen17")}
    options.update(job.get("options") or {})
    with CodegenRun(job["sources"], options, job.get("entry"), job.get("timeout", 30)) as run:
        res = run.result
        out.update({"status": res["status"], "stage": res["stage"], "error": res["error"],
                    "log": res["log"], "warnings": res["warnings"]})
        src_uri = run._src_uri
        # the object the real parser produces (and what the real mapper makes of it), on its own
        try:
            from xsdata.codegen.mappers.definitions import DefinitionsMapper
            from xsdata.codegen.transformer import ResourceTransformer

            uri = (Path(run._tmp) / "src" / job["wsdl"]).as_uri()
            tr = ResourceTransformer(config=run.config)
            defs = tr.parse_definitions(uri, namespace=None)
            out["definitions"] = dump_obj(defs, src_uri)
            try:
                mapped = DefinitionsMapper.map(defs)
                ids = _all_ids(mapped)
                out["mapped"] = [dump_class(c, ids, src_uri) for c in mapped]
            except BaseException as e:  # noqa
                out["mapped_error"] = _err(e, src_uri)
        except BaseException as e:  # noqa
            out["definitions_error"] = _err(e, src_uri)
        if res["status"] != "ok":
            return out
        from xsdata.formats.dataclass.client import Config
        from xsdata.formats.dataclass.context import XmlContext

        info = codegen_info(run)
        pcs = run.python_classes()
        services = []
        e2e = []
        for c in run.classes:
            if not c.is_service:
                continue
            py = run.filters.class_name(c.name)
            svc = next((cls for m, q, cls in pcs if m == c.target_module and q == py), None)
            if svc is None:
                services.append({"name": c.qname, "class": py, "missing": True})
                continue
            cfg = Config.from_service(svc)
            row = {"name": c.qname, "class": py,
                   "config": {"style": cfg.style, "location": cfg.location, "transport": cfg.transport,
                              "soap_action": cfg.soap_action},
                   "constants": {k: (v if isinstance(v, str) else getattr(v, "__qualname__", repr(v)))
                                 for k, v in vars(svc).items() if not k.startswith("__")}}
            for side in ("input", "output"):
                cls = getattr(cfg, side)
                row[side] = class_tree(cls, None, XmlContext(), info) if dataclasses.is_dataclass(cls) else None
            services.append(row)
            if job.get("e2e", True):
                o = e2e_service(svc, r)
                o["name"] = c.qname
                e2e.append(o)
        out["services"] = services
        out["e2e"] = e2e
    return out


def run_headers(cases):
    from xsdata.exceptions import ClientValueError
    from xsdata.formats.dataclass.client import Client, Config

    res = []
    for c in cases:
        cfg = Config(style="document", location="http://x", transport=c["transport"], soap_action=c["soap_action"],
                     input=object, output=object)
        h = dict((k, v) for k, v in c["headers"])
        before = list(h.items())
        try:
            got = Client(cfg, transport=object()).prepare_headers(h)
            res.append({"ok": [[k, v] for k, v in got.items()], "input_untouched": list(h.items()) == before})
        except ClientValueError:
            res.append({"err": "ClientValueError"})
        except BaseException as e:  # noqa
            res.append({"err": type(e).__name__})
    return res


def main():
    payload = json.load(sys.stdin)
    if payload["op"] == "jobs":
        outs = []
        for job in payload["jobs"]:
            try:
                outs.append(run_job(job))
            except BaseException as e:  # noqa
                if isinstance(e, (KeyboardInterrupt, SystemExit)):
                    raise
                outs.append({"id": job.get("id"), "status": "harness_error", "error": {"type": type(e).__name__,
                             "message": str(e), "traceback": traceback.format_exc()[-3000:]}})
        json.dump(outs, sys.stdout)
    elif payload["op"] == "headers":
        json.dump(run_headers(payload["cases"]), sys.stdout)
    else:
        raise SystemExit("impl_c17: unknown op")


main()
