"""C10 — strictness options do what they say.

Deciding artefact: the theorems of coq/Properties/C10.v over Model/Parser.v (the parser half of the shared
binding model) and Spec/Inject.v.
Tie: differential correspondence model <-> real NodeParser on the recorded parser events of rendered
documents, on streams with injected unknown content and on mutated streams, under the 8 combinations of the
three fail_on_* options (harness/impl_parser.py records the converter calls of the real run).
Search: the conclusions of the theorems evaluated IN COQ, with the theorems' own hypotheses
(undo_admissible / strict_position), on the outcomes observed on the implementation for
(model, document, injection set, option triple) -- event level through NodeParser/EventsHandler and
document level through XmlParser with both handlers -- plus the DictDecoder/JsonParser unknown keys.
"""
import json
import os
import re

import common
from common import Check, run_impl, standard_proof_step, TRUSTED_COMMON, BuildError
from coqterm import cbool

IMPORTS = "From XV Require Import Base.Str Model.Bind Model.Parser Model.ParserCorr Spec.Inject."

EXTRAS_C10 = ["allprims", "compound", "wildknown", "poly", "wrappers", "textattr", "wildtail", "scalarwild", "fixed", "required", "anytype", "union"]


# ------------------------------------------------------------------ Coq evaluation returning one code per case
def coq_codes(tag, defs, ctype, fn, cases, shard=50, timeout=900, imports=None):
    """Evaluate `fn : ctype -> N` on every case inside Coq (vm_compute); returns the list of codes."""
    import concurrent.futures as cf
    os.makedirs(common.CORR, exist_ok=True)
    shards = [cases[i:i + shard] for i in range(0, len(cases), shard)] or [[]]
    paths = []
    for k, sh in enumerate(shards):
        path = os.path.join(common.CORR, f"cases_{tag}_{k}.v")
        body = [imports or IMPORTS, "From Coq Require Import NArith ZArith List Bool.", "Import ListNotations.", defs,
                f"Definition the_cases : list ({ctype}) := [", ";\n".join(sh), "].",
                f"Eval vm_compute in (map (fun x => N.to_nat ({fn} x)) the_cases)."]
        with open(path, "w") as f:
            f.write("\n".join(body) + "\n")
        paths.append(path)
    with cf.ThreadPoolExecutor(max_workers=16) as ex:
        results = list(ex.map(lambda p: common._coqc(p, timeout), paths))
    codes = []
    for k, (rc, out, err) in enumerate(results):
        if rc != 0:
            raise BuildError(os.path.relpath(paths[k], common.COQ), out + err)
        m = re.search(r"=\s*(\[[^\]]*\])\s*:\s*list nat", out, re.S)
        if not m:
            raise BuildError(os.path.relpath(paths[k], common.COQ), "unparsable output: " + out[-500:])
        got = [int(x) for x in re.findall(r"\d+", m.group(1))]
        if len(got) != len(shards[k]):
            raise BuildError(os.path.relpath(paths[k], common.COQ), f"{len(got)} codes for {len(shards[k])} cases")
        codes += got
    for p in paths:
        base = p[:-2]
        for ext in (".v", ".vo", ".vok", ".vos", ".glob"):
            try:
                os.remove(base + ext)
            except FileNotFoundError:
                pass
        try:
            os.remove(os.path.join(os.path.dirname(p), "." + os.path.basename(base) + ".aux"))
        except FileNotFoundError:
            pass
    return codes


def job_defs(res):
    """shared definitions of a batch: datatype table, one universe / conversion table per job"""
    defs = [f"Definition dt_table := {res['dt_table']}."]
    for j in res["jobs"]:
        if j.get("universe") and j.get("conv"):
            defs.append(f"Definition u_{j['id']} : universe := {j['universe']}.")
            defs.append(f"Definition tbl_{j['id']} : conv_table := {j['conv']}.")
            defs.append(f"Definition nd_{j['id']} : list (cls * list str) := {j['nodefault']}.")
    return "\n".join(defs)


DICT_IMPORTS = ("From XV Require Import Base.Str Model.Bind Model.DictCodec Model.Parser Model.DictLeak Model.DictLeakCorr "
                "Proofs.DictLeakDoc Proofs.DictLeakSkip.")


def dict_defs(res):
    """definitions for dictionary-decoder case files: the shared ones plus the generic classes of each job"""
    return job_defs(res) + "\n" + "\n".join(f"Definition g_{j['id']} : generics := {j['generics']}."
                                            for j in res["jobs"] if j.get("universe") and j.get("conv") and j.get("generics"))


def dict_term(j, dcfg, clazz_none, jterm, dobs):
    cfg = f"(mk_dconfig {cbool(dcfg[0])} {cbool(dcfg[1])} nd_{j['id']})"
    clazz = "None" if clazz_none else f"(Some {j['root']})"
    return f"({cfg}, tbl_{j['id']}, u_{j['id']}, g_{j['id']}, {clazz}, {jterm}, {dobs})"


def cfg_term(j, cfg):
    return f"(mk_pconfig {cbool(cfg[0])} {cbool(cfg[1])} {cbool(cfg[2])} nd_{j['id']})"


def corr_term(j, c):
    return f"({cfg_term(j, c['cfg'])}, tbl_{j['id']}, u_{j['id']}, Some {j['root']}, {c['events']}, {c['obs']})"


def make_jobs(ck, mode, extras, n_gen, budget, slices=("F1", "F2", "F3")):
    jobs = []
    for name in extras:
        jobs.append({"id": len(jobs), "seed": ck.rng.randrange(1 << 30), "mode": mode, "model": {"extra": name}, "budget": budget})
    for _ in range(n_gen):
        k = ck.rng.random()
        sl = ["F1"] if k < 0.35 else (["F1", "F2"] if k < 0.55 else list(slices))
        jobs.append({"id": len(jobs), "seed": ck.rng.randrange(1 << 30), "mode": mode, "model": {"gen": {"slices": sl}},
                     "budget": budget})
    return jobs


def run_jobs(jobs, chunk=8, timeout=1500):
    """run the implementation driver; several processes side by side.  A driver process that dies (or does not
    answer) is reported per job as `crashed` -- the check turns it into a failure line, never into a traceback."""
    import concurrent.futures as cf
    chunks = [jobs[i::chunk] for i in range(chunk)]
    chunks = [c for c in chunks if c]

    def one(c):
        try:
            return run_impl("impl_parser.py", {"jobs": c}, timeout=timeout)
        except Exception as e:  # noqa
            # the process died (e.g. a signal inside a C extension): once more, every job in a process of its own, so
            # that a reproducible crash is pinned to its job and an unreproducible one costs nothing but a note
            out = {"dt_table": None, "jobs": [], "retried": f"{e!r}"[:300]}
            for j in c:
                try:
                    o = run_impl("impl_parser.py", {"jobs": [j]}, timeout=timeout)
                    out["dt_table"] = o["dt_table"]
                    out["jobs"] += o["jobs"]
                except Exception as e2:  # noqa
                    out["jobs"].append({"id": j["id"], "seed": j["seed"], "model": j["model"], "cases": [],
                                        "crashed": f"driver process failed twice: {e!r}; alone: {e2!r}"[:3000]})
            return out

    with cf.ThreadPoolExecutor(max_workers=len(chunks) or 1) as ex:
        outs = list(ex.map(one, chunks))
    tables = [o["dt_table"] for o in outs if o.get("dt_table")]
    res = {"dt_table": tables[0] if tables else "(@nil (qname * option (ptype * option str * option ptype)))", "jobs": []}
    for o in outs:
        res["jobs"] += o["jobs"]
    res["retried"] = [o["retried"] for o in outs if o.get("retried")]
    res["jobs"].sort(key=lambda j: j["id"])
    return res


def guarded(ck, what, fn):
    """run one classification section; an unexpected shape of the implementation's answer becomes a failure line"""
    import traceback
    try:
        return fn()
    except BuildError:
        raise
    except Exception:  # noqa
        ck.failure("harness-internal-error", f"{what}: {traceback.format_exc()[-1500:]}", {"section": what})
        return None


def job_replay_info(j):
    return {"seed": j["seed"], "model": j["model"], "source": j.get("source"), "xml": j.get("xml")}


def harness_problems(ck, res):
    n = 0
    for r in res.get("retried", []):
        ck.notes.append(f"a driver process died and its jobs were re-run one per process: {r}")
    for j in res["jobs"]:
        if j.get("crashed"):
            ck.failure("harness-driver-crashed", f"impl_parser.py crashed on {j['model']} seed {j['seed']}: {j['crashed'][-400:]}",
                       {"job": {"seed": j["seed"], "model": j["model"]}, "trace": j["crashed"]})
        if j.get("skipped"):
            n += 1
            ck.failure("baseline-parse-of-rendered-document-fails",
                       f"the real parser does not parse the document the real serializer rendered for {j['model']} seed {j['seed']}: {j['skipped'][:300]}",
                       {"job": {"seed": j["seed"], "model": j["model"]}, "source": j.get("source"), "xml": j.get("xml")})
    return n


# ------------------------------------------------------------------ the check
def run(ck: Check):
    ck.level = "proof"
    obligations, discharged, axioms = standard_proof_step(ck, extra_targets=["Model/ParserCorr.vo", "Proofs/ParserWitness.vo", "Proofs/DictLeakSkip.vo"])
    q = ck.quick
    budget = {"injections": 5 if q else 8, "cfgs_per_injection": 3 if q else 4, "conversions": 2 if q else 3,
              "doc_injections": 2 if q else 3, "cfgs_per_doc": 2 if q else 3, "json_injections": 3 if q else 6,
              "json_conversions": 4 if q else 12, "blank_targets": 3 if q else 8,
              "mutations": 6, "cfgs_per_mutation": 2}
    jobs = make_jobs(ck, "c10", EXTRAS_C10, ck.n(16, 120), budget)
    if getattr(ck, "replay_file", None):
        rp = json.load(open(ck.replay_file))["replay"]
        if "job" in rp:
            jobs = [dict(rp["job"], id=0, mode="c10", budget=budget)]
    res = run_jobs(jobs)
    skipped = harness_problems(ck, res)
    defs = job_defs(res)

    inj_terms, inj_meta = [], []
    conv_groups = {}
    corr_terms, corr_meta = [], []
    unsupported = 0
    for j in res["jobs"]:
        if not j.get("universe"):
            continue
        for c in j["cases"]:
            if c.get("harness_problem"):
                ck.notes.append(c["harness_problem"])
                continue
            if c.get("kind") == "timeout":
                ck.failure("timeout", f"parser did not return within 5 s ({c['tag']})", {"job": job_replay_info(j), "case": c["replay"]})
                continue
            if c["unsupported"] or c["obs"] is None:
                if c["obs"] is None and c.get("exc") and not c["unsupported"]:
                    ck.failure("unexpected-exception-" + c["exc"], f"{c['tag']} raised {c['exc']}: {c.get('msg')}",
                               {"job": job_replay_info(j), "case": c["replay"]})
                unsupported += 1
                continue
            if "undo" in c:
                if c.get("plain_obs") is None or c.get("plain_unsupported"):
                    unsupported += 1
                    continue
                inj_terms.append(f"({cfg_term(j, c['cfg'])}, tbl_{j['id']}, u_{j['id']}, Some {j['root']}, {c['events']}, "
                                 f"{c['undo']}, {c['obs']}, {c['plain_obs']})")
                inj_meta.append((j, c))
            else:
                corr_terms.append(corr_term(j, c))
                corr_meta.append((j, c))
                if c["tag"] == "convert":
                    conv_groups.setdefault((j["id"], json.dumps(c["replay"]["events"])), {})[tuple(c["cfg"])] = (j, c)

    codes = coq_codes(f"c10_inj_{os.getpid()}", defs, "c10_case", "c10_code", inj_terms)
    guard_n = strict_n = 0
    distinct = set()
    for (j, c), code in zip(inj_meta, codes):
        rp = {"job": job_replay_info(j), "case": c["replay"], "observed": c["obs"][:400], "plain": c["plain_obs"][:400]}
        what = "; ".join(c["replay"].get("what", []))
        if code & 1:
            ck.failure("corr-parser", f"model and implementation disagree on a stream with injected content ({what}) cfg={c['cfg']} "
                                      f"[{c['tag']}] impl={c['obs'][:200]}", rp)
        if code & 4:
            ck.failure("corr-parser-plain", f"the stream with the injections undone does not parse (model) to the plain observation ({what})", rp)
        if code & 2:
            cls = "unknown-content-changes-result"
            ck.failure(cls, f"fail_on_unknown_* off, admissible injection ({what}) cfg={c['cfg']} [{c['tag']}]: "
                            f"{c['obs'][:150]} vs plain {c['plain_obs'][:150]}", rp)
        if code & 64:
            ck.failure("unknown-attr-captured-by-scalar-wildcard",
                       f"unknown attribute on an element bound to a class with a scalar wildcard field is kept ({what}) cfg={c['cfg']} [{c['tag']}]: "
                       f"{c['obs'][:150]} vs plain {c['plain_obs'][:150]}", rp)
        if code & 8:
            ck.failure("strict-unknown-element-not-rejected", f"strict setting, unknown element ({what}) cfg={c['cfg']}: {c['obs'][:200]}", rp)
        guard_n += bool(code & 16)
        strict_n += bool(code & 32)
        if code & 48:
            distinct.add((j["id"], what, tuple(c["cfg"]), c["tag"]))

    # an unknown element directly inside an element bound through a union of classes (wildcard-free candidates):
    # recorded and replayed with the user's options, so it must be transparent when unknown properties are ignored
    upairs = [(j, c) for (j, c) in inj_meta if c.get("union_child") and not c["cfg"][0]]
    for i in common.coq_bad_indices(f"c10_union_{os.getpid()}", IMPORTS, defs, "outcome * outcome", "oracle_same",
                                    [f"({c['obs']}, {c['plain_obs']})" for _, c in upairs], shard=300):
        j, c = upairs[i]
        ck.failure("unknown-content-changes-result-in-union",
                   f"fail_on_unknown_properties off, unknown element inside a union-bound element ({'; '.join(c['replay'].get('what', []))}) "
                   f"cfg={c['cfg']}: {c['obs'][:150]} vs plain {c['plain_obs'][:150]}",
                   {"job": job_replay_info(j), "case": c["replay"], "observed": c["obs"][:400], "plain": c["plain_obs"][:400]})

    bad = common.coq_bad_indices(f"c10_corr_{os.getpid()}", IMPORTS, defs, "corr_case", "agree_parse", corr_terms, shard=50)
    for i in bad:
        j, c = corr_meta[i]
        ck.failure("corr-parser", f"model and implementation disagree ({c['tag']}, {c['replay'].get('what')}) cfg={c['cfg']} impl={c['obs'][:200]}",
                   {"job": job_replay_info(j), "case": c["replay"], "observed": c["obs"][:400]})

    # conversion matrix on the observed outcomes
    pairs, pmeta = [], []
    warned = 0
    for key, by_cfg in conv_groups.items():
        for a in (True, False):
            for b in (False, True):
                if (a, b, False) in by_cfg and (a, b, True) in by_cfg:
                    j, c0 = by_cfg[(a, b, False)]
                    _, c1 = by_cfg[(a, b, True)]
                    pairs.append(f"({c0['obs']}, {c1['obs']})")
                    pmeta.append((j, c0, c1))
                    warned += "WConv" in c0["obs"]
    for i in common.coq_bad_indices(f"c10_conv_{os.getpid()}", IMPORTS, "", "outcome * outcome", "oracle_conversion", pairs, shard=400):
        j, c0, c1 = pmeta[i]
        ck.failure("conversion-matrix", f"unconvertible value ({c0['replay'].get('what')}): without failing {c0['obs'][:150]}, "
                                        f"with fail_on_converter_warnings {c1['obs'][:150]}",
                   {"job": job_replay_info(j), "case": c0["replay"]})

    # dictionary / JSON decoder: unknown keys
    jpairs, jmeta = [], []
    jstrict, jsmeta = [], []
    for j in res["jobs"]:
        for d in j.get("json_cases", []):
            if "skipped" in d:
                continue
            p0, p1 = d["plain"], d["inj"]
            if d.get("generic_target"):
                continue           # a key next to the keys of a generic-form dictionary changes its reading: judged by the model only
            if p0["kind"] != "ok" or p0.get("unsupported") or p0["obs"] is None:
                continue
            rp = {"job": job_replay_info(j), "json": d["doc"], "key": d["key"], "path": d["path"], "fail": d["fail"]}
            if p1["kind"] == "timeout":
                ck.failure("timeout", "JsonParser did not return within 5 s", rp)
            elif d["fail"]:
                if p1["kind"] == "ok":
                    ck.failure("json-strict-unknown-key-accepted", f"unknown key {d['key']} at {d['path']} accepted under the strict default", rp)
                elif p1["obs"] is None:
                    ck.failure("json-unknown-key-" + p1["exc"], f"unknown key {d['key']} at {d['path']}: {p1['exc']} {p1['msg']}", rp)
                else:
                    jstrict.append(f"({p1['obs']}, Err ParserError)")
                    jsmeta.append((d, rp))
            else:
                if p1["kind"] != "ok" or p1["obs"] is None:
                    ck.failure("json-unknown-key-not-ignored" + ("-polymorphic" if d.get("polymorphic") and p1.get("exc") == "ParserError" else ""), f"fail_on_unknown_properties=False, unknown key {d['key']} at {d['path']}: "
                                                               f"{p1['exc']} {p1['msg']}", rp)
                else:
                    jpairs.append(f"({p1['obs']}, {p0['obs']})")
                    jmeta.append((d, rp))
    for i in common.coq_bad_indices(f"c10_json_{os.getpid()}", IMPORTS, defs, "outcome * outcome", "oracle_same", jpairs, shard=400):
        d, rp = jmeta[i]
        ck.failure("json-unknown-key-changes-result", f"unknown key {d['key']} at {d['path']} changes the decoded object", rp)
    for i in common.coq_bad_indices(f"c10_jsons_{os.getpid()}", IMPORTS, defs, "outcome * outcome", "oracle_same", jstrict, shard=400):
        d, rp = jsmeta[i]
        ck.failure("json-strict-unknown-key-" + d["inj"]["exc"], f"unknown key {d['key']} at {d['path']} under the strict default raises {d['inj']['exc']}", rp)

    # dictionary / JSON decoder: conversion matrix (mistyped scalars, incl. bool where int is declared)
    jc_terms, jc_meta = [], []
    for j in res["jobs"]:
        for d in j.get("json_conversions", []):
            rp = {"job": job_replay_info(j), "json": d["doc"], "path": d["path"], "value": d["value"], "types": d["types"]}
            a, b = d["nofail"], d["fail"]
            if "timeout" in (a["kind"], b["kind"]):
                ck.failure("timeout", "JsonParser did not return within 5 s", rp)
                continue
            bad_exc = [x for x in (a, b) if x["kind"] == "err" and x["obs"] is None]
            if bad_exc:
                ck.failure("json-conversion-" + bad_exc[0]["exc"], f"value {d['value']} at {d['path']} (declared {d['types']}): "
                                                                 f"{bad_exc[0]['exc']} {bad_exc[0]['msg']}", rp)
                continue
            if a.get("unsupported") or b.get("unsupported") or a["obs"] is None or b["obs"] is None:
                continue
            jc_terms.append(f"({cbool(d['unconvertible'])}, {a['obs']}, {b['obs']})")
            jc_meta.append((d, rp))
    for i in common.coq_bad_indices(f"c10_jsonc_{os.getpid()}", IMPORTS, defs, "bool * outcome * outcome", "oracle_json_conversion", jc_terms, shard=300):
        d, rp = jc_meta[i]
        ck.failure("json-conversion-matrix", f"JSON value {d['value']} at {d['path']} (declared {d['types']}, the converter says "
                                             f"{'unconvertible' if d['unconvertible'] else 'convertible'}): without failing {d['nofail']['kind']} "
                                             f"warnings={d['nofail']['warnings']}, with fail_on_converter_warnings {d['fail']['kind']} {d['fail']['exc']}", rp)

    # dictionary decoder: Model/DictLeak.v under correspondence on every JSON document of this check, and the
    # hypotheses of C10_dict_unknown_key_transparent evaluated in Coq for keys added to the document object
    dterms, dmeta = [], []
    for j in res["jobs"]:
        if not (j.get("universe") and j.get("generics")):
            continue
        for d in j.get("json_cases", []):
            dd = d.get("dict")
            if not dd:
                continue
            for which in ("inj", "plain"):
                jt, ob = dd[which]
                if ob is not None:
                    dterms.append(dict_term(j, dd["dcfg"], False, jt, ob))
                    dmeta.append((j, d, which))
        for d in j.get("json_conversions", []):
            for failc, f in zip((False, True), d.get("dict") or []):
                if f and f[1] is not None:
                    dterms.append(dict_term(j, [True, failc], False, f[0], f[1]))
                    dmeta.append((j, d, f"fail_conv={failc}"))
    dcodes = coq_codes(f"c10_dict_{os.getpid()}", dict_defs(res), "dict_case", "dict_code_guarded", dterms, imports=DICT_IMPORTS, shard=80)
    dict_guarded = 0
    for (j, d, which), code in zip(dmeta, dcodes):
        rp = {"job": job_replay_info(j), "json": d.get("doc"), "which": which}
        dict_guarded += bool(code & 4)
        if code & 1:
            ck.failure("corr-dict-decoder", f"DictLeak model and DictDecoder disagree on the outcome class ({which}; key/path {d.get('key')}/{d.get('path')})", rp)
        elif code & 2 and code & 4:
            ck.failure("dict-theorem-contradicted", f"dict_wf holds and the decoder raised an undocumented exception ({which})", rp)
    uk_terms, uk_meta = [], []
    for j in res["jobs"]:
        if not (j.get("universe") and j.get("generics")):
            continue
        for d in j.get("json_cases", []):
            dd = d.get("dict")
            if dd and d["path"] == [] and dd["inj"][1] is not None and dd["plain"][1] is not None:
                cfg = f"(mk_dconfig {cbool(dd['dcfg'][0])} {cbool(dd['dcfg'][1])} nd_{j['id']})"
                uk_terms.append(f"(u_{j['id']}, {cfg}, Some {j['root']}, {dd['inj'][0]}, {common.cstr(d['key'])}, {dd['inj'][1]}, {dd['plain'][1]})")
                uk_meta.append((j, d))
    ukc = coq_codes(f"c10_dictuk_{os.getpid()}",
                    dict_defs(res) + "\nDefinition uk_code (x : universe * dconfig * option cls * jvalue * str * option dkind * option dkind) : N :="
                    "\n  let '(u, cfg, clazz, j', k, a, b) := x in"
                    "\n  if unknown_key_guard u cfg clazz j' k then (match a, b with None, None => 1 | Some x, Some y => if dkind_eqb x y then 1 else 2 | _, _ => 2 end)%N else 0%N.",
                    "universe * dconfig * option cls * jvalue * str * option dkind * option dkind", "uk_code", uk_terms, imports=DICT_IMPORTS, shard=80)
    uk_guarded = 0
    for (j, d), code in zip(uk_meta, ukc):
        uk_guarded += code in (1, 2)
        if code == 2:
            ck.failure("json-unknown-key-changes-result", f"hypotheses of C10_dict_unknown_key_transparent hold for key {d['key']} and the outcomes differ",
                       {"job": job_replay_info(j), "json": d["doc"], "key": d["key"]})

    n_eval = len(inj_terms) + len(corr_terms) + len(pairs) + len(jpairs) + len(jstrict) + len(jc_terms) + len(dterms)
    ck.cov["evaluations"] = n_eval
    ck.cov["distinct_nontrivial"] = len(distinct)
    ck.cov["rule"] = ("distinct (model, injection set, option triple, level) whose injection satisfies, in Coq, the hypotheses of "
                      "C10_skip_transparent (admissible) or of C10_strict_rejects (strict position); the other evaluations are the correspondence "
                      "cases on plain / injected / value-corrupted streams, conversion pairs and JSON unknown-key cases")
    tags = {}
    for _, c in inj_meta + corr_meta:
        tags[c["tag"].split(":")[0] + ("/" + c["tag"].split(":")[1] if c["tag"].startswith("doc") else "")] = \
            tags.get(c["tag"].split(":")[0] + ("/" + c["tag"].split(":")[1] if c["tag"].startswith("doc") else ""), 0) + 1
    ck.cov["input_distribution"] = {"jobs": len(jobs), "jobs_skipped": skipped, "cases_by_kind": tags, "unsupported_cases": unsupported,
                                    "injection_cases": len(inj_terms), "guard_true": guard_n, "strict_position": strict_n,
                                    "conversion_pairs": len(pairs), "conversion_pairs_with_warning": warned,
                                    "json_transparent": len(jpairs), "json_strict": len(jstrict), "json_conversion": len(jc_terms),
                                    "json_conversion_unconvertible": sum(1 for d, _ in jc_meta if d["unconvertible"]),
                                    "union_child_positions_swept": len(upairs),
                                    "dict_decoder_correspondence_cases": len(dterms), "dict_cases_with_closed_metadata": dict_guarded,
                                    "dict_unknown_key_theorem_hypotheses_hold": uk_guarded}
    ck.cov["samples"] = [{"model": j["model"], "seed": j["seed"], "what": c["replay"].get("what"), "cfg": c["cfg"], "tag": c["tag"],
                          "observed": c["obs"][:160]} for (j, c) in (inj_meta[:4] + corr_meta[:3])]
    return ck.finish(obligations=obligations, discharged=discharged,
                     checker_cmd="make -C coq Properties/C10.vo && coqc -Q coq XV coq/Properties/C10.v (Print Assumptions)",
                     trusted_base=TRUSTED_COMMON + [
                         "harness/bind_export.py (real XmlMeta/objects/events -> Gallina) and harness/impl_parser.py (converter-call recording)",
                         "primitive converter taken as the recorded table of the real run (property C05 proves the converter itself)",
                         "axioms: " + (", ".join(axioms) or "none (all theorems closed under the global context)")],
                     assumptions=["element and attribute names in parser events are non-empty",
                                  "one XmlMeta per class (metadata cache keyed by class: property C14's subject)",
                                  "document-level insertion positions follow no character data of the parent (Spec/Inject.v)",
                                  "DictDecoder/JsonParser: Model/DictLeak.v (outcome classes) under correspondence; values of decoded objects are compared "
                                  "on the exported outcomes only (Model/DictCodec.v, property C04, models the values of the round-trip slice)"])
