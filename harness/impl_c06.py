"""Runs xsdata's date/time code on a batch of operations (JSON stdin -> JSON stdout)."""
import datetime
import json
import sys

from xsdata.models.datatype import XmlDate, XmlDateTime, XmlDuration, XmlPeriod, XmlTime


def exc(e):
    return {"err": type(e).__name__}


def std_any(op, offs):
    if op["t"] == "datetime":
        dt = XmlDateTime(*op["v"]).to_datetime()
        inst = (dt if dt.tzinfo else dt.replace(tzinfo=datetime.timezone.utc)) - datetime.datetime(1970, 1, 1, tzinfo=datetime.timezone.utc)
        return {"fields": [dt.year, dt.month, dt.day, dt.hour, dt.minute, dt.second, dt.microsecond, offs(dt.utcoffset())],
                "back": list(XmlDateTime.from_datetime(dt)),
                "us": (inst.days * 86400 + inst.seconds) * 1000000 + inst.microseconds}
    if op["t"] == "time":
        t = XmlTime(*op["v"]).to_time()
        return {"fields": [t.hour, t.minute, t.second, t.microsecond, offs(t.utcoffset())],
                "back": list(XmlTime.from_time(t))}
    a = XmlDate(*op["v"])
    d, dt = a.to_date(), a.to_datetime()
    return {"dfields": [d.year, d.month, d.day],
            "fields": [dt.year, dt.month, dt.day, dt.hour, dt.minute, dt.second, dt.microsecond, offs(dt.utcoffset())],
            "back_d": list(XmlDate.from_date(d)), "back_dt": list(XmlDate.from_datetime(dt))}


def run(op):
    k = op["op"]
    try:
        if k == "date_from_string":
            return {"ok": list(XmlDate.from_string(op["s"]))}
        if k == "time_from_string":
            return {"ok": list(XmlTime.from_string(op["s"]))}
        if k == "datetime_from_string":
            return {"ok": list(XmlDateTime.from_string(op["s"]))}
        if k.endswith("_replace"):
            cls_, names = {"date_replace": (XmlDate, ("year", "month", "day")),
                           "time_replace": (XmlTime, ("hour", "minute", "second", "fractional_second")),
                           "datetime_replace": (XmlDateTime, ("year", "month", "day", "hour", "minute", "second",
                                                              "fractional_second"))}[k]
            kw = {n: a for n, a in zip(names, op["args"]) if a is not None}
            if op["off"] != ["keep"]:
                kw["offset"] = op["off"][0]
            out = cls_(*op["v"]).replace(**kw)
            if type(out) is not cls_:
                return {"err": "type " + type(out).__name__}
            return {"ok": list(out)}
        if k == "date_str":
            return {"ok": str(XmlDate(*op["v"]))}
        if k == "time_str":
            return {"ok": str(XmlTime(*op["v"]))}
        if k == "datetime_str":
            return {"ok": str(XmlDateTime(*op["v"]))}
        if k == "period":
            p = XmlPeriod(op["s"])
            again = XmlPeriod(str(p))
            return {"ok": [p.year, p.month, p.day, p.offset], "data": p.data, "str": str(p),
                    "again_eq": again == p and str(again) == str(p)}
        if k == "duration":
            d = XmlDuration(op["s"])
            sec = d.seconds
            again = XmlDuration(str(d))
            return {"ok": [d.negative, d.years, d.months, d.days, d.hours, d.minutes,
                           None if sec is None else sec.hex()], "str": str(d),
                    "again_eq": again == d and str(again) == str(d)}
        if k == "time_cmp":
            a, b = XmlTime(*op["a"]), XmlTime(*op["b"])
            return {"ok": [a < b, a == b, a <= b, a > b, a >= b, a != b], "da": float(a.duration).hex(),
                    "db": float(b.duration).hex()}
        if k == "datetime_cmp":
            a, b = XmlDateTime(*op["a"]), XmlDateTime(*op["b"])
            return {"ok": [a < b, a == b, a <= b, a > b, a >= b, a != b], "da": float(a.duration).hex(),
                    "db": float(b.duration).hex()}
        if k == "datetime_std":
            # XmlDateTime -> datetime -> XmlDateTime and the instant of the datetime
            a = XmlDateTime(*op["v"])
            dt = a.to_datetime()
            back = XmlDateTime.from_datetime(dt)
            if dt.tzinfo is None:
                inst = dt.replace(tzinfo=datetime.timezone.utc) - datetime.datetime(1970, 1, 1, tzinfo=datetime.timezone.utc)
            else:
                inst = dt - datetime.datetime(1970, 1, 1, tzinfo=datetime.timezone.utc)
            us = (inst.days * 86400 + inst.seconds) * 1000000 + inst.microseconds
            return {"ok": list(back), "us": us, "naive": dt.tzinfo is None}
        if k == "time_std":
            a = XmlTime(*op["v"])
            t = a.to_time()
            back = XmlTime.from_time(t)
            off = t.utcoffset()
            return {"ok": list(back), "t": [t.hour, t.minute, t.second, t.microsecond,
                                            None if off is None else int(off.total_seconds())]}
        if k == "date_std":
            a = XmlDate(*op["v"])
            d = a.to_date()
            dt = a.to_datetime()
            off = dt.utcoffset()
            return {"ok": list(XmlDate.from_date(d)), "back_dt": list(XmlDate.from_datetime(dt)),
                    "d": [d.year, d.month, d.day],
                    "dt": [dt.year, dt.month, dt.day, dt.hour, dt.minute, dt.second, dt.microsecond,
                           None if off is None else int(off.total_seconds())]}
        if k == "std_any":
            # any value (in or out of the stdlib range): fields of the stdlib object(s), value converted back
            def offs(o):
                return None if o is None else int(o.total_seconds())
            try:
                return std_any(op, offs)
            except OverflowError:
                # the stdlib constructors raise OverflowError instead of ValueError for integers beyond a C int
                # (year 242405547168): still "the conversion raised", which is all the model says (None)
                return {"err": "ValueError"}
        if k == "now":
            # XmlTime.now(tz) / utcnow() / XmlDateTime.now(tz) between two reference readings of the clock
            tzm = op["tz"]
            tz = None if tzm is None else (datetime.timezone.utc if tzm == 0 else datetime.timezone(datetime.timedelta(minutes=tzm)))
            def tod(d):
                return (d.hour * 3600 + d.minute * 60 + d.second) * 1000000 + d.microsecond
            lo = datetime.datetime.now(tz=tz)
            if op["utc"]:
                t, dt = XmlTime.utcnow(), XmlDateTime.utcnow()
            else:
                t, dt = XmlTime.now(tz), XmlDateTime.now(tz)
            hi = datetime.datetime.now(tz=tz)
            return {"t": list(t), "dt": list(dt), "lo": tod(lo), "hi": tod(hi)}
        raise KeyError(k)
    except ValueError as e:
        return {"err": "ValueError"}
    except Exception as e:  # noqa
        return exc(e)


def main():
    ops = json.load(sys.stdin)
    json.dump([run(op) for op in ops], sys.stdout)


main()
