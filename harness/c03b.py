"""C03b — the serializer's events are exactly what the class/field metadata prescribe
(the "says what the metadata says" half of C03; to be merged into harness/c03.py).

Deciding artefact: theorems of coq/Properties/C03b.v over Model/EventGen.v (EventGenerator),
Model/Builder.v (XmlMetaBuilder) and Spec/MetaSpec.v (independent reading of the documented
metadata).  Ties, checked on every run:
  corr-eventgen  list(EventGenerator.generate(obj)) == EventGen.generate on the REAL metadata
  corr-builder   XmlContext.build(...) of every class == Builder.universe_of description
  oracle-spec    MetaSpec.spec_events description value == what the implementation emitted
"""
import concurrent.futures as cf
import json

import genmodels
from bind_export import cstr as bcstr
from common import Check, coq_bad_indices, coq_eval, run_impl, standard_proof_step, TRUSTED_COMMON, BuildError
from coqterm import cbool

IMPORTS = "From XV Require Import Base.Str Base.Eqb Model.Bind Model.EventGen Model.EventGenCorr."
SLICE_MIX = [("F1",), ("F1",), ("F1", "F2"), ("F1", "F2", "F3"), ("F1", "F2", "F3")]


# ------------------------------------------------------------------ generation
def gen_models(ck, n_models, per_model, slice_mix=SLICE_MIX, hostile=0.3):
    r = ck.rng
    models = []
    for _ in range(n_models):
        slices = r.choice(slice_mix)
        desc = genmodels.gen_model(r, slices=slices)
        cases = []
        for _ in range(per_model):
            root = desc["root"] if r.random() < 0.8 else r.choice(desc["classes"])["name"]
            try:
                rec = genmodels.gen_instance(r, desc, root)
            except RecursionError:      # genmodels: a base-class compound field may reference its own subclass
                continue
            case = {"recipe": rec, "ignore": r.random() < 0.35, "derived": None, "hostile": False}
            if r.random() < hostile:
                case["recipe"] = mutate_recipe(r, desc, rec)
                case["hostile"] = True
            if "F3" in slices and r.random() < 0.15:
                case["derived"] = r.choice(["{urn:a}d", "d", "{urn:d}x-y"])
            cases.append(case)
        models.append({"desc": desc, "src": genmodels.render_source(desc),
                       "classes": [c["name"] for c in desc["classes"]],
                       "enums": [e["name"] for e in desc["enums"]], "cases": cases})
    return models


# ------------------------------------------------------------------ hostile instances
def mutate_recipe(r, desc, rec):
    """Type-confused / edge-case instances: exercise the exception paths and the truthiness,
    choice-matching and xsi:type branches the well-typed generator never reaches."""
    if not isinstance(rec, dict) or "__cls__" not in rec:
        return rec
    c = genmodels.find_class(desc, rec["__cls__"])
    fields = {f["name"]: f for f in genmodels.all_fields(desc, c)}
    names = list(rec["fields"])
    if not names:
        return rec
    for _ in range(r.choice([1, 1, 2])):
        n = r.choice(names)
        f, v = fields[n], rec["fields"][n]
        k = r.random()
        if isinstance(v, dict) and "__cls__" in v and k < 0.4:
            rec["fields"][n] = mutate_recipe(r, desc, v)
            continue
        if isinstance(v, list) and v and isinstance(v[0], dict) and "__cls__" in v[0] and k < 0.4:
            v[0] = mutate_recipe(r, desc, v[0])
            continue
        kind = f["kind"]
        opts = [None, {"__p__": "str", "v": ""}, {"__p__": "int", "v": 0}, {"__p__": "bool", "v": False},
                {"__p__": "str", "v": "x y"}, {"__p__": "float", "v": "-0.0"}, {"__p__": "Decimal", "v": "0.00"},
                {"__p__": "bytes", "v": []}, {"__p__": "QName", "v": "{urn:a}q"}, [], {"__tuple__": []}]
        if isinstance(v, list):
            opts += [v[0]] if v else []
            opts += [[v], {"__tuple__": v}, v + [None]]
        else:
            opts += [[v], [v, v]]
        other = r.choice(desc["classes"])["name"]
        try:
            inst = genmodels.gen_instance(r, desc, other)
        except RecursionError:
            inst = None
        if kind in ("Element", "Elements", "Wildcard"):
            opts += [inst, [inst], {"__derived__": {"qname": r.choice(["{urn:a}d", "dd", f.get("xml_name") or n]),
                                                    "value": r.choice([inst, {"__p__": "int", "v": 40000}, {"__p__": "str", "v": "s"}, None]),
                                                    "type": None}},
                     {"__any__": {"qname": r.choice([None, "", "{urn:x}w"]), "text": r.choice([None, "t"]), "tail": r.choice([None, "", "tl"]),
                                  "attributes": {}, "children": [{"__p__": "str", "v": "kid"}] if r.random() < 0.3 else []}}]
            if kind == "Elements":
                opts += [{"__p__": "Decimal", "v": "1.5"}, {"__p__": "str", "v": "2001-02-28"}, {"__p__": "str", "v": "7"},
                         {"__derived__": {"qname": f["choices"][0]["name"], "value": {"__p__": "str", "v": "s"}, "type": None}}]
        if kind == "Attributes":
            opts = [None, {"__map__": {"k": "v", "{urn:a}z": ""}}, []]
        rec["fields"][n] = r.choice(opts)
    return rec


def chunks(xs, n):
    k = max(1, (len(xs) + n - 1) // n)
    return [xs[i:i + k] for i in range(0, len(xs), k)]


def eval_groups(tag, imports, ctype, check, groups, workers=16):
    """groups: list of (defs, [case terms]); returns list of bad-index lists (one per group)."""
    def one(i_g):
        i, (defs, cases) = i_g
        if not cases:
            return []
        return coq_bad_indices(f"{tag}_{i}", imports, defs, ctype, check, cases, shard=100000)
    with cf.ThreadPoolExecutor(max_workers=workers) as ex:
        return list(ex.map(one, enumerate(groups)))


# ------------------------------------------------------------------ correspondence: EventGen
def corr_eventgen(ck, models, res, tag="c03b_gen"):
    """returns (evaluations, skipped, list of failing (mi, ci))"""
    flat = []      # (mi, ci)
    groups = []
    idx_groups = []
    mids = [i for i, m in enumerate(res["models"]) if m["universe"]]
    for part in chunks(mids, 16):
        defs, cases, idx = [], [], []
        for mi in part:
            rm = res["models"][mi]
            defs.append(f"Definition u_{mi} : universe := {rm['universe']}.")
            for ci, c in enumerate(rm["cases"]):
                if c.get("skip") or not c.get("outcome"):
                    continue
                ign = cbool(models[mi]["cases"][ci]["ignore"])
                hos = cbool(models[mi]["cases"][ci].get("hostile", False))
                cases.append(f"({hos}, (u_{mi}, mk_gen_case {ign} {c['table']} {c['value']} {c['outcome']}))")
                idx.append((mi, ci))
        groups.append(("\n".join(defs), cases))
        idx_groups.append(idx)
        flat += idx
    bads = eval_groups(tag, IMPORTS, "bool * (universe * gen_case)", "agree_gen_stream", groups)
    failing = [idx_groups[g][i] for g, b in enumerate(bads) for i in b]
    unm = eval_groups(tag + "_unm", IMPORTS, "bool * (universe * gen_case)", "unmodelled_stream", groups)
    ck.cov["hostile_cases"] = sum(1 for mi, ci in flat if models[mi]["cases"][ci].get("hostile"))
    ck.cov["model_answered_unmodelled"] = sum(len(b) for b in unm)
    return len(flat), failing


def describe_failure(models, res, mi, ci, tag):
    rm = res["models"][mi]
    c = rm["cases"][ci]
    ign = cbool(models[mi]["cases"][ci]["ignore"])
    try:
        got = coq_eval(tag, IMPORTS, f"Definition u0 : universe := {rm['universe']}.",
                       f"generate {ign} (conv_of_table {c['table']}) u0 {c['value']}")
    except BuildError as e:
        got = "coq error: " + e.log[-300:]
    return {"src": models[mi]["src"], "case": models[mi]["cases"][ci], "impl_outcome": c["outcome"][:3000],
            "impl_error": c.get("error"), "model_outcome": got[:3000],
            "coq": {"universe": rm["universe"], "ignore": ign, "table": c["table"], "value": c["value"]}}


def run(ck: Check):
    obligations, discharged, axioms = standard_proof_step(ck, extra_targets=["Model/EventGenCorr.vo"])
    n_models = ck.n(200, 3000)
    per_model = ck.n(6, 8)
    models = gen_models(ck, n_models, per_model)
    res = run_impl("impl_eventgen.py", {"models": [{k: m[k] for k in ("src", "classes", "enums", "cases")} for m in models]},
                   timeout=1500)
    unsupported = [(i, m["unsupported"]) for i, m in enumerate(res["models"]) if m["unsupported"]]
    skipped = sum(1 for m in res["models"] for c in m["cases"] if c.get("skip"))
    n_eval, failing = corr_eventgen(ck, models, res)
    ck.notes.append(f"corr-eventgen failing cases: {len(failing)}")
    for mi, ci in failing[:5]:
        rep = describe_failure(models, res, mi, ci, f"c03b_dbg_{mi}_{ci}")
        ck.failure("corr-eventgen", "EventGen model and EventGenerator disagree on a generated (model, instance)", rep)
    # coverage
    outcomes = set()
    errs = 0
    by_slice = {}
    for mi, rm in enumerate(res["models"]):
        for ci, c in enumerate(rm["cases"]):
            if c.get("outcome") and (c.get("events") or 0) > 2:
                outcomes.add(hash(c["outcome"]))
            if c.get("outcome", "").startswith("(Err"):
                errs += 1
        s = "+".join(models[mi]["desc"]["slices"])
        by_slice[s] = by_slice.get(s, 0) + len(rm["cases"])
    ck.cov["evaluations"] = n_eval
    ck.cov["distinct_nontrivial"] = len(outcomes)
    ck.cov["rule"] = "distinct implementation event lists with more than 2 events"
    ck.cov["input_distribution"] = {"models": n_models, "instances_per_model": per_model, "by_slices": by_slice,
                                    "impl_exceptions": errs, "models_unsupported": len(unsupported),
                                    "cases_skipped": skipped, "unsupported_samples": [u[1][:160] for u in unsupported[:4]]}
    ck.cov["samples"] = [models[0]["src"][-400:]]
    return ck.finish(obligations=obligations, discharged=discharged,
                     checker_cmd="make Properties/C03b.vo; coqc Corr/cases_c03b_*.v",
                     trusted_base=TRUSTED_COMMON + ["harness/bind_export.py (real XmlMeta/objects/events -> Gallina)",
                                                    "recorded converter table (ConverterFactory wrapped in the impl process)"],
                     assumptions=axioms)
