"""C03b — the serializer's events are exactly what the class/field metadata prescribe
(the "says what the metadata says" half of C03; to be merged into harness/c03.py).

Deciding artefact: theorems of coq/Properties/C03b.v over Model/EventGen.v (EventGenerator),
Model/Builder.v (XmlMetaBuilder) and Spec/MetaSpec.v (independent reading of the documented
metadata).  Ties, checked on every run:
  corr-eventgen  list(EventGenerator.generate(obj)) == EventGen.generate on the REAL metadata
  corr-builder   XmlContext.build(...) of every class == Builder.universe_of description
  oracle-spec    MetaSpec.spec_events description value == what the implementation emitted
"""
import concurrent.futures as cf
import json
import os
import re

import genmodels
from common import (Check, coq_eval, run_impl, standard_proof_step, TRUSTED_COMMON, BuildError, CORR, COQ, _coqc)
from coqterm import cbool, cstr, copt, clist

IMPORTS = ("From XV Require Import Base.Str Base.Eqb Model.Bind Model.EventGen Model.EventGenCorr "
           "Spec.MetaSpec Model.Builder Model.BuilderCorr.")
SLICE_MIX = [("F1",), ("F1",), ("F1", "F2"), ("F1", "F2", "F3"), ("F1", "F2", "F3")]


# ------------------------------------------------------------------ generation
def gen_models(ck, n_models, per_model, slice_mix=SLICE_MIX, hostile=0.3):
    r = ck.rng
    models = []
    for _ in range(n_models):
        slices = r.choice(slice_mix)
        desc = genmodels.gen_model(r, slices=slices)
        cases = []
        for _ in range(per_model):
            root = desc["root"] if r.random() < 0.8 else r.choice(desc["classes"])["name"]
            try:
                rec = genmodels.gen_instance(r, desc, root)
            except RecursionError:      # genmodels: a base-class compound field may reference its own subclass
                continue
            case = {"recipe": rec, "ignore": r.random() < 0.35, "derived": None, "hostile": False}
            if r.random() < hostile:
                case["recipe"] = mutate_recipe(r, desc, rec)
                case["hostile"] = True
            if "F3" in slices and r.random() < 0.15:
                case["derived"] = r.choice(["{urn:a}d", "d", "{urn:d}x-y"])
            cases.append(case)
        models.append({"desc": desc, "src": genmodels.render_source(desc),
                       "classes": [c["name"] for c in desc["classes"]],
                       "enums": [e["name"] for e in desc["enums"]], "cases": cases})
    return models


# ------------------------------------------------------------------ hostile instances
def mutate_recipe(r, desc, rec):
    """Type-confused / edge-case instances: exercise the exception paths and the truthiness,
    choice-matching and xsi:type branches the well-typed generator never reaches."""
    if not isinstance(rec, dict) or "__cls__" not in rec:
        return rec
    c = genmodels.find_class(desc, rec["__cls__"])
    fields = {f["name"]: f for f in genmodels.all_fields(desc, c)}
    names = list(rec["fields"])
    if not names:
        return rec
    for _ in range(r.choice([1, 1, 2])):
        n = r.choice(names)
        f, v = fields[n], rec["fields"][n]
        k = r.random()
        if isinstance(v, dict) and "__cls__" in v and k < 0.4:
            rec["fields"][n] = mutate_recipe(r, desc, v)
            continue
        if isinstance(v, list) and v and isinstance(v[0], dict) and "__cls__" in v[0] and k < 0.4:
            v[0] = mutate_recipe(r, desc, v[0])
            continue
        kind = f["kind"]
        opts = [None, {"__p__": "str", "v": ""}, {"__p__": "int", "v": 0}, {"__p__": "bool", "v": False},
                {"__p__": "str", "v": "x y"}, {"__p__": "float", "v": "-0.0"}, {"__p__": "Decimal", "v": "0.00"},
                {"__p__": "bytes", "v": []}, {"__p__": "QName", "v": "{urn:a}q"}, [], {"__tuple__": []}]
        if isinstance(v, list):
            opts += [v[0]] if v else []
            opts += [[v], {"__tuple__": v}, v + [None]]
        else:
            opts += [[v], [v, v]]
        other = r.choice(desc["classes"])["name"]
        try:
            inst = genmodels.gen_instance(r, desc, other)
        except RecursionError:
            inst = None
        if kind in ("Element", "Elements", "Wildcard"):
            opts += [inst, [inst], {"__derived__": {"qname": r.choice(["{urn:a}d", "dd", f.get("xml_name") or n]),
                                                    "value": r.choice([inst, {"__p__": "int", "v": 40000}, {"__p__": "str", "v": "s"}, None]),
                                                    "type": None}},
                     {"__any__": {"qname": r.choice([None, "", "{urn:x}w"]), "text": r.choice([None, "t"]), "tail": r.choice([None, "", "tl"]),
                                  "attributes": {}, "children": [{"__p__": "str", "v": "kid"}] if r.random() < 0.3 else []}}]
            if kind == "Elements":
                opts += [{"__p__": "Decimal", "v": "1.5"}, {"__p__": "str", "v": "2001-02-28"}, {"__p__": "str", "v": "7"},
                         {"__derived__": {"qname": f["choices"][0]["name"], "value": {"__p__": "str", "v": "s"}, "type": None}}]
        if kind == "Attributes":
            opts = [None, {"__map__": {"k": "v", "{urn:a}z": ""}}, []]
        rec["fields"][n] = r.choice(opts)
    return rec


# ------------------------------------------------------------------ description -> Spec.MetaSpec.mdesc
PT = {"object": "TObject", "str": "TStr", "int": "TInt", "bool": "TBool", "float": "TFloat", "Decimal": "TDecimal", "QName": "TQName",
      "hex": "TBytes", "b64": "TBytes", "XmlDate": "TXmlDate", "XmlTime": "TXmlTime", "XmlDateTime": "TXmlDateTime",
      "XmlDuration": "TXmlDuration", "XmlPeriod": "TXmlPeriod"}
KIND = {"Text": "KText", "Element": "KElement", "Attribute": "KAttribute", "Wildcard": "KWildcard",
        "Attributes": "KAttributes", "Elements": "KElements"}


def desc_term(desc):
    cid = {c["name"]: i + 1 for i, c in enumerate(desc["classes"])}
    eid = {e["name"]: i + 1 for i, e in enumerate(desc["enums"])}

    def ptype(tp):
        if tp is None:
            return "TObject"
        if tp[0] == "prim":
            return PT[tp[1]]
        if tp[0] == "enum":
            return f"(TEnum {eid[tp[1]]}%N)"
        return f"(TClass {cid[tp[1]]}%N)"

    def prim(v):
        if isinstance(v, bool):
            return f"(PBool {cbool(v)})"
        if isinstance(v, int):
            return f"(PInt ({v})%Z)"
        return f"(PStr {cstr(v)})"

    def field(f):
        kind = f["kind"]
        lst, tok = bool(f.get("list")), bool(f.get("tokens"))
        has_default = "default" in f
        if kind in ("Element", "Attribute", "Text"):
            optional = not lst and not tok and not has_default
            required = optional and not f.get("optional", True)
        else:
            optional = not lst and kind != "Attributes"
            required = False
        chs = clist([f"({cstr(ch['name'])}, {ptype(ch['type'])})" for ch in f.get("choices", [])], str, "(str * ptype)")
        return ("(mk_fdesc " + " ".join([
            cstr(f["name"]), KIND[kind], copt(f.get("xml_name"), cstr), copt(f.get("namespace"), cstr),
            ptype(f.get("type")), cbool(lst), cbool(optional), cbool(tok), cbool(f.get("nillable", False)),
            copt(f.get("sequence"), lambda n: f"{n}%N"), copt(f.get("wrapper"), cstr), copt(f.get("format"), cstr),
            copt(f["default"], prim) if has_default else "None", cbool(required), cbool(f.get("mixed", False)), chs,
            copt(f.get("gen_name") if f.get("gen_name") != f["name"] else None, cstr)]) + ")")

    def klass(c):
        m = c["meta"]
        return ("(mk_cdesc " + " ".join([
            f"{cid[c['name']]}%N", cstr(c["name"]), copt(m.get("name"), cstr), copt(m.get("namespace"), cstr),
            cbool(m.get("nillable", False)), copt(c.get("base"), lambda b: f"{cid[b]}%N"),
            clist([field(f) for f in c["fields"]], str, "fdesc"),
            copt(c.get("gen_name") if c.get("gen_name") != c["name"] else None, cstr)]) + ")")

    def enum(e):
        ms = clist([f"({cstr(n)}, {prim(v)})" for n, v in e["members"]], str, "(str * prim)")
        return f"(mk_enum {eid[e['name']]}%N {ms})"

    return ("(mk_mdesc " + copt(desc.get("module_ns"), cstr) + " " + clist([klass(c) for c in desc["classes"]], str, "cdesc")
            + " " + clist([enum(e) for e in desc["enums"]], str, "enum_def") + ")")


# ------------------------------------------------------------------ compound fields over class hierarchies
def hierarchy_models(r, n):
    """Root = one compound (Elements) field whose choices are classes of a hierarchy
    Shape <- Circle <- Ring, Shape <- Square, plus an unrelated Other: every listing order (base
    first, derived first), partial listings (values of unlisted subclasses fall back to the first
    choice they derive from, with xsi:type), unrelated values (SerializerError), list and scalar."""
    out = []
    A = lambda name, tp="int": F(name, "Attribute", ("prim", tp), optional=True)   # noqa: E731
    hier = [("Shape", None, [A("label", "str")]), ("Circle", "Shape", [A("radius")]), ("Ring", "Circle", [A("inner")]),
            ("Square", "Shape", [A("side")]), ("Other", None, [A("z")])]
    for _ in range(n):
        listed = r.sample(["Shape", "Circle", "Ring", "Square", "Other"], r.choice([1, 2, 2, 3, 3, 4]))
        r.shuffle(listed)
        if r.random() < 0.4 and "Shape" in listed and "Circle" in listed:      # the order the docs' example uses: base first
            listed.sort(key=["Shape", "Circle", "Ring", "Square", "Other"].index)
        is_list = r.random() < 0.75
        root = {"name": "Drawing", "meta": r.choice([{}, {"namespace": "urn:shapes"}, {"name": "drawing", "namespace": "urn:shapes"}]),
                "base": None, "fields": [{"name": "items", "kind": "Elements", "list": is_list,
                                          "choices": [{"name": c.lower(), "type": ("class", c)} for c in listed]}]}
        classes = [root] + [{"name": n_, "meta": r.choice([{}, {}, {"namespace": "urn:shapes"}]), "base": b, "fields": fs} for n_, b, fs in hier]
        desc = {"module_ns": r.choice([None, "urn:shapes"]), "enums": [], "root": "Drawing", "slices": ["hierarchy"], "classes": classes}

        def inst(cn):
            c = genmodels.find_class(desc, cn)
            return {"__cls__": cn, "fields": {f["name"]: ({"__p__": "str", "v": "l"} if f["type"][1] == "str" else {"__p__": "int", "v": r.randint(0, 9)})
                                              if r.random() < 0.7 else None for f in genmodels.all_fields(desc, c)}}
        cases = []
        for _ in range(4):
            pool = ["Shape", "Circle", "Ring", "Square"] + (["Other"] if r.random() < 0.3 else [])
            items = [inst(r.choice(pool)) for _ in range(r.choice([1, 2, 3, 4]))] if is_list else inst(r.choice(pool))
            cases.append({"recipe": {"__cls__": "Drawing", "fields": {"items": items}}, "ignore": False, "derived": None, "hostile": False})
        out.append({"desc": desc, "src": genmodels.render_source(desc), "classes": [c["name"] for c in classes], "enums": [], "cases": cases})
    return out


# ------------------------------------------------------------------ inherited fields over several levels
def inherit_models(r, n):
    """Chains Base <- Mid <- Leaf (<- Tip) where every level has or lacks a Meta (with or without a
    namespace / name / nillable) and declares element, wrapped-list and attribute fields: which
    namespace an inherited field gets (the declaring class's Meta.namespace if that class has one of
    its own, else the serialized class's) is part of the metadata; instances of every level as the
    document root and inside a base-typed field of a holder class (xsi:type)."""
    out = []
    NSS = ["urn:base", "urn:mid", "urn:leaf", "urn:tip", ""]
    for _ in range(n):
        depth = r.choice([3, 3, 4])
        names = ["Base", "Mid", "Leaf", "Tip"][:depth]
        classes = []
        for i, nm in enumerate(names):
            k = r.random()
            meta = {}
            if k < 0.45:
                meta["namespace"] = NSS[i] if r.random() < 0.8 else r.choice(NSS)
            elif k < 0.6:
                meta[r.choice(["name", "nillable"])] = True if k < 0.52 else nm.lower()   # a Meta without namespace
                if "name" in meta and meta["name"] is True:
                    meta = {"nillable": True}
            fields = [F(f"e{i}", "Element", ("prim", r.choice(["str", "int"])), optional=True,
                        **({"namespace": r.choice(["urn:x", ""])} if r.random() < 0.15 else {})),
                      F(f"a{i}", "Attribute", ("prim", "int"), optional=True)]
            if r.random() < 0.6:
                fields.append(F(f"w{i}", "Element", ("prim", "str"), list=True, wrapper=f"ws{i}"))
            classes.append({"name": nm, "meta": meta, "base": names[i - 1] if i else None, "fields": fields})
        holder = {"name": "Holder", "meta": r.choice([{}, {"namespace": "urn:h"}]), "base": None,
                  "fields": [F("item", "Element", ("class", "Base"), optional=True), F("many", "Element", ("class", "Mid"), list=True)]}
        classes.append(holder)
        desc = {"module_ns": r.choice([None, None, "urn:m"]), "enums": [], "root": names[-1], "slices": ["inherit"], "classes": classes}

        def inst(cn):
            c = genmodels.find_class(desc, cn)
            vals = {}
            for f in genmodels.all_fields(desc, c):
                if f.get("list"):
                    vals[f["name"]] = [{"__p__": "str", "v": r.choice(["p", "q"])} for _ in range(r.choice([0, 1, 2]))]
                elif r.random() < 0.25:
                    vals[f["name"]] = None
                else:
                    vals[f["name"]] = {"__p__": f["type"][1], "v": "v" if f["type"][1] == "str" else r.randint(0, 9)}
            return {"__cls__": cn, "fields": vals}
        cases = []
        for nm in names:
            cases.append({"recipe": inst(nm), "ignore": False, "derived": None, "hostile": False})
        cases.append({"recipe": {"__cls__": "Holder", "fields": {"item": inst(r.choice(names)), "many": [inst(r.choice(names[1:])) for _ in range(r.choice([0, 1, 2]))]}},
                      "ignore": False, "derived": None, "hostile": False})
        out.append({"desc": desc, "src": genmodels.render_source(desc), "classes": [c["name"] for c in classes], "enums": [], "cases": cases})
    return out


# ------------------------------------------------------------------ compound fields over primitive choices
def prim_choice_models(r, n):
    """Root = one compound field whose choices are primitive types in every order (int before bool,
    bool before int, float, Decimal, XmlDate, str last or first); values of every listed type."""
    out = []
    VAL = {"int": lambda: {"__p__": "int", "v": r.choice([0, 1, 7, -3])}, "bool": lambda: {"__p__": "bool", "v": r.random() < 0.5},
           "float": lambda: {"__p__": "float", "v": r.choice(["1.5", "0.0", "1.0"])}, "Decimal": lambda: {"__p__": "Decimal", "v": "2.50"},
           "XmlDate": lambda: {"__p__": "XmlDate", "v": "2001-02-28"}, "str": lambda: {"__p__": "str", "v": r.choice(["abc", "x y", "n/a"])}}
    for _ in range(n):
        tps = r.sample(["int", "bool", "float", "Decimal", "XmlDate", "str"], r.choice([2, 3, 4]))
        if r.random() < 0.5:
            tps = [t for t in tps if t not in ("int", "bool")]
            pair = ["int", "bool"] if r.random() < 0.6 else ["bool", "int"]
            k = r.randint(0, len(tps))
            tps = tps[:k] + pair + tps[k:]
        if "str" in tps:                      # a str choice first would take every text
            tps = [t for t in tps if t != "str"] + ["str"]
        is_list = r.random() < 0.7
        root = {"name": "P", "meta": r.choice([{}, {"namespace": "urn:p"}]), "base": None,
                "fields": [{"name": "v", "kind": "Elements", "list": is_list,
                            "choices": [{"name": "c_" + t.lower(), "type": ("prim", t)} for t in tps]}]}
        desc = {"module_ns": None, "enums": [], "root": "P", "slices": ["prim-choices"], "classes": [root]}
        cases = []
        for _ in range(4):
            val = [VAL[r.choice(tps)]() for _ in range(r.choice([1, 2, 3, 4]))] if is_list else VAL[r.choice(tps)]()
            cases.append({"recipe": {"__cls__": "P", "fields": {"v": val}}, "ignore": False, "derived": None, "hostile": False})
        out.append({"desc": desc, "src": genmodels.render_source(desc), "classes": ["P"], "enums": [], "cases": cases})
    return out


# ------------------------------------------------------------------ sequence groups
def sequence_models(r, n):
    """Classes with a sequence group of 2-3 adjacent list Element fields (optionally a scalar member, a
    second group, plain fields around it); instances with lists of UNEQUAL lengths in every order
    (longer first, shorter first, empty, all empty), None items in nillable list fields."""
    out = []
    for _ in range(n):
        has_kid = r.random() < 0.4
        members = []
        for i in range(r.choice([2, 2, 3])):
            tp = ("class", "K") if has_kid and r.random() < 0.4 else ("prim", r.choice(["int", "str", "bool"]))
            members.append(F(f"s{i}", "Element", tp, list=True, sequence=1, nillable=r.random() < 0.3,
                             **({"namespace": r.choice(["urn:a", ""])} if r.random() < 0.2 else {})))
        if r.random() < 0.25:     # a scalar member in the middle of the group (docs example: b: int)
            members.insert(1, F("sc", "Element", ("prim", "int"), optional=True, sequence=1, nillable=r.random() < 0.3))
        fields = []
        if r.random() < 0.5:
            fields.append(F("pre", "Element", ("prim", "str"), optional=True))
        if r.random() < 0.4:
            fields.append(F("at", "Attribute", ("prim", "int"), optional=True))
        fields += members
        if r.random() < 0.4:
            fields.append(F("mid", "Element", ("prim", "int"), list=True))
        if r.random() < 0.3:
            fields += [F("t0", "Element", ("prim", "int"), list=True, sequence=2), F("t1", "Element", ("prim", "str"), list=True, sequence=2)]
        if r.random() < 0.4:
            fields.append(F("post", "Element", ("prim", "str"), optional=True))
        classes = [{"name": "S", "meta": r.choice([{}, {"namespace": "urn:s"}, {"name": "seq", "namespace": "urn:s"}]), "base": None, "fields": fields}]
        if has_kid:
            classes.append({"name": "K", "meta": {}, "base": None, "fields": [F("v", "Text", ("prim", "int"), optional=True)]})
        desc = {"module_ns": None, "enums": [], "root": "S", "slices": ["sequence"], "classes": classes}

        def item(f, allow_none):
            if allow_none and r.random() < 0.2:
                return None
            if f["type"][0] == "class":
                return {"__cls__": "K", "fields": {"v": r.choice([None, {"__p__": "int", "v": r.randint(0, 9)}])}}
            t = f["type"][1]
            return {"__p__": t, "v": {"int": r.randint(0, 99), "str": r.choice(["a", "", "b c"]), "bool": r.random() < 0.5}[t]}
        cases = []
        shapes = [(3, 1), (1, 3), (2, 0), (0, 2), (0, 0), (2, 2), (4, 2), (1, 1)]
        for k in range(5):
            a, b = r.choice(shapes) if k else shapes[k % len(shapes)]
            lens = {"s0": a, "s1": b, "s2": r.choice([0, 1, 2, 5]), "t0": r.choice([0, 1, 3]), "t1": r.choice([0, 2]), "mid": r.choice([0, 1, 2])}
            vals = {}
            for f in fields:
                if f.get("list"):
                    vals[f["name"]] = [item(f, f.get("nillable") and r.random() < 0.5) for _ in range(lens.get(f["name"], 1))]
                else:
                    vals[f["name"]] = None if r.random() < 0.4 else item(f, False)
            cases.append({"recipe": {"__cls__": "S", "fields": vals}, "ignore": False, "derived": None, "hostile": False})
        out.append({"desc": desc, "src": genmodels.render_source(desc), "classes": [c["name"] for c in classes], "enums": [], "cases": cases})
    return out


def apply_gen_names(models, res):
    """what the name generators in force return for the Python names (computed by the implementation
    side with the real generator functions) becomes part of the description (fd_gen_name / cd_gen_name)"""
    for m, rm in zip(models, res["models"]):
        gn = rm.get("gen_names") or {}
        for c in m["desc"]["classes"]:
            g = gn.get(c["name"]) or {}
            if "__class__" in g:
                c["gen_name"] = g["__class__"]
            for f in c.get("fields", []):
                if f["name"] in g:
                    f["gen_name"] = g[f["name"]]


# ------------------------------------------------------------------ name generators x explicit names
GEN_IMPORT = "from xsdata.utils.text import camel_case, pascal_case, kebab_case, snake_case, screaming_snake_case, mixed_snake_case\n"
GENERATORS = ["camel_case", "pascal_case", "kebab_case", "snake_case", "screaming_snake_case"]


def generator_models(r, n):
    """Name generators (class-level Meta.element_name_generator / attribute_name_generator and
    context-level) combined with EXPLICIT names that are not fixed points of the generator (fields,
    wrappers, Meta.name): explicit names are written verbatim, generators only see Python names."""
    import re
    out = []
    EXPL = ["Order-Id", "ship_to", "ItemName", "qty_Total", "line.items", "X1"]
    PYN = ["order_id", "shipTo", "line_items", "qty", "unit_price", "isOpen", "sku_code"]
    for _ in range(n):
        names = r.sample(PYN, 5)
        fields = []
        for i, nm in enumerate(names):
            kind = r.choice(["Element", "Element", "Attribute"])
            f = F(nm, kind, ("prim", r.choice(["str", "int"])), optional=True)
            if kind == "Element" and r.random() < 0.35:
                f = F(nm, "Element", ("prim", "str"), list=True, wrapper=r.choice(["Line-Items", "wrap_list", "Ws"]) + str(i))
            if r.random() < 0.5:
                f["xml_name"] = r.choice(EXPL) + str(i)
            fields.append(f)
        if r.random() < 0.4:
            fields.append(F("body_text", "Text", ("prim", "str"), optional=True))
        else:
            fields.append(F("child_node", "Element", ("class", "inner_part"), optional=True,
                            **({"xml_name": "Child-Node"} if r.random() < 0.5 else {})))
        meta = {}
        if r.random() < 0.5:
            meta["name"] = r.choice(["purchase_order", "Purchase-Order", "PO_1"])
        if r.random() < 0.5:
            meta["namespace"] = "urn:g"
        lvl = r.choice(["class", "context", "both"])
        ctxg = {}
        if lvl in ("class", "both"):
            meta["element_name_generator"] = r.choice(GENERATORS)
            if r.random() < 0.7:
                meta["attribute_name_generator"] = r.choice(GENERATORS)
        if lvl in ("context", "both"):
            ctxg = {"element": r.choice(GENERATORS)}
            if r.random() < 0.6:
                ctxg["attribute"] = r.choice(GENERATORS)
        inner = {"name": "inner_part", "meta": r.choice([{}, {"name": "Inner-P"}]), "base": None,
                 "fields": [F("part_no", "Attribute", ("prim", "int"), optional=True), F("partLabel", "Element", ("prim", "str"), optional=True, **({"xml_name": "Part_Label"} if r.random() < 0.5 else {}))]}
        root = {"name": "order_doc", "meta": meta, "base": None, "fields": fields}
        desc = {"module_ns": None, "enums": [], "root": "order_doc", "slices": ["generators"], "classes": [root, inner]}
        src = GEN_IMPORT + genmodels.render_source(desc)
        src = re.sub(r"(element_name_generator|attribute_name_generator) = '(\w+)'", r"\1 = \2", src)
        cases = []
        for _ in range(3):
            rec = genmodels.gen_instance(r, desc, "order_doc")
            cases.append({"recipe": rec, "ignore": False, "derived": None, "hostile": False})
        out.append({"desc": desc, "src": src, "classes": ["order_doc", "inner_part"], "enums": [], "cases": cases, "context_generators": ctxg})
    return out


def chunks(xs, n):
    k = max(1, (len(xs) + n - 1) // n)
    return [xs[i:i + k] for i in range(0, len(xs), k)]


BAD_IDX = """Fixpoint bad_idx {A} (f : A -> bool) (i : nat) (l : list A) : list nat :=
  match l with [] => [] | x :: r => if f x then bad_idx f (S i) r else i :: bad_idx f (S i) r end."""


def coq_multi(tag, imports, defs, blocks, timeout=900):
    """One Coq file, several case lists, several boolean checks per list.
    blocks: [(ctype, [case terms], [check names])] -> [[bad indices per check] per block]"""
    os.makedirs(CORR, exist_ok=True)
    path = os.path.join(CORR, f"cases_{tag}.v")
    body = [imports, "From Coq Require Import NArith ZArith List Bool.", "Import ListNotations.", defs, BAD_IDX]
    for bi, (ctype, cases, checks) in enumerate(blocks):
        body.append(f"Definition cases_{bi} : list ({ctype}) := [")
        body.append(";\n".join(cases))
        body.append("].")
        for ch in checks:
            body.append(f"Eval vm_compute in (bad_idx ({ch}) 0 cases_{bi}).")
    with open(path, "w") as f:
        f.write("\n".join(body) + "\n")
    rc, out, err = _coqc(path, timeout)
    for ext in (".v", ".vo", ".vok", ".vos", ".glob"):
        try:
            os.remove(path[:-2] + ext)
        except FileNotFoundError:
            pass
    try:
        os.remove(os.path.join(CORR, f".cases_{tag}.aux"))
    except FileNotFoundError:
        pass
    if rc != 0:
        raise BuildError(os.path.relpath(path, COQ), out + err)
    lists = re.findall(r"=\s*(\[[^\]]*\])\s*:\s*list nat", out, re.S)
    want = sum(len(b[2]) for b in blocks)
    if len(lists) != want:
        raise BuildError(os.path.relpath(path, COQ), "unparsable output: " + out[-500:])
    res, k = [], 0
    for ctype, cases, checks in blocks:
        row = []
        for _ in checks:
            row.append([int(x) for x in re.findall(r"\d+", lists[k])])
            k += 1
        res.append(row)
    return res


FC_CHECKS = ["oracle_compound_names", "fc_agree", "fc_modelled", "fc_in_guard", "fc_oracle", "fc_theorem", "fc_oracle_raw", "fc_in_theorem_guard"]


def evaluate(ck, models, res, tag=None):
    tag = tag or f"c03b_{os.getpid()}"   # concurrent runs (e.g. from the merged C03 check) must not share case files
    """All Coq-side verdicts in one pass per group of models."""
    mids = [i for i, m in enumerate(res["models"]) if m["universe"] and m.get("pns") is not None]
    parts = chunks(mids, 16)

    def one(gi_part):
        gi, part = gi_part
        defs, fcs, blds, idx = [], [], [], []
        for mi in part:
            rm = res["models"][mi]
            defs.append(f"Definition u_{mi} : universe := {rm['universe']}.")
            defs.append(f"Definition d_{mi} : mdesc := {desc_term(models[mi]['desc'])}.")
            defs.append(f"Definition p_{mi} : list (cls * option str) := {rm['pns']}.")
            blds.append(f"(d_{mi}, p_{mi}, u_{mi})")
            for ci, c in enumerate(rm["cases"]):
                if c.get("skip") or not c.get("outcome"):
                    continue
                case = models[mi]["cases"][ci]
                fcs.append(f"({cbool(case.get('hostile', False))}, u_{mi}, d_{mi}, p_{mi}, "
                           f"mk_gen_case {cbool(case['ignore'])} {c['table']} {c['value']} {c['outcome']})")
                idx.append((mi, ci))
        out = coq_multi(f"{tag}_{gi}", IMPORTS, "\n".join(defs),
                        [("full_case", fcs, FC_CHECKS), ("mdesc * list (cls * option str) * universe", blds, ["agree_builder"])])
        return part, idx, out

    verdict = {k: [] for k in FC_CHECKS}
    verdict["agree_builder"] = []
    n_cases = 0
    with cf.ThreadPoolExecutor(max_workers=16) as ex:
        for part, idx, out in ex.map(one, enumerate(parts)):
            n_cases += len(idx)
            for name, bad in zip(FC_CHECKS, out[0]):
                verdict[name] += [idx[i] for i in bad]
            verdict["agree_builder"] += [part[i] for i in out[1][0]]
    return n_cases, len(mids), verdict


# ------------------------------------------------------------------ replay details
def case_terms(models, res, mi, ci):
    rm, c, case = res["models"][mi], res["models"][mi]["cases"][ci], models[mi]["cases"][ci]
    return {"universe": rm["universe"], "desc": desc_term(models[mi]["desc"]), "pns": rm["pns"],
            "ignore": cbool(case["ignore"]), "table": c["table"], "value": c["value"], "observed": c["outcome"]}


def coq_show(tag, term, defs=""):
    try:
        return coq_eval(tag, IMPORTS, defs, term)[:4000]
    except BuildError as e:
        return "coq error: " + e.log[-300:]


def describe(models, res, mi, ci, tag, what):
    t = case_terms(models, res, mi, ci)
    c = res["models"][mi]["cases"][ci]
    rep = {"src": models[mi]["src"], "case": models[mi]["cases"][ci], "impl_outcome": c["outcome"][:4000],
           "impl_error": c.get("error"), "pns": t["pns"], "coq": t}
    defs = f"Definition u0 : universe := {t['universe']}.\nDefinition d0 : mdesc := {t['desc']}."
    if what == "model":
        rep["model_outcome"] = coq_show(tag, f"generate {t['ignore']} (conv_of_table {t['table']}) u0 {t['value']}", defs)
    else:
        rep["spec_events"] = coq_show(tag, f"spec_events (conv_of_table {t['table']}) d0 {t['ignore']} {t['value']}", defs)
        rep["guard_clauses_failing"] = coq_show(
            tag + "g", f"fc_guard_clauses (false, u0, d0, {t['pns']}, mk_gen_case {t['ignore']} {t['table']} {t['value']} {t['observed']})", defs)
    return rep


# ------------------------------------------------------------------ witnesses of the known findings (replayed every run)
def F(name, kind, tp=None, **kw):
    f = {"name": name, "kind": kind}
    if tp:
        f["type"] = tp
    f.update(kw)
    return f


def witness_models():
    """(finding class, description, recipe): inputs excluded by one guard clause of
    C03b_eventgen_matches_metadata; the oracle must still fail on them while the finding is open.
    Classes starting with "fixed:" are witnesses of REPAIRED findings: they must now be inside the
    guard and satisfy the oracle (a regression is reported as a violation)."""
    out = []
    # 1. the metadata cache is keyed by the class alone: Child (no namespace of its own) first
    #    rendered inside urn:a keeps urn:a for its fields when it appears inside urn:b
    d = {"module_ns": None, "enums": [], "root": "R", "slices": ["F1"], "classes": [
        {"name": "R", "meta": {"namespace": "urn:r"}, "base": None, "fields": [
            F("a", "Element", ("class", "A"), optional=True, namespace="urn:a"),
            F("b", "Element", ("class", "B"), optional=True, namespace="urn:b")]},
        {"name": "A", "meta": {"namespace": "urn:a"}, "base": None, "fields": [F("c", "Element", ("class", "Child"), optional=True)]},
        {"name": "B", "meta": {"namespace": "urn:b"}, "base": None, "fields": [F("c", "Element", ("class", "Child"), optional=True)]},
        {"name": "Child", "meta": {}, "base": None, "fields": [F("x", "Element", ("prim", "str"), optional=True)]}]}
    child = {"__cls__": "Child", "fields": {"x": {"__p__": "str", "v": "v"}}}
    rec = {"__cls__": "R", "fields": {"a": {"__cls__": "A", "fields": {"c": child}}, "b": {"__cls__": "B", "fields": {"c": child}}}}
    out.append(("cache-keyed-by-class-namespace", d, rec))
    # 3. the serializer hands a namespace-less class the namespace of the enclosing ELEMENT
    #    ({urn:r}a), the documentation / parser the namespace of the enclosing CLASS (A: urn:a)
    d = {"module_ns": None, "enums": [], "root": "R", "slices": ["F1"], "classes": [
        {"name": "R", "meta": {"namespace": "urn:r"}, "base": None, "fields": [F("a", "Element", ("class", "A"), optional=True)]},
        {"name": "A", "meta": {"namespace": "urn:a"}, "base": None, "fields": [F("c", "Element", ("class", "Child"), optional=True)]},
        {"name": "Child", "meta": {}, "base": None, "fields": [F("x", "Element", ("prim", "str"), optional=True)]}]}
    out.append(("fixed:inherits-class-namespace", d, {"__cls__": "R", "fields": {"a": {"__cls__": "A", "fields": {"c": child}}}}))
    # 2. empty list in a nillable list-of-token-lists field: one xsi:nil element instead of none
    d = {"module_ns": None, "enums": [], "root": "R", "slices": ["F1"], "classes": [
        {"name": "R", "meta": {}, "base": None, "fields": [
            F("t", "Element", ("prim", "int"), list=True, tokens=True, nillable=True, optional=False)]}]}
    out.append(("fixed:nillable-token-lists-empty", d, {"__cls__": "R", "fields": {"t": []}}))
    return out


# ------------------------------------------------------------------ the check
def run(ck: Check):
    obligations, discharged, axioms = standard_proof_step(
        ck, extra_targets=["Model/EventGenCorr.vo", "Model/BuilderCorr.vo"])
    n_models = ck.n(150, 3000)
    per_model = ck.n(6, 8)
    wit = witness_models()
    models = []
    for cls, desc, rec in wit:
        models.append({"desc": desc, "src": genmodels.render_source(desc), "classes": [c["name"] for c in desc["classes"]],
                       "enums": [], "cases": [{"recipe": rec, "ignore": False, "derived": None, "hostile": False}],
                       "witness": cls})
    models += hierarchy_models(ck.rng, ck.n(40, 600)) + sequence_models(ck.rng, ck.n(40, 600)) + inherit_models(ck.rng, ck.n(40, 600)) + generator_models(ck.rng, ck.n(40, 600)) + prim_choice_models(ck.rng, ck.n(30, 500))
    models += gen_models(ck, n_models, per_model)
    res = run_impl("impl_eventgen.py", {"models": [{k: m.get(k) for k in ("src", "classes", "enums", "cases", "context_generators")} for m in models]},
                   timeout=1500)
    apply_gen_names(models, res)
    unsupported = [(i, m["unsupported"]) for i, m in enumerate(res["models"]) if m["unsupported"]]
    skipped = sum(1 for m in res["models"] for c in m["cases"] if c.get("skip"))
    for i, why in unsupported[:3]:
        if i < len(wit):
            ck.failure("harness-witness", "a known-finding witness could not be run: " + why, {"src": models[i]["src"]})
    n_eval, n_bld, v = evaluate(ck, models, res)
    nw = len(wit)
    is_wit = lambda mi: mi < nw   # noqa: E731

    # 1. correspondence model <-> implementation (events)
    for mi, ci in [x for x in v["fc_agree"]][:4]:
        ck.failure("corr-eventgen", "EventGen model and EventGenerator disagree on a generated (model, instance)",
                   describe(models, res, mi, ci, f"c03b_dbg_{mi}_{ci}", "model"))
    for mi, ci in v["oracle_compound_names"][:3]:
        ck.failure("compound-choice-name", "a compound item is not written under the choice that lists its class (exact class first, then first base class)",
                   describe(models, res, mi, ci, f"c03b_cdbg_{mi}_{ci}", "model"))
    # 2. correspondence Builder <-> XmlContext.build
    for mi in v["agree_builder"][:3]:
        rm = res["models"][mi]
        ck.failure("corr-builder", "Builder.universe_of(description) differs from the universe XmlContext built",
                   {"src": models[mi]["src"], "desc": models[mi]["desc"], "pns": rm["pns"],
                    "diff (parts 1 metas 2 mro 3 bases 4 xsi 5 enums 6 names, classes)":
                        coq_show(f"c03b_bdbg_{mi}", f"builder_diff ({desc_term(models[mi]['desc'])}, {rm['pns']}, {rm['universe']})"),
                    "coq": {"desc": desc_term(models[mi]["desc"]), "universe": rm["universe"]}})
    # 3. the specification on the implementation's answers, inside the theorem's guard
    for mi, ci in v["fc_oracle"][:3]:
        ck.failure("spec-events-differ", "the implementation's events differ from the events the metadata prescribe (inside the guard)",
                   describe(models, res, mi, ci, f"c03b_sdbg_{mi}_{ci}", "spec"))
    # 3b. inherited fields (outside the F1 guard: classes with a base): the specification's reading of
    #     "a field's namespace defaults to the namespace of the class that declares it" on document roots
    inh = [(mi, ci) for (mi, ci) in v["fc_oracle_raw"] if models[mi]["desc"]["slices"] == ["inherit"]
           and ci < len(models[mi]["cases"]) - 1]
    for mi, ci in inh[:3]:
        ck.failure("spec-events-differ-inherited", "inherited fields: the implementation's events differ from the events the metadata prescribe",
                   describe(models, res, mi, ci, f"c03b_idbg_{mi}_{ci}", "spec"))
    for mi, ci in v["fc_theorem"][:3]:
        ck.failure("theorem-instance", "EventGen model on the Builder universe differs from spec_events inside the guard",
                   describe(models, res, mi, ci, f"c03b_tdbg_{mi}_{ci}", "spec"))
    # 4. witnesses of the open findings: outside the guard, and the oracle still fails
    raw_bad = set(v["fc_oracle_raw"])
    out_guard = set(v["fc_in_guard"])
    for mi, (cls, desc, rec) in enumerate(wit):
        if res["models"][mi]["unsupported"]:
            continue
        if cls.startswith("fixed:"):
            if (mi, 0) in raw_bad or (mi, 0) in out_guard:
                ck.failure("regression-" + cls[6:], "the witness of a repaired finding fails again (events differ from the metadata reading or it left the guard)",
                           describe(models, res, mi, 0, f"c03b_wit_{mi}", "spec"))
            continue
        if (mi, 0) in raw_bad and (mi, 0) in out_guard:
            ck.failure(cls, "witness replayed: implementation events differ from the metadata reading",
                       describe(models, res, mi, 0, f"c03b_wit_{mi}", "spec"))
        elif (mi, 0) not in out_guard:
            ck.failure("witness-inside-guard", f"the witness of {cls} satisfies the guard", {"src": models[mi]["src"]})
        else:
            ck.notes.append(f"witness of {cls}: the implementation now agrees with the metadata reading")
    # coverage
    gen_cases = [(mi, ci) for mi, rm in enumerate(res["models"]) if not is_wit(mi) for ci, c in enumerate(rm["cases"])
                 if c.get("outcome") and not c.get("skip")]
    in_guard = [x for x in gen_cases if x not in out_guard]
    outcomes = set()
    errs = 0
    by_slice = {}
    for mi, rm in enumerate(res["models"]):
        for ci, c in enumerate(rm["cases"]):
            if c.get("outcome") and (c.get("events") or 0) > 2:
                outcomes.add(hash(c["outcome"]))
            if (c.get("outcome") or "").startswith("(Err"):
                errs += 1
        s = "+".join(models[mi]["desc"]["slices"])
        by_slice[s] = by_slice.get(s, 0) + len(rm["cases"])
    ck.cov["evaluations"] = n_eval
    ck.cov["distinct_nontrivial"] = len(outcomes)
    ck.cov["rule"] = "distinct implementation event lists with more than 2 events"
    ck.cov["builder_models_compared"] = n_bld
    ck.cov["spec_oracle_cases_inside_guard"] = len(in_guard)
    ck.cov["cases_inside_theorem_guard"] = len([x for x in gen_cases if x not in set(v["fc_in_theorem_guard"])])
    ck.cov["hostile_cases"] = sum(1 for mi, ci in gen_cases if models[mi]["cases"][ci].get("hostile"))
    ck.cov["model_answered_unmodelled"] = len(v["fc_modelled"])
    ck.cov["oracle_differs_outside_guard"] = len([x for x in raw_bad if x in out_guard and not is_wit(x[0])])
    ck.cov["input_distribution"] = {"models": n_models, "instances_per_model": per_model, "by_slices": by_slice,
                                    "impl_exceptions": errs, "models_unsupported": len(unsupported),
                                    "cases_skipped": skipped, "unsupported_samples": [u[1][:160] for u in unsupported[:4]]}
    ck.cov["samples"] = [models[nw]["src"][-400:]] if len(models) > nw else []
    return ck.finish(obligations=obligations, discharged=discharged,
                     checker_cmd="make Properties/C03b.vo Model/EventGenCorr.vo Model/BuilderCorr.vo; coqc Corr/cases_c03b_*.v",
                     trusted_base=TRUSTED_COMMON + ["harness/bind_export.py (real XmlMeta/objects/events -> Gallina)",
                                                    "harness/c03b.py desc_term (description dict -> Spec.MetaSpec.mdesc)",
                                                    "recorded converter table (ConverterFactory wrapped in the impl process)"],
                     assumptions=axioms)


# ------------------------------------------------------------------ witness file for Properties/C03b.v
def write_witness_file(path=None):
    """Run the witnesses of the known findings (and two instances inside the guard) on the
    implementation and write description / recorded parent namespaces / exported universe /
    instance / recorded conversions / observed events as Gallina definitions
    (coq/Proofs/EventGenWitness.v).  Regenerate with:  cd /verif && /venv/bin/python harness/c03b.py"""
    wit = witness_models()
    P = lambda t, v: {"__p__": t, "v": v}   # noqa: E731
    d = {"module_ns": "urn:m", "enums": [{"name": "E0", "base": "str", "members": [("M0", "alpha"), ("M1", "beta")]}], "root": "R", "slices": ["F1"],
         "classes": [
        {"name": "R", "meta": {"namespace": "urn:r", "name": "root"}, "base": None, "fields": [
            F("id", "Attribute", ("prim", "int"), default=7, optional=False),
            F("lang", "Attribute", ("prim", "str"), optional=True, namespace="urn:x"),
            F("tags", "Element", ("prim", "int"), tokens=True, optional=False, nillable=True),
            F("kid", "Element", ("class", "K"), list=True, wrapper="kids"),
            F("a", "Element", ("prim", "str"), list=True, sequence=1), F("b", "Element", ("enum", "E0"), list=True, sequence=1),
            F("note", "Element", ("prim", "str"), optional=True, nillable=True, namespace="")]},
        {"name": "K", "meta": {"nillable": True}, "base": None, "fields": [
            F("v", "Text", ("prim", "Decimal"), optional=True), F("u", "Attribute", ("prim", "QName"), optional=True)]}]}
    rec = {"__cls__": "R", "fields": {"id": P("int", 7), "lang": P("str", "en"), "tags": [P("int", 1), P("int", -2)],
                                      "kid": [{"__cls__": "K", "fields": {"v": P("Decimal", "1.50"), "u": P("QName", "{urn:q}n")}},
                                              {"__cls__": "K", "fields": {"v": None, "u": None}}],
                                      "a": [P("str", "x"), P("str", "y"), P("str", "")], "b": [{"__p__": "enum", "enum": "E0", "member": "M1"}],
                                      "note": None}}
    wit = wit + [("inside-guard", d, rec), ("inside-guard-ignore-defaults", d, rec)]
    models = [{"src": genmodels.render_source(dd), "classes": [c["name"] for c in dd["classes"]],
               "enums": [e["name"] for e in dd["enums"]],
               "cases": [{"recipe": r, "ignore": cls.endswith("ignore-defaults"), "derived": None, "hostile": False}]}
              for cls, dd, r in wit]
    res = run_impl("impl_eventgen.py", {"models": models})
    out = ["(* Proofs/EventGenWitness.v — GENERATED by harness/c03b.py (write_witness_file): the witnesses of the",
           "   C03b findings and two instances inside the guard, as exported from the implementation. *)",
           "From Coq Require Import NArith ZArith List Bool.",
           "From XV Require Import Base.Str Base.Eqb Model.Bind Model.EventGen Model.EventGenCorr Spec.MetaSpec Model.Builder.",
           "Import ListNotations.", ""]
    for (cls, dd, _r), m, rm in zip(wit, models, res["models"]):
        name = "w_" + cls.replace("fixed:", "").replace("-", "_")
        c = rm["cases"][0]
        assert rm["universe"] and c["outcome"], (cls, rm)
        out.append(f"(* {cls} *)")
        out.append(f"Definition {name}_u : universe := {rm['universe']}.")
        out.append(f"Definition {name}_d : mdesc := {desc_term(dd)}.")
        out.append(f"Definition {name}_p : list (cls * option str) := {rm['pns']}.")
        out.append(f"Definition {name} : full_case := (false, {name}_u, {name}_d, {name}_p, "
                   f"mk_gen_case {cbool(m['cases'][0]['ignore'])} {c['table']} {c['value']} {c['outcome']}).")
        out.append("")
    path = path or os.path.join(COQ, "Proofs", "EventGenWitness.v")
    with open(path, "w") as fh:
        fh.write("\n".join(out))
    return path


if __name__ == "__main__":
    print(write_witness_file())
