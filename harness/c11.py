"""C11 — arbitrary XML survives the generic element model.

Deciding artefact: the theorems of coq/Properties/C11.v over Model/Generic.v
(TreeParser, WildcardNode, the wildcard paths of ElementNode, the any-element paths
of EventGenerator, EventHandler.write) against Spec/Infoset.v.
Tie: regenerated table Gen/GenericTables.v + differential correspondence on
generated documents at four seams (handler events, parsed generic tree / holder
object, writer events, written infoset).
Search: the property's own oracle — infoset(out) = norm_ws(infoset(in)) — is
evaluated in Coq on the implementation's output for every document and placement;
a failure is a KNOWN-FINDING only when the input violates the guard clause of a
listed finding and the model agrees with the implementation at all four seams.
"""
import concurrent.futures as cf
import itertools
import json
import os
import re

from common import (Check, CORR, COQ, BuildError, run_impl, standard_proof_step, TRUSTED_COMMON, _coqc)
from coqterm import cstr, cbool, copt, clist, cnat

IMPORTS = "From XV Require Import Base.Str Spec.Infoset Model.Generic Model.GenericCorr."
XSI = "http://www.w3.org/2001/XMLSchema-instance"
XS = "http://www.w3.org/2001/XMLSchema"
NS = ["", "urn:a", "urn:b"]
NAMES = ["a", "b", "c"]
KINDS = ["single", "list", "mixed", "choice"]
NSMODES = ["any", "other", "local", "target"]
CHUNK = {"native": 16 * 1024, "lxml": 32 * 1024}


# ================================================================== documents
class El:
    """An element as written: lexical QName, declarations, attributes, content."""

    def __init__(self, qn, decls=(), attrs=(), text="", kids=(), tail="", text_pi=None, tail_pi=None):
        self.qn, self.decls, self.attrs = qn, list(decls), list(attrs)
        self.text, self.kids, self.tail = text, list(kids), tail
        self.text_pi, self.tail_pi = text_pi, tail_pi   # offset of a processing instruction inside the text / tail

    def size(self):
        return 1 + sum(k.size() for k in self.kids)

    def has_pi(self):
        return self.text_pi is not None or self.tail_pi is not None or any(k.has_pi() for k in self.kids)


def esc_text(s):
    out = []
    for ch in s:
        if ch == "&":
            out.append("&amp;")
        elif ch == "<":
            out.append("&lt;")
        elif ch == ">":
            out.append("&gt;")
        elif ord(ch) > 126 or ch == "\r":
            out.append("&#%d;" % ord(ch))
        else:
            out.append(ch)
    return "".join(out)


def esc_attr(s):
    out = []
    for ch in s:
        if ch == "&":
            out.append("&amp;")
        elif ch == "<":
            out.append("&lt;")
        elif ch == '"':
            out.append("&quot;")
        elif ord(ch) > 126 or ch in "\r\n\t":
            out.append("&#%d;" % ord(ch))
        else:
            out.append(ch)
    return "".join(out)


def with_pi(s, at):
    if at is None:
        return esc_text(s)
    return esc_text(s[:at]) + "<?pi x?>" + esc_text(s[at:])


def lex(qn):
    return qn[1] if qn[0] is None else qn[0] + ":" + qn[1]


def render(e, top=True):
    s = "<" + lex(e.qn)
    for p, u in e.decls:
        s += (' xmlns="%s"' % esc_attr(u)) if p is None else (' xmlns:%s="%s"' % (p, esc_attr(u)))
    for qn, v in e.attrs:
        s += ' %s="%s"' % (lex(qn), esc_attr(v))
    if not e.text and not e.kids:
        s += "/>"
    else:
        s += ">" + with_pi(e.text, e.text_pi) + "".join(render(k, False) for k in e.kids) + "</" + lex(e.qn) + ">"
    if not top:
        s += with_pi(e.tail, e.tail_pi)
    return s


def clark(uri, local):
    return "{%s}%s" % (uri, local) if uri else local


def truth(e, scope=None):
    """the infoset of the document, by construction (same JSON shape as impl_c11.infoset_*)"""
    scope = dict(scope or {})
    for p, u in e.decls:
        scope[p] = u
    name = clark(scope.get(e.qn[0]) if e.qn[0] is not None else scope.get(None, ""), e.qn[1])
    attrs = sorted([clark(scope[q[0]] if q[0] is not None else "", q[1]), v] for q, v in e.attrs)
    d = sorted(([p, u] for p, u in e.decls), key=lambda pu: (pu[0] is not None, pu[0] or ""))
    return {"n": name, "a": attrs, "d": d, "x": e.text, "k": [dict(truth(k, scope), l=k.tail) for k in e.kids], "l": ""}


# ------------------------------------------------------------------ generation
TEXT_KINDS = ["", "x", " "]
TAIL_KINDS = ["", "y", "\n"]


def shapes(n):
    """all ordered rooted trees with n nodes, as nested tuples of children"""
    if n == 1:
        return [()]
    out = []
    for first in range(1, n):
        for a in shapes(first):
            for rest in shapes(n - first):
                out.append((a,) + rest)
    return out


class Gen:
    def __init__(self, rng):
        self.r = rng

    def express(self, uri, scope, allow_default=True):
        """choose how to write an element name in namespace `uri` under `scope`;
        returns (prefix, new declarations)"""
        r = self.r
        if uri == "":
            if scope.get(None, ""):
                return None, [(None, "")]
            return None, []
        opts = [("use", p) for p, u in scope.items() if u == uri and (p is not None or allow_default)]
        if allow_default and scope.get(None, "") != uri:
            opts.append(("decl", None))
        for p in ("p", "q"):
            if scope.get(p) != uri:
                opts.append(("decl", p))
        how, p = r.choice(opts)
        return p, ([] if how == "use" else [(p, uri)])

    def element(self, local, uri, scope, text="", tail="", kids=(), attrs=()):
        p, decls = self.express(uri, scope)
        return El((p, local), decls, attrs, text, kids, tail), {**scope, **dict(decls)}

    def from_shape(self, shape, labels, root_uri, texts):
        """shape: nested tuples; labels: iterator of (local, uri); texts: iterator of (text, tail)"""
        def build(sh, scope, is_root):
            if is_root:
                local, uri = "R", root_uri
            else:
                local, uri = next(labels)
            text, tail = next(texts)
            e, sc = self.element(local, uri, scope, text, "" if is_root else tail)
            e.kids = [build(k, sc, False) for k in sh]
            return e
        return build(shape, {}, True)

    # -- random trees over the full alphabet
    def rand_text(self, trig):
        r = self.r
        k = r.random()
        if k < 0.35:
            return ""
        if k < 0.6:
            return r.choice(["x", "y z", "text", "a<b&c>d", "0", "t\nu"])
        if k < 0.8:
            return r.choice([" ", "\n", "\n  ", "\t "])
        if k < 0.9 or not trig:
            return r.choice([" x ", "x ", " x", "é", "\u4e2d", "p:x"])
        return r.choice(["\u00a0", "\u2003 ", " \u00a0", "\u3000"])

    def rand_attrs(self, scope, trig):
        r = self.r
        out, used, decls = [], set(), []
        for _ in range(r.choice([0, 0, 0, 1, 1, 2, 3])):
            local = r.choice(["x", "y", "z", "id"])
            uri = r.choice(["", "", "urn:a", "urn:b"])
            if (uri, local) in used:
                continue
            used.add((uri, local))
            p = None
            if uri:
                cands = [q for q, u in scope.items() if u == uri and q is not None]
                if cands:
                    p = r.choice(cands)
                else:
                    p = r.choice([q for q in ("p", "q", "s") if q not in scope] or ["s2"])
                    decls.append((p, uri))
                    scope = dict(scope, **{p: uri})
            vals = ["1", "", "v w", " lead", "a\"b'c<&>", "q:y", "z:", ":z", "http://x/y", "é"]
            v = r.choice(vals)
            if trig and r.random() < 0.35:
                pre = [q for q in scope if q is not None]
                v = r.choice([(r.choice(pre) + ":x") if pre else "p:x", "{%s}int" % XS, "{urn:a}x",
                              (r.choice(pre) + "://x") if pre else "p://x"])
            out.append(((p, local), v))
        return out, decls, scope

    def nested_tree(self, max_depth, max_nodes, amap_root):
        """no-namespace documents whose holder positions contain elements named after
        the registered holder classes nl (list), nm (mixed), ns (single), na (list + Attributes)"""
        r = self.r
        budget = [max_nodes - 1]

        def text():
            return r.choice(["", "", "x", "y z", " ", "\n", "t:u", "see "])

        def build(depth, holder, local):
            e = El((None, local), text=text())
            if local == "na" and holder or (local == "R" and amap_root):
                e.attrs = [((None, k), r.choice(["1", "v w", ""])) for k in r.sample(["x", "y", "id"], r.choice([0, 1, 2]))]
            elif local in NAMES and r.random() < 0.3:
                e.attrs = [((None, "x"), "1")]
            nk = 0 if depth >= max_depth else r.choice([0, 1, 1, 2, 3])
            for _ in range(nk):
                if budget[0] <= 0:
                    break
                budget[0] -= 1
                name = r.choice(["nl", "nm", "ns", "na"]) if r.random() < 0.5 else r.choice(NAMES)
                k = build(depth + 1, holder and name not in NAMES, name)
                k.tail = text()
                e.kids.append(k)
            return e
        return build(0, True, "R")

    def rand_tree(self, root_uri, max_depth, max_nodes, trig, root_attrs):
        r = self.r
        budget = [max_nodes - 1]

        def build(depth, scope, is_root):
            if is_root:
                local, uri = "R", root_uri
            else:
                local, uri = r.choice(NAMES), r.choice(NS)
            e, sc = self.element(local, uri, scope)
            leaf = False
            if not is_root or root_attrs:
                attrs, decls, sc = self.rand_attrs(sc, trig)
                e.attrs, e.decls = attrs, e.decls + decls
            if trig and not is_root and r.random() < 0.25:
                xsi = next((p for p, u in sc.items() if u == XSI and p), None)
                if xsi is None:
                    xsi = "xsi"
                    e.decls.append((xsi, XSI))
                    sc = dict(sc, xsi=XSI)
                k = r.random()
                if k < 0.3:
                    e.attrs.append(((xsi, "nil"), r.choice(["true", "false", "1"])))
                else:
                    xs = next((p for p, u in sc.items() if u == XS and p), None)
                    if xs is None:
                        xs = r.choice(["xs", "xsd"])
                        e.decls.append((xs, XS))
                        sc = dict(sc, **{xs: XS})
                    pre = [q for q, u in sc.items() if q is not None and u not in (XS, XSI)]
                    choices = [xs + ":string", xs + ":int", xs + ":boolean", xs + ":token", xs + ":long", "foo", "unknown"]
                    if pre:
                        choices += [r.choice(pre) + ":foo"] * 2
                    choices += [xs + ":QName", xs + ":NOTATION"]
                    e.attrs.append(((xsi, "type"), r.choice(choices)))
                    if e.attrs[-1][1].endswith((":QName", ":NOTATION")):
                        leaf = True   # the model covers the child-element error only for the modelled datatypes
                        if r.random() < 0.4:    # a prefix bound only here, to a namespace nothing else uses
                            e.decls.append(("v", "urn:v"))
                            sc = dict(sc, v="urn:v")
                            e.text = "v:thing"
                        else:
                            e.text = r.choice([q for q in sc if q is not None]) + ":thing" if r.random() < 0.7 else "thing"
                    elif r.random() < 0.5:
                        e.text = r.choice(["5", " 05 ", "true", "abc", "", "70000", "-1", "1_0"])
            if not e.text:
                e.text = self.rand_text(trig)
            if not is_root:
                e.tail = self.rand_text(trig)
            nk = 0 if depth >= max_depth or leaf else r.choice([0, 0, 1, 1, 2, 3, 4])
            for _ in range(nk):
                if budget[0] <= 0:
                    break
                budget[0] -= 1
                e.kids.append(build(depth + 1, sc, False))
            return e
        return build(0, {}, True)


# ================================================================== Coq terms
T_ATTR = "(str * str)"
T_NS = "(option str * str)"


def t_attrs(a):
    return clist(a, lambda kv: f"({cstr(kv[0])}, {cstr(kv[1])})", T_ATTR)


def t_nsmap(d):
    return clist(d, lambda pu: f"({copt(pu[0], cstr)}, {cstr(pu[1])})", T_NS)


def t_itree(t):
    return (f"(INode {cstr(t['n'])} {t_attrs(t['a'])} {t_nsmap(t['d'])} {cstr(t['x'])} "
            f"{clist([t_itree(k) for k in t['k']], str, 'itree')} {cstr(t['l'])})")


def t_prim(p):
    if "s" in p:
        return f"(PStr {cstr(p['s'])})"
    if "i" in p:
        return f"(PInt ({p['i']})%Z)"
    if "b" in p:
        return f"(PBool {cbool(p['b'])})"
    raise KeyError("prim")


def t_gval(v):
    if v["t"] == "any":
        return (f"(GAny {copt(v['q'], cstr)} {copt(v['x'], cstr)} {copt(v['l'], cstr)} "
                f"{clist([t_gval(k) for k in v['k']], str, 'gval')} {t_attrs(v['a'])})")
    if v["t"] == "s":
        return f"(GText {copt(v['v'], cstr)})"
    if v["t"] == "d":
        return f"(GDerived {cstr(v['q'])} {t_prim(v['v'])})"
    if v["t"] == "h":
        w = v["w"]
        if "none" in w:
            sh, items = "SNone", []
        elif "one" in w:
            sh, items = "SOne", [w["one"]]
        else:
            sh, items = "SMany", w["many"]
        return (f"(GHolder {REG_TERMS[v['c']]} {t_attrs(v['a'])} {sh} {clist([t_gval(x) for x in items], str, 'gval')})")
    raise KeyError("other")


REG_TERMS = {}   # element name of a nested holder class -> its wcfg term (filled from the implementation's export)


def t_cfg(rq, kind, nss, vq, amap, typed):
    return (f"(mkCfg {cstr(rq)} {KIND[kind]} {clist(nss, cstr, 'str')} {cstr(vq)} {cbool(amap)} {clist(typed, cstr, 'str')})")


def has_other(v):
    if isinstance(v, dict):
        if v.get("t") == "other" or "other" in v:
            return True
        return any(has_other(x) for x in v.values())
    if isinstance(v, list):
        return any(has_other(x) for x in v)
    return False


ERRS = {"ParserError": "EParser", "ConverterError": "EConverter", "XmlContextError": "EContext", "TypeError": "ETypeError"}


def t_pobs(p):
    if "err" in p:
        return f"(POErr {ERRS[p['err']]})" if p["err"] in ERRS else "POOther"
    if has_other(p):
        return "POOther"
    if "tree" in p:
        return f"(POTree {t_gval(p['tree'])})"
    o = p["obj"]
    w = o["w"]
    if "none" in w:
        wv = "WNone"
    elif "one" in w:
        wv = f"(WOne {t_gval(w['one'])})"
    else:
        wv = f"(WMany {clist([t_gval(x) for x in w['many']], str, 'gval')})"
    return f"(POObj (mkRobj {t_attrs(o['attrs'])} {wv}))"


def t_wev(e):
    if e[0] == "start":
        return f"(WStart {cstr(e[1])})"
    if e[0] == "end":
        return f"(WEnd {cstr(e[1])})"
    if e[0] == "data":
        return f"(WData {copt(e[1], t_prim)})"
    v = e[2]
    return f"(WAttr {cstr(e[1])} " + (f"(AVStr {cstr(v['s'])})" if "s" in v else f"(AVQName {cstr(v['q'])})") + ")"


def t_pev(e):
    if e[0] == "start":
        return f"(PStart {cstr(e[1])} {t_attrs(e[2])} {t_nsmap(e[3])})"
    return f"(PEnd {cstr(e[1])} {copt(e[2], cstr)} {copt(e[3], cstr)})"


def t_path(p):
    return clist(p, cnat, "nat")


def t_vis(l):
    return clist(l, lambda pk: f"({t_path(pk[0])}, {cnat(pk[1])})", "(node_id * nat)")


KW = {"any": "KAny", "other": "KOther", "local": "KLocal", "target": "KTarget"}
KIND = {"single": "KSingle", "list": "KList", "mixed": "KMixed", "choice": "KChoice"}


def t_placement(pid, info):
    if pid is None:
        return "None"
    kind, nsmode, tgt, amap = pid.split("-")
    cfg = t_cfg(info["rq"], kind, info["nss"], info["vq"], amap == "1", info["typed"])
    target = "(Some %s)" % cstr("urn:a") if tgt == "a" else "None"
    return f"(Some (mkPl {cfg} {target} [{KW[nsmode]}] {clist(list(REG_TERMS.values()), str, 'wcfg')}))"


def flatten_truth(t, path=()):
    yield list(path), t
    for i, k in enumerate(t["k"]):
        yield from flatten_truth(k, (i,) + tuple(path))


def vis_lists(t, observed):
    """cut lists for the oracle: entries only where less than everything was visible"""
    full = {tuple(p): n for p, n in flatten_truth(t)}
    vt, vl = [], []
    for path, tx, tl in observed:
        n = full[tuple(path)]
        if (tx or 0) < len(n["x"]):
            vt.append((path, tx or 0))
        if (tl or 0) < len(n["l"]):
            vl.append((path, tl or 0))
    return vt, vl


def t_obs(truth_tree, run, vis, info):
    vt, vl = vis_lists(truth_tree, vis)
    pid = run["pid"]
    events = "None"
    if "events" in run:
        events = f"(Some {clist([t_pev(e) for e in run['events']], str, 'pevent')})"
    wev = "None"
    if "wev" in run and not has_other(run["wev"]):
        wev = f"(Some {clist([t_wev(e) for e in run['wev']], str, 'wevent')})"
    outs = []
    for o in run.get("outs", []):
        term = f"(Some {t_itree(o['ok'])})" if "ok" in o else "None"
        if term not in outs:
            outs.append(term)
    outs_ns = []
    for o in run.get("outs_ns", []):
        term = f"(Some {t_itree(o['ok'])})" if "ok" in o else "None"
        if term not in outs_ns:
            outs_ns.append(term)
    return (f"(mkObs {t_placement(pid, info.get(pid))} {t_vis(vt)} {t_vis(vl)} {events} {t_pobs(run['parse'])} {wev} "
            f"{clist(outs, str, '(option itree)')} {clist(outs_ns, str, '(option itree)')})")


_TRIPLE = re.compile(r"\(\s*(\d+)\s*,\s*(\d+)\s*,\s*(\d+)\s*\)")


def coq_judge(tag, case_terms, shard=36, timeout=3000):
    """evaluate Model.GenericCorr.judge_all on the cases; returns {(case, obs): code}"""
    os.makedirs(CORR, exist_ok=True)
    # round-robin so that the heavy documents (random, big) are spread over the shards
    nsh = max(1, (len(case_terms) + shard - 1) // shard)
    shards = [case_terms[k::nsh] for k in range(nsh)]
    paths = []
    for k, sh in enumerate(shards):
        path = os.path.join(CORR, f"cases_{tag}_{k}.v")
        with open(path, "w") as f:
            f.write("\n".join([IMPORTS, "From Coq Require Import NArith ZArith List Bool.", "Import ListNotations.",
                               "Definition the_cases : list case := [", ";\n".join(sh), "].",
                               "Eval vm_compute in (judge_all 0%N the_cases)."]) + "\n")
        paths.append(path)
    with cf.ThreadPoolExecutor(max_workers=16) as ex:
        results = list(ex.map(lambda p: _coqc(p, timeout), paths))
    codes = {}
    for k, (rc, out, err) in enumerate(results):
        if rc != 0:
            raise BuildError(os.path.relpath(paths[k], COQ), (out + err)[-3000:])
        body = out.split("=", 1)[1] if "=" in out else ""
        for m in _TRIPLE.finditer(body):
            codes[(k + nsh * int(m.group(1)), int(m.group(2)))] = int(m.group(3))
    for p in paths:
        base = p[:-2]
        for ext in (".v", ".vo", ".vok", ".vos", ".glob"):
            try:
                os.remove(base + ext)
            except FileNotFoundError:
                pass
        try:
            os.remove(os.path.join(os.path.dirname(p), "." + os.path.basename(base) + ".aux"))
        except FileNotFoundError:
            pass
    return codes


# ================================================================== the check
GUARD_MASK = 64 | 128 | 256 | 512 | 1024 | 2048 | 4096 | 16384 | 32768
GUARD_CLASS = {16384: "typed-child-tail-in-non-mixed-holder", 32768: "single-holder-tail-written-inside",
               128: "xsi-nil-dropped", 256: "attr-value-prefix-expanded", 512: "attr-value-datatype-clark-rewritten",
               1024: "xsi-type-unprefixed-under-default-namespace", 2048: "python-whitespace-only-text-dropped",
               4096: "xsi-type-primitive-under-holder-wildcard-lossy"}
CORR_CLASS = {1: "corr-handler-events", 2: "corr-parse", 4: "corr-generator-events", 8: "corr-writer",
              65536: "corr-writer-user-nsmap", 131072: "xsi-type-qname-value-changed-in-output"}


def pick_placements(doc_no, root_uri, n):
    tgt = "a" if root_uri else "n"
    allp = [f"{k}-{m}-{tgt}-{a}" for k in KINDS for m in NSMODES for a in (0, 1)]
    # a stride coprime to 32 walks through every placement
    return [allp[(doc_no * 7 + j * 11) % len(allp)] for j in range(n)]


def witness_docs():
    xsi = ("xsi", XSI)
    xs = ("xs", XS)
    a = lambda **kw: El((None, "a"), **kw)  # noqa: E731
    docs = []

    def add(name, e, placements, handlers=("native", "lxml")):
        docs.append({"kind": "witness:" + name, "el": e, "placements": placements, "handlers": list(handlers)})

    add("xsi-nil", El((None, "R"), [xsi], kids=[a(attrs=[(("xsi", "nil"), "true")])]), ["list-any-n-0"])
    add("attr-prefix", El((None, "R"), [("p", "urn:p")], kids=[a(attrs=[((None, "b"), "p:x")])]), ["single-any-n-0"])
    add("attr-dtclark", El((None, "R"), kids=[a(attrs=[((None, "b"), "{%s}int" % XS)])]), ["mixed-any-n-0"])
    add("xsitype-default", El((None, "R"), [xsi], kids=[El((None, "a"), [(None, "urn:b")], [(("xsi", "type"), "foo")])]),
        ["list-any-n-0"])
    add("py-space", El((None, "R"), text="\u00a0", kids=[a(tail="\u2003")]), ["list-any-n-0", "mixed-any-n-0"])
    add("pi", El((None, "R"), text="ab", text_pi=1, kids=[a(tail="cd", tail_pi=1)]), ["mixed-any-n-0"])
    add("xsi-prim", El((None, "R"), [xsi, xs], text="t",
                       kids=[a(attrs=[(("xsi", "type"), "xs:int"), ((None, "k"), "1")], text=" 05 ", tail="u"), El((None, "b"))]),
        ["single-any-n-0", "list-any-n-0", "mixed-any-n-0", "choice-any-n-0"])
    add("xsi-prim-child", El((None, "R"), [xsi, xs], kids=[a(attrs=[(("xsi", "type"), "xs:int")], kids=[El((None, "c"))])]),
        ["list-any-n-0"])
    add("lax-other", El((None, "R"), kids=[a()]), ["list-other-n-0"])
    add("lax-other-a", El(("t", "R"), [("t", "urn:a")], kids=[a()]), ["list-other-a-0"])
    add("lax-target", El((None, "R"), kids=[El(("p", "a"), [("p", "urn:b")])]), ["list-target-n-0"])
    nl = lambda **kw: El((None, "nl"), **kw)  # noqa: E731
    add("typed-tail", El((None, "R"), text="see ", kids=[nl(text="cf. ", kids=[El((None, "c"))], tail=" for details"),
                                                         El((None, "b"), text="!")]),
        ["list-any-n-0", "single-any-n-0", "mixed-any-n-0", "choice-any-n-0"])
    add("single-tail", El((None, "R"), kids=[El((None, "ns"), text="t", kids=[a()], tail="u")]), ["mixed-any-n-0"])
    add("nested-ok", El((None, "R"), text="see ", kids=[
        nl(text="cf. ", kids=[El((None, "c"))], tail=" for details"),
        El((None, "nm"), text="x", kids=[nl(), El((None, "na"), attrs=[((None, "k"), "1")], kids=[El((None, "b"), tail="w")])], tail="z"),
        El((None, "ns"), text="t", kids=[a(tail="v")])]), ["mixed-any-n-0", "mixed-any-n-1"])
    add("default-redecl", El((None, "R"), [(None, "urn:a")],
                             kids=[El((None, "a"), [(None, "urn:b")], kids=[El((None, "b"), [(None, "")],
                                   kids=[El((None, "c"), [(None, "urn:a")])])])]), ["list-any-a-0", "single-other-a-1"])
    return docs


def big_docs(gen, r, n):
    """documents larger than the iterparse chunks, with a tail straddling the boundary"""
    docs = []
    for i in range(n):
        handler = ("native", "lxml")[i % 2]
        size = CHUNK[handler]
        tail_len = r.choice([6, 40, 700, 1500])
        tail = "".join(r.choice("tuvw ") for _ in range(tail_len)).strip() or "t"
        tail = "t" + tail[1:-1] + "u" if len(tail) > 1 else tail
        pre = El((None, "a"), text=r.choice(["", "x"]), tail=tail)
        post = El((None, "b"), tail=r.choice(["", "z", "\n"]))
        root = El((None, "R"), kids=[pre, post] + [El((None, "c"), tail="w")] * r.choice([0, 1]))
        body = render(root)
        start = body.index(render(pre, True)) + len(render(pre, True))  # offset of the tail in the body
        off = r.choice([-2, 0, 1, len(tail) // 2, len(tail) - 1, len(tail), len(tail) + 2, len(tail) + 5])
        pad = size - start - off - len("<!---->")
        docs.append({"kind": "big:" + handler, "el": root, "prolog": "<!--" + "p" * pad + "-->",
                     "placements": [r.choice(["list-any-n-0", "mixed-any-n-0", "single-any-n-0"])],
                     "handlers": ["native", "lxml"]})
    return docs


def build_docs(ck):
    r = ck.rng
    g = Gen(r)
    docs = []
    npl = 2
    labels_cycle = itertools.cycle([(n, u) for u in NS for n in NAMES])

    def add(kind, e, **kw):
        root_uri = truth(e)["n"][1:].split("}")[0] if truth(e)["n"].startswith("{") else ""
        d = {"kind": kind, "el": e, "placements": pick_placements(len(docs), root_uri, npl), "handlers": ["native", "lxml"]}
        d.update(kw)
        docs.append(d)

    # A: every shape up to N nodes x every {no text, text, whitespace} x {no tail, tail, whitespace} labelling
    full_n = ck.n(3, 4)
    for n in range(1, full_n + 1):
        for sh in shapes(n):
            for combo in itertools.product(itertools.product(TEXT_KINDS, TAIL_KINDS), repeat=n - 1):
                for rt in TEXT_KINDS:
                    texts = iter([(rt, "")] + list(combo))
                    root_uri = "urn:a" if (len(docs) % 5 == 4) else ""
                    add(f"exh-text:{n}", g.from_shape(sh, labels_cycle, root_uri, texts))
                    if n >= 4:   # the big exhaustive family: TreeParser + one placement per document
                        docs[-1]["placements"] = docs[-1]["placements"][:1]
    for n in range(full_n + 1, ck.n(4, 5) + 1):
        shs = shapes(n)
        for _ in range(ck.n(180, 1500)):
            texts = iter([(r.choice(TEXT_KINDS), "")] + [(r.choice(TEXT_KINDS), r.choice(TAIL_KINDS)) for _ in range(n - 1)])
            add(f"sampled-text:{n}", g.from_shape(r.choice(shs), labels_cycle, r.choice(["", "", "urn:a"]), texts))
    # B: every name x namespace labelling of the shapes up to 3 nodes
    for n in (2, 3):
        for sh in shapes(n):
            for combo in itertools.product([(nm, u) for u in NS for nm in NAMES], repeat=n - 1):
                if n == 3 and not ck.quick or n == 2 or r.random() < 0.5:
                    texts = iter([("", "")] + [(r.choice(TEXT_KINDS), r.choice(TAIL_KINDS)) for _ in range(n - 1)])
                    add(f"exh-names:{n}", g.from_shape(sh, iter(combo), r.choice(["", "urn:a"]), texts))
    # C: random trees, full alphabet; a third of them carry the known trouble makers
    npl = ck.n(2, 4)
    for i in range(ck.n(120, 2000)):
        trig = i % 3 == 0
        e = g.rand_tree(r.choice(["", "", "urn:a"]), r.choice([2, 3, 4, 6]), r.choice([6, 12, 25, 60]), trig, i % 4 == 1)
        d_kind = "random-trig" if trig else "random"
        add(d_kind, e)
        if i % 4 == 1:  # root attributes only make sense with an Attributes map
            docs[-1]["placements"] = [p for p in docs[-1]["placements"] if p.endswith("-1")] or \
                [pick_placements(i, "urn:a" if truth(e)["n"].startswith("{") else "", 1)[0][:-1] + "1"]
    # N: holder classes found by element qname below the holder (and, generically, deeper down)
    NESTED_PL = ["mixed-any-n-0", "mixed-any-n-1", "list-any-n-0", "single-any-n-0", "choice-any-n-0", "mixed-local-n-0",
                 "list-any-n-1", "single-any-n-1"]
    for i in range(ck.n(90, 1500)):
        e = g.nested_tree(r.choice([2, 3, 4]), r.choice([5, 9, 16]), amap_root=(i % 4 == 1))
        pls = [p for p in NESTED_PL if p.endswith("-1")] if i % 4 == 1 else NESTED_PL
        docs.append({"kind": "nested", "el": e, "handlers": ["native", "lxml"],
                     "placements": [pls[(i + j * 3) % len(pls)] for j in range(ck.n(2, 3))]})
    # Q: every element namespace x attribute namespace labelling of a child with one or two attributes
    #    (an attribute never takes the default namespace, so the writer needs a prefixed binding even when
    #    the element's own namespace is already bound)
    npl = 2
    q0 = len(docs)
    for root_uri in ("", "urn:a"):
        for eu in NS:
            for aus in [(u,) for u in NS] + [(u, v) for u in NS for v in NS]:
                sc_attrs, e_decls = [], []
                child, sc = g.element("a", eu, {} if not root_uri else {None: root_uri}, text=r.choice(TEXT_KINDS))
                for j, au in enumerate(aus):
                    local = "id" if j == 0 or au != aus[0] else "x"   # same local name in two namespaces when they differ
                    pfx = None
                    if au:
                        pfx = next((q for q, u in sc.items() if u == au and q is not None), None)
                        if pfx is None:
                            pfx = "s" if "s" not in sc else "s2"
                            e_decls.append((pfx, au))
                            sc = dict(sc, **{pfx: au})
                    sc_attrs.append(((pfx, local), str(j + 1)))
                child.attrs, child.decls = sc_attrs, child.decls + e_decls
                root = El((None, "R"), [(None, root_uri)] if root_uri else [], kids=[child])
                add("exh-attr-ns", root)
    # V: first-level children typed xs:QName / xs:NOTATION by xsi:type, value in a namespace bound only on that
    #    element / the element's own / the default / the XSD namespace / unprefixed, all four holder kinds
    for dt in ("QName", "NOTATION"):
        for mode in ("foreign", "own", "default", "xs", "plain", "padded"):
            for kind in KINDS:
                rd = [("xsi", XSI), ("xs", XS)]
                cd, cq, text = [], (None, "q"), "thing"
                if mode == "foreign":
                    cd, text = [("p", "urn:p")], "p:thing"
                elif mode == "padded":
                    cd, text = [("p", "urn:p")], " p:thing\n"
                elif mode == "own":
                    cd, cq, text = [("o", "urn:b")], ("o", "q"), "o:thing"
                elif mode == "default":
                    cd, text = [(None, "urn:b")], "thing"
                elif mode == "xs":
                    text = "xs:int"
                child = El(cq, cd, [(("xsi", "type"), "xs:" + dt)], text=text, tail=r.choice(["", "\n"]))
                add("exh-qname-value", El((None, "R"), rd, kids=[El((None, "a")), child, El((None, "b"), text="x")]),
                    placements=[kind + "-any-n-0"])
    # D: one witness per listed finding (first, so that findings are attributed to them), E: chunk boundaries
    docs = witness_docs() + docs[q0:] + docs[:q0]
    docs += big_docs(g, r, ck.n(16, 80))
    for d in docs:
        d["xml"] = d.get("prolog", "") + render(d["el"])
        d["truth"] = truth(d["el"])
        d["has_pi"] = d["el"].has_pi()
    # U: user supplied prefix maps for the serializer, built from the namespaces the document itself uses:
    #    default-only, default + prefixed, prefixed-only; all of them for the attribute family, two elsewhere,
    #    and now and then a default binding for a document that does not use the namespace at all
    def uris(t):
        out = {t["n"][1:].split("}")[0]} if t["n"].startswith("{") else set()
        out |= {k[1:].split("}")[0] for k, _ in t["a"] if k.startswith("{")}
        for k in t["k"]:
            out |= uris(k)
        return out
    for i, d in enumerate(docs):
        us = sorted(u for u in uris(d["truth"]) if u in NS)
        maps = []
        for u in us:
            maps.append([[None, u]])
            maps.append([["a", u]])
            for v in us:
                if v != u:
                    maps.append([[None, u], ["b", v]])
        if not us and i % 8 == 0:
            maps.append([[None, "urn:a"]])
        if d["kind"].startswith("big"):
            maps = []
        elif d["kind"] != "exh-attr-ns" and len(maps) > 2:
            maps = r.sample(maps, 2)
        d["ns_maps"] = maps
    return docs


def process_batch(ck, docs, st):
    req = {"docs": [{"xml": d["xml"], "placements": d["placements"], "handlers": d["handlers"],
                     "ns_maps": d.get("ns_maps", [])} for d in docs]}
    res = run_impl("impl_c11.py", req, timeout=2400)
    info = res["placements"]
    stats, kinds, distinct = st["stats"], st["kinds"], st["distinct"]
    for n in info.pop("__registry__"):
        if not n["found"] or n["nillable"]:
            ck.failure("corr-holder-metadata", f"nested holder class {n}", {"nested": n})
        REG_TERMS[n["rq"]] = t_cfg(n["rq"], n["kind"], n["nss"], n["vq"], n["amap"], n["typed"])

    # the holder classes are what the model assumes (non-nillable, strict, list/mixed flags)
    for pid, pi in info.items():
        kind = pid.split("-")[0]
        ok = (not pi["nillable"] and pi["process_contents"] == "strict" and pi["list"] == (kind != "single")
              and pi["mixed"] == (kind == "mixed") and pi["any_attrs"] == int(pid.endswith("-1")))
        if not ok:
            ck.failure("corr-holder-metadata", f"holder {pid} built as {pi}", {"pid": pid, "info": pi})

    case_terms, index = [], []
    n_runs = 0
    for di, (d, rr) in enumerate(zip(docs, res["results"])):
        replay = {"doc": {k: d.get(k, []) for k in ("xml", "truth", "placements", "handlers", "kind", "has_pi", "ns_maps")}}
        if "ok" not in rr["input"] or rr["input"]["ok"] != d["truth"]:
            ck.failure("harness-input-infoset", f"generated document and independent parsers disagree ({d['kind']})",
                       dict(replay, independent=rr["input"]))
            continue
        obs_terms = []
        for run_ in rr["runs"]:
            try:
                obs_terms.append(t_obs(d["truth"], run_, rr["vis"][run_["handler"]], info))
            except KeyError as ex:
                ck.failure("harness-export", f"cannot export {ex} for {d['kind']}", dict(replay, run=run_))
                obs_terms = None
                break
        if obs_terms is None:
            continue
        case_terms.append(f"({t_itree(d['truth'])}, {clist(obs_terms, str, 'obs')})")
        index.append((di, rr["runs"]))
        n_runs += len(rr["runs"])

    codes = coq_judge(f"c11_{os.getpid()}", case_terms)   # concurrent runs of this check must not share case files
    stats["runs"] += n_runs
    for ci, (di, runs) in enumerate(index):
        d = docs[di]
        kinds[d["kind"].split(":")[0]] = kinds.get(d["kind"].split(":")[0], 0) + 1
        distinct.add(d["xml"][-4000:])
        for oi, run_ in enumerate(runs):
            code = codes.get((ci, oi))
            replay = {"doc": {k: d.get(k, []) for k in ("xml", "truth", "placements", "handlers", "kind", "has_pi", "ns_maps")},
                      "handler": run_["handler"], "placement": run_["pid"], "code": code,
                      "impl": {k: run_.get(k) for k in ("parse", "wev", "outs", "outs_ns", "wev_err")}}
            who = f"{d['kind']} handler={run_['handler']} placement={run_['pid'] or 'TreeParser'}"
            short = d["xml"] if len(d["xml"]) < 300 else d["xml"][:60] + "..." + d["xml"][-200:]
            if code is None:
                ck.failure("harness-judge", f"no verdict for {who}", replay)
                continue
            if "err" in run_["parse"]:
                stats["parse_errors"] += 1
            if code & 8192:
                ck.failure("harness-names", f"ill-formed names generated: {short}", replay)
                continue
            for bitv, cls in CORR_CLASS.items():
                if code & bitv:
                    extra = ""
                    if bitv == 65536:
                        # (message only; the verdict is the Coq one) show the outputs that differ from the empty-map output
                        def nodecl(t):
                            return [t["n"], t["a"], t["x"], t["l"], [nodecl(k) for k in t["k"]]]
                        ref = [nodecl(o["ok"]) for o in run_.get("outs", []) if "ok" in o]
                        diff = [o for o in run_.get("outs_ns", []) if "ok" not in o or nodecl(o["ok"]) not in ref]
                        extra = " -- user ns_map: " + "; ".join(
                            f"{o['writer']} ns_map={dict((p, u) for p, u in o['ns_map'])} -> "
                            f"{o.get('text') or o.get('err') or json.dumps(o['ok'])}"[:260] for o in diff[:2])
                    ck.failure(cls, f"model and implementation disagree ({cls}) on {who}: {short}{extra}", replay)
            guards = code & GUARD_MASK
            if guards == 0:
                stats["guard_clean"] += 1
            if code & 16:
                if code & 15:
                    continue  # already reported as a correspondence failure
                if guards == 0:
                    ck.failure("roundtrip", f"infoset not preserved, no guard clause explains it: {who}: {short}", replay)
                if guards & 64:
                    big = d["kind"].startswith("big")
                    if d["has_pi"] and run_["handler"] == "lxml":
                        ck.failure("lxml-text-after-pi-lost", f"{who}: {short}", replay)
                    elif big and len(d["xml"].encode()) > CHUNK[run_["handler"]]:
                        ck.failure("tail-truncated-at-chunk-boundary", f"{who}: {len(d['xml'])} bytes, ...{d['xml'][-120:]}", replay)
                    else:
                        ck.failure("visible-unexplained", f"text/tail cut without chunk boundary or PI: {who}: {short}", replay)
                for bitv, cls in GUARD_CLASS.items():
                    if guards & bitv:
                        ck.failure(cls, f"{who}: {short}", replay)
            elif not (code & 15):
                stats["oracle_applicable_and_ok"] += 1
            if code & 32 and not (code & 15):
                mode = (run_["pid"] or "---").split("-")[1]
                tgt = (run_["pid"] or "---").split("-")[2]
                if mode == "other":
                    ck.failure("wildcard-other-admits-unqualified", f"{who}: {short}", replay)
                elif mode == "target" and tgt == "n":
                    ck.failure("wildcard-target-absent-admits-any", f"{who}: {short}", replay)
                else:
                    ck.failure("wildcard-lax-unexplained", f"accepted although XSD rejects: {who}: {short}", replay)


def run(ck: Check):
    ck.level = "proof"
    obligations, discharged, axioms = standard_proof_step(ck, extra_targets=["Model/GenericCorr.vo"])

    if getattr(ck, "replay_file", None):
        rp = json.load(open(ck.replay_file))["replay"]
        docs = [rp["doc"]]
    else:
        docs = build_docs(ck)
        # corpus: earlier failing documents first
        rdir = os.path.join(os.path.dirname(CORR), "..", "replays", ck.pid)
        for fn in sorted(os.listdir(rdir)) if os.path.isdir(rdir) else []:
            if fn.startswith("known-"):
                continue
            try:
                rp = json.load(open(os.path.join(rdir, fn)))["replay"]
                if "doc" in rp and "xml" in rp["doc"]:
                    docs.insert(0, dict(rp["doc"]))
            except Exception:
                pass

    st = {"stats": {"runs": 0, "oracle_applicable_and_ok": 0, "guard_clean": 0, "parse_errors": 0}, "kinds": {}, "distinct": set()}
    BATCH = 1500
    for b0 in range(0, len(docs), BATCH):
        process_batch(ck, docs[b0:b0 + BATCH], st)
    stats, kinds, distinct, n_runs = st["stats"], st["kinds"], st["distinct"], st["stats"]["runs"]

    ck.cov["evaluations"] = n_runs
    ck.cov["distinct_nontrivial"] = len(distinct)
    ck.cov["rule"] = ("one evaluation = one (document, handler, placement) run through parse -> generate -> write -> "
                      "independent re-parse, judged in Coq at four seams plus the oracle; distinct = distinct documents; every "
                      "document has a root and reaches the modelled parser (non-trivial by construction); exhaustive families: all "
                      "ordered trees up to N nodes x {none,text,whitespace}^2 per node, all name x namespace labellings up to 3 nodes")
    ck.cov["input_distribution"] = kinds
    ck.cov["stats"] = stats
    ck.cov["samples"] = [docs[i]["xml"][:200] for i in (0, len(docs) // 3, len(docs) // 2, len(docs) - 20, len(docs) - 1)
                         if 0 <= i < len(docs)]
    return ck.finish(
        obligations=obligations, discharged=discharged,
        checker_cmd="make -C coq Properties/C11.vo Model/GenericCorr.vo && coqc -Q coq XV coq/Properties/C11.v (Print Assumptions)",
        trusted_base=TRUSTED_COMMON + [
            "tools/gen_generic.py (DataType/Namespace constants)",
            "expat / libxml2 tokenizers deliver the infoset (cross-checked against each other and against the generator's "
            "ground truth on every document); their chunked delivery enters the model only through the observed `visible` oracle",
            "the two SAX sinks (xml.sax.saxutils.XMLGenerator, lxml.sax.ElementTreeContentHandler) are outside the model; "
            "the writer seam compares their re-parsed output with Model.Generic.write_tree",
            "axioms: " + (", ".join(axioms) or "none (closed under the global context)")],
        assumptions=["model: serializer called with an empty user ns_map; user prefix maps (default / prefixed bindings of the "
                     "document's own namespaces) are under correspondence at the writer seam for streams without string-valued xsi:type",
                     "holder classes: non-nillable strict wildcard, no class registered under a generated element name"])
