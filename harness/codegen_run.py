"""Shared code-generation harness: run the REAL xsdata generator pipeline up to the
point where Jinja templates would be rendered, render with a stand-in, import the result.

Used by the codegen properties C02 C07 C12 C13 C16 C17.  `click`, `jinja2`, `toposort`,
`requests`, `ruff` are absent from the sandbox; /verif/shims supplies inert stand-ins so
that everything except `xsdata.cli` / `xsdata.utils.click` imports.

===========================================================================  API
HARNESS SIDE (any interpreter; does not import xsdata)
---------------------------------------------------------------------------
run_jobs(jobs, timeout=900, hashseed="0") -> list[dict]
    Runs `impl_codegen.py` (fresh subprocess, PYTHONPATH=$XSDATA_REPO:/verif/shims) on a
    list of jobs and returns one result dict per job (same order).  A job is
        {"id": any, "sources": {filename: text, ...}, "options": {...},
         "want": ["classes", "plan", "source", "import", "bind"],   # default: all five
         "timeout": seconds (default 20)}
    File names may contain sub-directories ("a/b.xsd").  The kind of a source is decided by
    the real `ResourceTransformer.classify_resource` (extension .wsdl/.xsd/.dtd/.xml/.json,
    else content sniffing).  `"entry"` (optional list of file names) restricts the URIs
    handed to the transformer (the other files are only reachable by import/include);
    default: every file, sorted, exactly like `xsdata generate <dir>`.
validate_standin(timeout=600) -> list[str]
    Runs the fixture validation of the stand-in renderer (see below) in a subprocess and
    returns the list of differences (empty = stand-in agrees with the committed outputs).
FIXTURES : the fixture table used by validate_standin (name -> sources/options/expected).

IMPLEMENTATION SIDE (inside a subprocess started with run_impl(..., with_shims=True))
---------------------------------------------------------------------------
build_config(options) -> GeneratorConfig          options dict, every key optional:
    package ("generated") | structure_style ("filenames"|"namespaces"|"clusters"|
    "single-package"|"namespace-clusters") | docstring_style ("reStructuredText"|"NumPy"|
    "Google"|"Accessible"|"Blank") | compound_fields (bool or {enabled, default_name,
    use_substitution_groups, force_default_name, max_name_parts}) | wrapper_fields |
    unnest_classes | relative_imports | generic_collections | ignore_patterns |
    include_header | max_line_length | format {repr, eq, order, unsafe_hash, frozen, slots}
    (the six flags are also accepted at top level; `kw_only` is accepted and reported in
    result["ignored_options"]: this xsdata version always emits kw_only=True) |
    conventions {class_name|field_name|constant_name|module_name|package_name:
    {"case": "pascalCase"|..., "safe_prefix": str}} | substitutions [{type, search,
    replace}] | default_substitutions (bool: start from GeneratorConfig.create()) |
    extensions [{type, class_name, import_string, prepend, apply_if_derived, parent_path}] |
    config_xml (text of an .xsdata.xml, read with the real GeneratorConfig.read; the other
    keys are then applied on top, as the CLI does with `config.output.update(**params)`).
CodegenRun(sources, options, entry=None, timeout=20)       context manager
    with CodegenRun(...) as run:
        run.result      JSON-able dict, see "Result" below
        run.classes     the processed `Class` objects (live), None if the run failed earlier
        run.config / run.generator / run.filters            live objects of the run
        run.import_modules() -> {dotted name: module}       real `import` from the temp dir
        run.python_classes() -> [(module name, qualname, cls)]   incl. inner classes / enums
        run.bind_report() -> dict                           XmlContext.build_recursive + instantiate
    On exit: temp dir removed, cwd / sys.path / sys.modules / lru_caches restored.
run_job(job) -> dict      what impl_codegen.py calls for each job (CodegenRun + want-list)
dump_class(cls) -> dict   JSON-able dump of a processed Class (recursive)
jsonable(x)               JSON-able rendering of metadata values (Decimal, QName, tuples, enums)
validate_fixtures() -> list[str]

What is REAL and what is not
---------------------------------------------------------------------------
REAL (xsdata code of $XSDATA_REPO): `ResourceTransformer.process(uris)` as a whole —
classification, parsers, mappers, `ClassContainer.process()` with every handler and
designator, `CodeWriter.write` (normalize_packages, files written under a temp cwd),
`DataclassGenerator.render` (group_by_package/module, ensure_packages, the
DependenciesResolver), its exception translation (CircularDependencyError/ImportError ->
CodegenError, ModuleNotFoundError -> warning), `DataclassGenerator.validate_imports`
(import of the generated package), every `Filters` method.
STAND-IN: the text of the six Jinja templates (harness/render_standin.py), the four shim
modules; `ruff_code` is a no-op.  The click command line is not exercised: the config is
built directly, the URI list like `cli.resolve_source` does for a directory.

Result (run.result / each element of run_jobs)
---------------------------------------------------------------------------
{"id": job id,
 "status": "ok" | "codegen_error" | "error" | "timeout",
 "stage": last stage entered: "config"|"parse_map"|"process"|"write"|"validate_imports"|"done",
 "error": None | {"type": "ValueError", "module": "builtins", "mro": [...class names...],
                  "own": bool (CodegenError/CodegenWarning), "xsdata": bool (defined in xsdata.*),
                  "message": str, "where": "xsdata/..../file.py:LINE func" (innermost xsdata frame),
                  "traceback": str, "cause": same shape or None (exception that the real
                  `process()` translated into CodegenError)},
 "warnings": [{"category": "CodegenWarning", "message": ...}],   "log": [WARNING+ records of the xsdata logger],
 "ignored_options": [...],
 "classes": [dump_class(...)]            processed classes (want "classes")
 "modules": [{"module": "generated.order", "path": "generated/order.py", "namespace": ...,
              "imports": [{"source","import_module","items":[{"qname","name","alias","import_class"}]}],
              "aliases": {qname: alias}, "class_order": [qname...],
              "classes": [class plan...],       (want "plan")
              "source": "...python text..."}]   (want "source")
 "packages": [{"module": "generated", "path": "generated/__init__.py", "imports": [...], "all": [...], "source": ...}],
 "files": ["generated/__init__.py", ...]   every file the real CodeWriter wrote, relative to the output dir
 "import": {"ok": bool, "modules": [names], "error": {...}}        (want "import")
 "bind": {"classes": [{"module","qualname","kind":"dataclass"|"enum"|"service"|"other",
                       "fields":[names], "build": "ok"|{error}, "init": "ok"|{error}}],
          "dup_fields": [[module, qualname, name]...], "dup_classes": [[module, name]...],
          "errors": n}                                             (want "bind")
}
A class plan (kind "class"): {"kind","qname","name","level","class_name","annotations":[...],
 "bases":[...],"help": str,"has_meta": bool,"meta": {global_type,name,nillable,namespace,
 target_namespace},"attrs":[{"name","local_name","tag","field_name","field_type",
 "field_definition": text,"field_default": jsonable,"field_metadata": jsonable}],"inner":[plans],
 "params":[[name, doc]...]};  kind "enum": attrs = [{"name","constant_name","field_default","doc"}];
 kind "service": attrs = [{"name","field_name","constant_value"}].
"""
from __future__ import annotations

import json
import os
import sys

HERE = os.path.dirname(os.path.abspath(__file__))
DEFAULT_WANT = ("classes", "plan", "source", "import", "bind")


# ============================================================================ harness side
def run_jobs(jobs, timeout=900, hashseed="0"):
    sys.path.insert(0, HERE)
    from common import run_impl
    return run_impl("impl_codegen.py", {"op": "jobs", "jobs": jobs}, timeout=timeout, with_shims=True,
                    hashseed=hashseed)


def validate_standin(timeout=600):
    sys.path.insert(0, HERE)
    from common import run_impl
    return run_impl("impl_codegen.py", {"op": "validate_fixtures"}, timeout=timeout, with_shims=True)


def _fx(*parts):
    return os.path.join(os.environ.get("XSDATA_REPO", "/repo"), "tests", "fixtures", *parts)


# name -> (source files [(fixture-relative path, name in the run)], options, {run module suffix: committed module})
# The run uses package "xvgen.<...>" instead of "tests.fixtures.<...>" so that both can be imported side by side.
FIXTURES = {
    "primer": ([("primer/order.xsd", "order.xsd")], {"package": "xvgen.primer", "docstring_style": "NumPy"},
               {"xvgen.primer.order": "tests.fixtures.primer.order"}),
    "books": ([("books/schema.xsd", "schema.xsd")],
              {"package": "xvgen.books", "structure_style": "namespaces", "docstring_style": "Google"},
              {"xvgen.books.books": "tests.fixtures.books.books"}),
    "compound": ([("compound/schema.xsd", "schema.xsd")],
                 {"package": "xvgen.compound.models", "structure_style": "single-package", "compound_fields": True},
                 {"xvgen.compound.models": "tests.fixtures.compound.models"}),
    "wrapper": ([("wrapper/schema.xsd", "schema.xsd")],
                {"package": "xvgen.wrapper.models", "structure_style": "single-package", "compound_fields": True,
                 "wrapper_fields": True},
                {"xvgen.wrapper.models": "tests.fixtures.wrapper.models"}),
    "dtd": ([("dtd/complete_example.dtd", "complete_example.dtd")], {"package": "xvgen.dtd.models"},
            {"xvgen.dtd.models.complete_example": "tests.fixtures.dtd.models.complete_example"}),
    "calculator": ([("calculator/services.wsdl", "services.wsdl")], {"package": "xvgen.calculator"},
                   {"xvgen.calculator.services": "tests.fixtures.calculator.services"}),
    "hello": ([("hello/hello.wsdl", "hello.wsdl"), ("hello/hello.xsd", "hello.xsd")], {"package": "xvgen.hello"},
              {"xvgen.hello.hello": "tests.fixtures.hello.hello"}, ["hello.wsdl"]),
    "annotations": ([("annotations/model.xsd", "model.xsd"), ("annotations/units.xsd", "units.xsd")],
                    {"config_file": "annotations/xsdata.xml", "package": "xvgen.annotations"},
                    {"xvgen.annotations.model": "tests.fixtures.annotations.model",
                     "xvgen.annotations.units": "tests.fixtures.annotations.units"}, ["model.xsd"]),
    "artists": ([("artists/art001.xml", "art001.xml"), ("artists/art002.xml", "art002.xml"),
                 ("artists/art003.xml", "art003.xml")], {"package": "xvgen.artists"},
                {"xvgen.artists.metadata": "tests.fixtures.artists.metadata"}),
    "series": ([("series/samples/show1.json", "show1.json"), ("series/samples/show2.json", "show2.json")],
               {"package": "xvgen.series"}, {"xvgen.series.series": "tests.fixtures.series.series"}),
    "stripe": ("stripe/samples", {"config_file": "stripe/.xsdata.xml", "package": "xvgen.stripe.models.balance"},
               {"xvgen.stripe.models.balance": "tests.fixtures.stripe.models.balance"}),
}
for _style, _dir in (("reStructuredText", "rst"), ("NumPy", "numpy"), ("Google", "google"),
                     ("Accessible", "accessible"), ("Blank", "blank")):
    FIXTURES["docstrings-" + _dir] = ([("docstrings/schema.xsd", "schema.xsd")],
                                      {"package": "xvgen.docstrings." + _dir, "docstring_style": _style},
                                      {"xvgen.docstrings.%s.schema" % _dir: "tests.fixtures.docstrings.%s.schema" % _dir})


# ============================================================================ implementation side
class PipelineTimeout(BaseException):
    """Raised by the SIGALRM handler: BaseException so that no `except Exception` in the
    code under test can swallow it."""


def jsonable(x):
    import decimal
    import enum
    from xml.etree.ElementTree import QName

    if x is None or isinstance(x, (bool, int, str)):
        return x
    if isinstance(x, float):
        return x if x == x and x not in (float("inf"), float("-inf")) else {"$float": repr(x)}
    if isinstance(x, decimal.Decimal):
        return {"$decimal": str(x)}
    if isinstance(x, QName):
        return {"$qname": x.text}
    if isinstance(x, enum.Enum):
        return {"$enum": type(x).__name__ + "." + x.name}
    if isinstance(x, tuple):
        return {"$tuple": [jsonable(v) for v in x]}
    if isinstance(x, (list, set, frozenset)):
        return [jsonable(v) for v in x]
    if isinstance(x, dict):
        return {str(k): jsonable(v) for k, v in x.items()}
    if isinstance(x, bytes):
        return {"$bytes": x.hex()}
    return {"$repr": repr(x), "$type": type(x).__name__}


def build_config(options, ignored=None):
    import io
    import tempfile
    from pathlib import Path

    from xsdata.models import config as C

    o = dict(options or {})
    ignored = ignored if ignored is not None else []
    if o.get("config_file"):  # fixture-relative path (validation only)
        o["config_xml"] = open(_fx(o.pop("config_file")), encoding="utf-8").read()
    if o.get("config_xml") is not None:
        with tempfile.TemporaryDirectory(prefix="xv_cfg_") as d:
            p = Path(d) / ".xsdata.xml"
            p.write_text(o.pop("config_xml"), encoding="utf-8")
            cfg = C.GeneratorConfig.read(p)
    elif o.pop("default_substitutions", False):
        cfg = C.GeneratorConfig.create()
    else:
        cfg = C.GeneratorConfig()
    o.pop("default_substitutions", None)

    params = {}
    for k in ("package", "relative_imports", "wrapper_fields", "max_line_length", "generic_collections",
              "unnest_classes", "ignore_patterns", "include_header"):
        if k in o:
            params[k] = o.pop(k)
    if "structure_style" in o:
        params["structure_style"] = C.StructureStyle(o.pop("structure_style"))
    if "docstring_style" in o:
        params["docstring_style"] = C.DocstringStyle(o.pop("docstring_style"))
    cf = o.pop("compound_fields", None)
    if isinstance(cf, dict):
        for k, v in cf.items():
            params["compound_fields." + k] = v
    elif cf is not None:
        params["compound_fields.enabled"] = bool(cf)
    fmt = dict(o.pop("format", {}) or {})
    for k in ("repr", "eq", "order", "unsafe_hash", "frozen", "slots", "kw_only"):
        if k in o:
            fmt[k] = o.pop(k)
    for k, v in fmt.items():
        if k in C.OutputFormat.__dataclass_fields__:
            params["format." + k] = v
        else:
            ignored.append("format." + k)
    # exactly what cli.generate does with the command-line parameters
    cfg.output.update(**params)
    # GeneratorOutput.validate (generic_collections x frozen) only runs in __post_init__;
    # the CLI path does not re-run it either: faithful.

    for key, conv in (o.pop("conventions", {}) or {}).items():
        nc = getattr(cfg.conventions, key)
        if "case" in conv:
            nc.case = C.NameCase(conv["case"])
        if "safe_prefix" in conv:
            nc.safe_prefix = conv["safe_prefix"]
    for s in o.pop("substitutions", []) or []:
        cfg.substitutions.substitution.append(
            C.GeneratorSubstitution(type=C.ObjectType(s["type"]), search=s["search"], replace=s["replace"]))
    for e in o.pop("extensions", []) or []:
        cfg.extensions.extension.append(C.GeneratorExtension(
            type=C.ExtensionType(e["type"]), class_name=e["class_name"], import_string=e["import_string"],
            prepend=e.get("prepend", False), apply_if_derived=e.get("apply_if_derived", False),
            parent_path=e.get("parent_path")))
    if o:
        raise KeyError("codegen_run.build_config: unknown option(s) " + ", ".join(sorted(o)))
    del io
    return cfg


def _err(e, src_uri=None):
    import traceback

    from xsdata.codegen.exceptions import CodegenError, CodegenWarning

    if e is None:
        return None
    tb = traceback.extract_tb(e.__traceback__)
    where = None
    for fr in tb:
        fn = fr.filename.replace("\\", "/")
        if "/xsdata/" in fn:
            where = "xsdata/" + fn.split("/xsdata/", 1)[1] + ":" + str(fr.lineno) + " " + fr.name
    msg = str(e)
    text = "".join(traceback.format_exception(type(e), e, e.__traceback__))[-4000:]
    if src_uri:
        msg, text = msg.replace(src_uri, "file:///SRC"), text.replace(src_uri, "file:///SRC")
    cause = e.__cause__ or (e.__context__ if not e.__suppress_context__ else None)
    return {"type": type(e).__name__, "module": type(e).__module__,
            "mro": [c.__name__ for c in type(e).__mro__ if c not in (object, BaseException)],
            "own": isinstance(e, (CodegenError, CodegenWarning)),
            "xsdata": (type(e).__module__ or "").split(".")[0] == "xsdata",
            "message": msg[:2000], "where": where, "traceback": text,
            "cause": _err(cause, src_uri) if cause is not None and cause is not e else None}


def dump_class(obj, ids=None, src_uri=None):
    """JSON-able dump of a processed codegen Class (recursive).  `AttrType.reference`
    (an id()) is replaced by the qname of the referenced class, or None."""
    ids = ids or {}

    def loc(x):
        return x.replace(src_uri, "file:///SRC") if (src_uri and isinstance(x, str)) else x

    def res(r):
        d = {k: getattr(r, k) for k in r.__dataclass_fields__}
        d["path"] = [list(p) for p in r.path]
        return d

    def tp(t):
        return {"qname": t.qname, "alias": t.alias, "native": t.native, "forward": t.forward,
                "circular": t.circular, "substituted": t.substituted,
                "reference": ids.get(t.reference) if t.reference else None}

    def attr(a):
        return {"tag": a.tag, "name": a.name, "local_name": a.local_name, "wrapper": a.wrapper, "index": a.index,
                "default": jsonable(a.default), "fixed": a.fixed, "mixed": a.mixed, "types": [tp(t) for t in a.types],
                "choices": [attr(c) for c in a.choices], "namespace": a.namespace, "help": a.help,
                "restrictions": res(a.restrictions), "parent": a.parent, "substitution": a.substitution,
                "slug": a.slug, "xml_type": a.xml_type}

    try:
        target_module = obj.target_module
    except Exception:
        target_module = None
    return {"qname": obj.qname, "name": obj.name, "slug": obj.slug, "tag": obj.tag, "location": loc(obj.location),
            "mixed": obj.mixed, "abstract": obj.abstract, "nillable": obj.nillable, "local_type": obj.local_type,
            "status": int(obj.status), "container": obj.container, "package": obj.package, "module": obj.module,
            "target_module": target_module, "namespace": obj.namespace, "target_namespace": obj.target_namespace,
            "help": obj.help, "meta_name": obj.meta_name, "default": jsonable(obj.default), "fixed": obj.fixed,
            "substitutions": list(obj.substitutions),
            "extensions": [{"tag": e.tag, "type": tp(e.type), "restrictions": res(e.restrictions)}
                           for e in obj.extensions],
            "attrs": [attr(a) for a in obj.attrs], "inner": [dump_class(i, ids, src_uri) for i in obj.inner],
            "ns_map": {str(k): v for k, v in obj.ns_map.items()}, "is_enumeration": obj.is_enumeration,
            "is_service": obj.is_service, "parent": obj.parent.qname if obj.parent is not None else None}


def _all_ids(classes):
    out = {}

    def walk(c):
        out[id(c)] = c.qname
        for i in c.inner:
            walk(i)

    for c in classes:
        walk(c)
    return out


_TRACE = None  # the trace dict of the run in progress (one run at a time per process)


def _install():
    """Create (once) the capturing subclasses of the real transformer / generator."""
    global _Transformer, _Generator
    if "_Transformer" in globals():
        return
    from pathlib import Path

    import render_standin as RS
    from xsdata.codegen.transformer import ResourceTransformer
    from xsdata.codegen.writer import CodeWriter
    from xsdata.formats.dataclass.generator import DataclassGenerator

    class _Transformer(ResourceTransformer):
        __slots__ = ()

        def process_sources(self, uris):
            _TRACE["stage"] = "parse_map"
            super().process_sources(uris)

        def analyze_classes(self, classes):
            _TRACE["stage"] = "process"
            result = super().analyze_classes(classes)
            _TRACE["classes"] = result
            _TRACE["stage"] = "write"
            return result

    class _Generator(DataclassGenerator):
        """The real generator with the four template-touching methods replaced."""
        __slots__ = ()

        def __init__(self, config):
            super().__init__(config)
            _TRACE["generator"] = self

        def render(self, classes):
            cwd = Path.cwd()
            for result in super().render(classes):
                _TRACE["files"].append(str(result.path.relative_to(cwd)))
                yield result

        def render_package(self, classes, module):
            plan = RS.package_plan(self.filters, classes, module)
            plan["source"] = RS.emit_package(plan)
            plan["path"] = module.replace(".", "/") + "/__init__.py"
            _TRACE["packages"].append(plan)
            return plan["source"]

        def render_module(self, resolver, classes):
            plan = RS.module_plan(self.filters, resolver, classes)
            plan["source"] = RS.emit_module(self.filters, plan)
            plan["path"] = plan["module"].replace(".", "/") + ".py"
            _TRACE["modules"].append(plan)
            return plan["source"]

        def render_classes(self, classes, module_namespace):  # pragma: no cover - unused (render_module overridden)
            return "\n".join(RS.emit_class(RS.class_plan(self.filters, o, module_namespace)).strip() for o in classes)

        def ruff_code(self, file_paths):
            _TRACE["ruff_skipped"] = True

        def validate_imports(self):
            _TRACE["stage"] = "validate_imports"
            before = set(sys.modules)
            try:
                super().validate_imports()
            finally:
                _TRACE["imported"] = sorted(set(sys.modules) - before)
            _TRACE["import_ok"] = True

    CodeWriter.register_generator("dataclasses", _Generator)
    globals()["_Transformer"] = _Transformer
    globals()["_Generator"] = _Generator


class CodegenRun:
    def __init__(self, sources, options=None, entry=None, timeout=20):
        self.sources = sources
        self.options = options or {}
        self.entry = entry
        self.timeout = timeout
        self.result = None
        self.classes = None
        self.config = self.generator = self.filters = None
        self._mods = None

    # -- context management ---------------------------------------------------
    def __enter__(self):
        import logging
        import shutil
        import signal
        import tempfile
        import warnings
        from pathlib import Path

        global _TRACE
        _install()
        from xsdata.codegen.exceptions import CodegenError
        from xsdata.logger import logger
        from xsdata.utils import package as pkgutil_

        self._tmp = tempfile.mkdtemp(prefix="xv_codegen_")
        for forbidden in ("/repo", "/verif"):
            if os.path.realpath(self._tmp).startswith(forbidden + "/"):
                raise RuntimeError("temp dir inside " + forbidden)
        src = Path(self._tmp) / "src"
        out = Path(self._tmp) / "out"
        src.mkdir()
        out.mkdir()
        self._shutil = shutil
        self._cwd = os.getcwd()
        self._path = list(sys.path)
        self._modules = set(sys.modules)
        self.out_dir = str(out)
        src_uri = src.as_uri()

        if isinstance(self.sources, str):  # a fixture directory (validation only): copy it
            shutil.copytree(_fx(self.sources), src, dirs_exist_ok=True)
            names = sorted(str(p.relative_to(src)) for p in src.rglob("*") if p.is_file())
        else:
            for name, text in self.sources.items():
                p = src / name
                p.parent.mkdir(parents=True, exist_ok=True)
                if isinstance(text, bytes):
                    p.write_bytes(text)
                else:
                    p.write_text(text, encoding="utf-8")
            names = sorted(self.sources)
        entry = self.entry if self.entry is not None else names
        uris = sorted((src / n).as_uri() for n in entry)

        trace = _TRACE = {"stage": "config", "classes": None, "modules": [], "packages": [], "files": [],
                          "generator": None, "import_ok": False, "imported": []}
        res = self.result = {"status": "ok", "stage": "config", "error": None, "warnings": [], "log": [],
                             "ignored_options": []}
        records = []

        class _H(logging.Handler):
            def emit(self, record):
                try:
                    records.append({"level": record.levelname, "message": record.getMessage().replace(src_uri, "file:///SRC")})
                except Exception as exc:  # noqa
                    records.append({"level": record.levelname, "message": "<unformattable: %r>" % (exc,)})

        handler = _H(level=logging.WARNING)
        logger.addHandler(handler)

        def on_alarm(signum, frame):
            raise PipelineTimeout()

        old_handler = signal.signal(signal.SIGALRM, on_alarm)
        pkgutil_.package_path.cache_clear()
        pkgutil_.module_path.cache_clear()
        os.chdir(out)
        exc = None
        with warnings.catch_warnings(record=True) as caught:
            warnings.simplefilter("always")
            signal.setitimer(signal.ITIMER_REAL, self.timeout)
            try:
                self.config = build_config(self.options, res["ignored_options"])
                transformer = _Transformer(config=self.config)
                transformer.process(uris)
                trace["stage"] = "done"
            except PipelineTimeout as e:
                exc = e
                res["status"] = "timeout"
            except CodegenError as e:
                exc = e
                res["status"] = "codegen_error"
            except BaseException as e:  # noqa: the point is to see *everything*
                if isinstance(e, (KeyboardInterrupt, SystemExit)):
                    raise
                exc = e
                res["status"] = "error"
            finally:
                signal.setitimer(signal.ITIMER_REAL, 0)
                signal.signal(signal.SIGALRM, old_handler)
                logger.removeHandler(handler)
        res["stage"] = trace["stage"]
        res["error"] = _err(exc, src_uri)
        res["warnings"] = [{"category": type(w.message).__name__, "message": str(w.message)} for w in caught
                           if "xsdata" in (w.filename or "") or type(w.message).__name__.startswith("Codegen")]
        res["log"] = records
        self.classes = trace["classes"]
        self.generator = trace["generator"]
        self.filters = self.generator.filters if self.generator is not None else None
        self._src_uri = src_uri
        self._trace = trace
        res["files"] = sorted(trace["files"])
        res["import"] = {"ok": trace["import_ok"], "modules": [m for m in trace["imported"]],
                         "error": res["error"] if trace["stage"] == "validate_imports" else None}
        return self

    def __exit__(self, *a):
        from xsdata.utils import package as pkgutil_

        os.chdir(self._cwd)
        sys.path[:] = self._path
        for name in set(sys.modules) - self._modules:
            if self._is_generated(sys.modules.get(name)):
                del sys.modules[name]
        pkgutil_.package_path.cache_clear()
        pkgutil_.module_path.cache_clear()
        self._shutil.rmtree(self._tmp, ignore_errors=True)
        return False

    def _is_generated(self, mod):
        """Was this module imported from the run's output directory?  (Library modules that
        xsdata imports lazily during a run stay in sys.modules.)"""
        roots = (self._tmp, os.path.realpath(self._tmp))
        files = [getattr(mod, "__file__", None) or ""]
        try:
            files += list(getattr(mod, "__path__", []) or [])
        except Exception:  # noqa
            pass
        return any(f.startswith(r) for f in files for r in roots if f)

    # -- JSON parts -------------------------------------------------------------
    def fill(self, want=DEFAULT_WANT):
        res, trace = self.result, self._trace
        if "classes" in want and self.classes is not None:
            ids = _all_ids(self.classes)
            res["classes"] = [dump_class(c, ids, self._src_uri) for c in self.classes]
        mods, pkgs = [], []
        for bucket, outl in (("modules", mods), ("packages", pkgs)):
            for m in trace[bucket]:
                d = {k: v for k, v in m.items() if k not in ("classes", "source")}
                if "plan" in want and "classes" in m:
                    d["classes"] = jsonable(m["classes"])
                if "source" in want:
                    d["source"] = m["source"]
                outl.append(d)
        res["modules"], res["packages"] = mods, pkgs
        if "bind" in want:
            res["bind"] = self.bind_report() if trace["import_ok"] else None
        if "import" not in want:
            res.pop("import", None)
        return res

    # -- live access --------------------------------------------------------------
    def import_modules(self):
        """{dotted name: module} for every generated module/package (already imported by the
        real validate_imports when the run succeeded; imported here otherwise)."""
        import importlib

        if self._mods is None:
            if self.out_dir not in sys.path:
                sys.path.insert(0, self.out_dir)
            names = []
            for rel in self.result["files"]:
                parts = rel[:-3].split(os.sep)
                if parts[-1] == "__init__":
                    parts = parts[:-1]
                names.append(".".join(parts))
            self._mods = {n: importlib.import_module(n) for n in sorted(set(names)) if n}
        return self._mods

    def python_classes(self):
        import inspect

        out = []
        pkg_names = {p["module"] for p in self._trace["packages"]}
        for mname, mod in self.import_modules().items():
            if mname in pkg_names or mname + ".__init__" in pkg_names or hasattr(mod, "__path__"):
                continue

            def walk(ns, prefix):
                for k, v in list(vars(ns).items()):
                    if inspect.isclass(v) and v.__module__ == mname and v.__qualname__ == prefix + k and not (
                            prefix and k == "Meta"):
                        out.append((mname, v.__qualname__, v))
                        walk(v, v.__qualname__ + ".")

            walk(mod, "")
        return out

    def bind_report(self):
        """XmlContext.build_recursive / build for every generated dataclass + instantiate with
        defaults (required fields get None: dataclasses do not validate values)."""
        import dataclasses
        import enum

        from xsdata.formats.dataclass.context import XmlContext

        rep = {"classes": [], "dup_fields": [], "dup_classes": [], "errors": 0}
        try:
            pcs = self.python_classes()
        except BaseException as e:  # noqa
            rep["errors"] += 1
            rep["import_error"] = _err(e, self._src_uri)
            return rep
        # duplicate names, judged on the PLAN (python itself silently keeps the last one)
        for m in self._trace["modules"]:
            seen = {}
            for p in m.get("classes", []):
                seen[p["class_name"]] = seen.get(p["class_name"], 0) + 1
            for it in m["imports"]:
                for x in it["items"]:
                    nm = x["import_class"].split(" as ")[-1]
                    seen[nm] = seen.get(nm, 0) + 1
            rep["dup_classes"] += [[m["module"], k] for k, n in seen.items() if n > 1]

            def walk(p, path):
                names = {}
                key = "field_name" if p["kind"] != "enum" else "constant_name"
                for a in p["attrs"]:
                    names[a[key]] = names.get(a[key], 0) + 1
                inner = {}
                for i in p["inner"]:
                    inner[i["class_name"]] = inner.get(i["class_name"], 0) + 1
                    walk(i, path + "." + i["class_name"])
                rep["dup_fields"] += [[m["module"], path, k] for k, n in names.items() if n > 1]
                rep["dup_classes"] += [[m["module"], path + "." + k] for k, n in inner.items() if n > 1]
                # a field and an inner class of the same name shadow each other
                rep["dup_fields"] += [[m["module"], path, k] for k in names if k in inner]

            for p in m.get("classes", []):
                walk(p, p["class_name"])
        ctx = XmlContext()
        for mname, qual, cls in pcs:
            row = {"module": mname, "qualname": qual, "fields": [], "build": None, "init": None}
            if dataclasses.is_dataclass(cls):
                row["kind"] = "dataclass"
                row["fields"] = [f.name for f in dataclasses.fields(cls)]
                try:
                    ctx.build_recursive(cls)
                    ctx.build(cls)
                    row["build"] = "ok"
                except BaseException as e:  # noqa
                    row["build"] = _err(e, self._src_uri)
                    rep["errors"] += 1
                try:
                    req = {f.name: None for f in dataclasses.fields(cls)
                           if f.init and f.default is dataclasses.MISSING and f.default_factory is dataclasses.MISSING}
                    obj = cls(**req)
                    repr(obj)
                    row["init"] = "ok"
                except BaseException as e:  # noqa
                    row["init"] = _err(e, self._src_uri)
                    rep["errors"] += 1
            elif isinstance(cls, type) and issubclass(cls, enum.Enum):
                row["kind"] = "enum"
                row["fields"] = list(cls.__members__)
                row["build"] = row["init"] = "ok"
            else:
                row["kind"] = "service" if any(p["kind"] == "service" and p["class_name"] == qual
                                               for m in self._trace["modules"] for p in m.get("classes", [])) else "other"
                row["build"] = row["init"] = "ok"
            rep["classes"].append(row)
        return rep


def run_job(job):
    want = tuple(job.get("want", DEFAULT_WANT))
    with CodegenRun(job["sources"], job.get("options"), job.get("entry"), job.get("timeout", 20)) as run:
        res = run.fill(want)
    res["id"] = job.get("id")
    return res


# ============================================================================ stand-in validation
def _describe_module(mod, prefix):
    """Semantic description of a generated module after import: classes (recursive), dataclass
    params, fields (name, type string, default, default_factory, init, kw_only, metadata), Meta
    attributes, enum members, service constants, __NAMESPACE__."""
    import dataclasses
    import enum
    import inspect

    def norm(v):
        if isinstance(v, type):
            return {"$class": v.__qualname__}
        if isinstance(v, (list, tuple)):
            return [norm(x) for x in v]
        if isinstance(v, dict):
            return {k: norm(x) for k, x in v.items()}
        if callable(v) and getattr(v, "__name__", "") == "<lambda>":
            return {"$lambda": norm(v())}
        if isinstance(v, enum.Enum):
            return {"$enum": type(v).__qualname__ + "." + v.name}
        j = jsonable(v)
        return j

    def doc(c):
        d = c.__dict__.get("__doc__")
        if d is None or (dataclasses.is_dataclass(c) and d.startswith(c.__name__ + "(")):
            return None
        return " ".join(d.split())

    def cls_desc(c):
        d = {"doc": doc(c), "bases": [b.__qualname__ for b in c.__bases__ if b is not object]}
        if isinstance(c, type) and issubclass(c, enum.Enum):
            d["kind"] = "enum"
            d["members"] = [[k, norm(m.value), " ".join((m.__doc__ or "").split()) if "__doc__" in vars(m) else None]
                            for k, m in c.__members__.items()]
            return d
        if dataclasses.is_dataclass(c):
            d["kind"] = "dataclass"
            p = c.__dataclass_params__
            d["params"] = {k: getattr(p, k) for k in ("init", "repr", "eq", "order", "unsafe_hash", "frozen")}
            d["slots"] = "__slots__" in c.__dict__
            d["fields"] = []
            for f in dataclasses.fields(c):
                d["fields"].append({
                    "name": f.name, "type": f.type if isinstance(f.type, str) else repr(f.type), "init": f.init,
                    "kw_only": f.kw_only,
                    "default": None if f.default is dataclasses.MISSING else {"v": norm(f.default)},
                    "default_factory": None if f.default_factory is dataclasses.MISSING else norm(f.default_factory),
                    "metadata": norm(dict(f.metadata))})
        else:
            d["kind"] = "plain"
            d["consts"] = {k: norm(v) for k, v in vars(c).items() if not k.startswith("__") and not inspect.isclass(v)}
        meta = c.__dict__.get("Meta")
        d["meta"] = ({k: norm(v) for k, v in vars(meta).items() if not k.startswith("__")} if meta is not None else None)
        d["inner"] = {k: cls_desc(v) for k, v in vars(c).items()
                      if inspect.isclass(v) and k != "Meta" and v.__module__ == c.__module__
                      and v.__qualname__ == c.__qualname__ + "." + k}
        return d

    out = {"namespace": getattr(mod, "__NAMESPACE__", None), "classes": {}}
    for k, v in vars(mod).items():
        if inspect.isclass(v) and v.__module__ == mod.__name__:
            out["classes"][k] = cls_desc(v)
    out["imported"] = sorted(k for k, v in vars(mod).items()
                             if inspect.isclass(v) and v.__module__ != mod.__name__
                             and (v.__module__.startswith(prefix[0]) or v.__module__.startswith(prefix[1])))
    return out


def _diff(a, b, path, out, limit=40):
    if len(out) >= limit:
        return
    if isinstance(a, dict) and isinstance(b, dict):
        for k in list(a) + [k for k in b if k not in a]:
            if k not in a:
                out.append(f"{path}/{k}: only in committed output: {json.dumps(b[k], default=str)[:200]}")
            elif k not in b:
                out.append(f"{path}/{k}: only in stand-in: {json.dumps(a[k], default=str)[:200]}")
            else:
                _diff(a[k], b[k], f"{path}/{k}", out, limit)
        if list(a) != list(b) and set(a) == set(b) and path.endswith("/classes") is False and "/metadata" not in path:
            pass
    elif isinstance(a, list) and isinstance(b, list):
        if len(a) != len(b):
            out.append(f"{path}: length {len(a)} (stand-in) vs {len(b)} (committed): "
                       f"{json.dumps(a, default=str)[:160]} vs {json.dumps(b, default=str)[:160]}")
        else:
            for i, (x, y) in enumerate(zip(a, b)):
                _diff(x, y, f"{path}[{i}]", out, limit)
    elif a != b:
        out.append(f"{path}: stand-in {json.dumps(a, default=str)[:200]} vs committed {json.dumps(b, default=str)[:200]}")


def validate_fixtures(only=None):
    """Compare the stand-in's modules with the generator outputs committed under
    tests/fixtures after import.  Returns a list of human-readable differences."""
    import importlib

    diffs = []
    for name, spec in FIXTURES.items():
        if only and name not in only:
            continue
        files, options, expect = spec[0], spec[1], spec[2]
        entry = spec[3] if len(spec) > 3 else None
        if isinstance(files, str):
            sources = files
        else:
            sources = {dst: open(_fx(src), "rb").read() for src, dst in files}
        try:
            with CodegenRun(sources, options, entry=entry, timeout=120) as run:
                if run.result["status"] != "ok":
                    diffs.append(f"{name}: pipeline status {run.result['status']} at {run.result['stage']}: "
                                 f"{(run.result['error'] or {}).get('type')}: {(run.result['error'] or {}).get('message')}")
                    continue
                mods = run.import_modules()
                for mine, theirs in expect.items():
                    if mine not in mods:
                        diffs.append(f"{name}: stand-in produced no module {mine}; has {sorted(mods)}")
                        continue
                    committed = importlib.import_module(theirs)
                    a = _describe_module(mods[mine], ("xvgen.", "tests.fixtures."))
                    b = _describe_module(committed, ("xvgen.", "tests.fixtures."))
                    d = []
                    _diff(a, b, f"{name}:{mine}", d)
                    diffs.extend(d)
                    # class definition order inside the module
                    if list(a["classes"]) != list(b["classes"]) and set(a["classes"]) == set(b["classes"]):
                        diffs.append(f"{name}:{mine}: class order differs: {list(a['classes'])} vs {list(b['classes'])}")
                    # package __init__: same __all__ (as a set; the template order is by source then name)
                    pk_mine, pk_theirs = mine.rsplit(".", 1)[0], theirs.rsplit(".", 1)[0]
                    if pk_mine in mods and hasattr(mods[pk_mine], "__all__"):
                        try:
                            their_pkg = importlib.import_module(pk_theirs)
                            if hasattr(their_pkg, "__all__") and sorted(their_pkg.__all__) != sorted(mods[pk_mine].__all__):
                                # a package may hold several modules; compare only when the module sets agree
                                if len([m for m in expect if m.rsplit(".", 1)[0] == pk_mine]) == len(
                                        [m for m in mods if m.rsplit(".", 1)[0] == pk_mine and not hasattr(mods[m], "__path__")]):
                                    diffs.append(f"{name}:{pk_mine}.__all__ {sorted(mods[pk_mine].__all__)} vs committed "
                                                 f"{sorted(their_pkg.__all__)}")
                        except Exception as e:  # noqa
                            diffs.append(f"{name}: cannot import committed package {pk_theirs}: {e!r}")
        except BaseException as e:  # noqa
            import traceback
            diffs.append(f"{name}: harness exception {type(e).__name__}: {e}\n{traceback.format_exc()[-1500:]}")
    return diffs
