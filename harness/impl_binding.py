"""Implementation-side driver for the binding properties (C01 C08 C09 ...): runs the REAL
xsdata serializers/parsers on generated models and instances.  JSON in -> JSON out.

job = {"src": module source, "name": module name, "root": class name, "instances": [recipes],
       "cases": [ {"i": instance index, "op": ..., ...} ]}
"""
import dataclasses
import io
import json
import math
import os
import signal
import sys
import tempfile
import traceback
import warnings

sys.path.insert(0, os.path.dirname(os.path.abspath(__file__)))
import genmodels as G  # noqa: E402

from xsdata.formats.dataclass.context import XmlContext  # noqa: E402
from xsdata.formats.dataclass.parsers import XmlParser  # noqa: E402
from xsdata.formats.dataclass.parsers.config import ParserConfig  # noqa: E402
from xsdata.formats.dataclass.parsers.handlers import LxmlEventHandler, XmlEventHandler  # noqa: E402
from xsdata.formats.dataclass.serializers import XmlSerializer  # noqa: E402
from xsdata.formats.dataclass.serializers.config import SerializerConfig  # noqa: E402
from xsdata.formats.dataclass.serializers.writers import LxmlEventWriter, XmlEventWriter  # noqa: E402

WRITERS = {"native": XmlEventWriter, "lxml": LxmlEventWriter}
HANDLERS = {"native": XmlEventHandler, "lxml": LxmlEventHandler}


def eq(a, b, path=""):
    """None if equal, else the path of the first difference (NaN-tolerant, list/tuple strict)."""
    if isinstance(a, float) and isinstance(b, float):
        return None if (math.isnan(a) and math.isnan(b)) or a == b else path
    if type(a) is not type(b):
        return path + f"<type {type(a).__name__} vs {type(b).__name__}>"
    if dataclasses.is_dataclass(a) and not isinstance(a, type):
        for f in dataclasses.fields(a):
            d = eq(getattr(a, f.name), getattr(b, f.name), path + "." + f.name)
            if d is not None:
                return d
        return None
    if isinstance(a, (list, tuple)):
        if len(a) != len(b):
            return path + f"<len {len(a)} vs {len(b)}>"
        for i, (x, y) in enumerate(zip(a, b)):
            d = eq(x, y, path + f"[{i}]")
            if d is not None:
                return d
        return None
    if isinstance(a, dict):
        if a.keys() != b.keys():
            return path + "<keys>"
        for k in a:
            d = eq(a[k], b[k], path + f"[{k!r}]")
            if d is not None:
                return d
        return None
    return None if a == b else path


class Timeout(Exception):
    pass


def _alarm(signum, frame):
    raise Timeout()


def make_config(c):
    c = c or {}
    kw = {}
    if c.get("indent"):
        kw["indent"] = c["indent"]
    if "xml_declaration" in c:
        kw["xml_declaration"] = c["xml_declaration"]
    if c.get("ignore_default_attributes"):
        kw["ignore_default_attributes"] = True
    if c.get("encoding"):
        kw["encoding"] = c["encoding"]
    return SerializerConfig(**kw)


def ns_map_of(m):
    """JSON cannot carry a None key: "" stands for None (default namespace), "@empty" for the literal '' key"""
    if m is None:
        return None
    return {(None if k == "" else ("" if k == "@empty" else k)): v for k, v in m.items()}


def infoset(xml_bytes):
    """canonical infoset through lxml: nested tuples (qname, sorted attrs, text, children, tail)"""
    from lxml import etree
    root = etree.fromstring(xml_bytes)

    def conv(e):
        return [e.tag, sorted((k, v) for k, v in e.attrib.items()), e.text, [conv(c) for c in e if isinstance(c.tag, str)], e.tail]
    return conv(root)


def run_case(ctx, mod, objs, case):
    obj = objs[case["i"]]
    op = case["op"]
    out = {}
    with warnings.catch_warnings(record=True) as wl:
        warnings.simplefilter("always")
        if op == "roundtrip":
            ser = XmlSerializer(context=ctx, config=make_config(case.get("config")), writer=WRITERS[case.get("writer", "native")])
            xml = ser.render(obj, ns_map=ns_map_of(case.get("ns_map")))
            out["xml"] = xml
            pc = ParserConfig(fail_on_unknown_properties=True, fail_on_unknown_attributes=True, fail_on_converter_warnings=True) \
                if case.get("strict", True) else ParserConfig()
            parser = XmlParser(context=ctx, handler=HANDLERS[case.get("handler", "native")], config=pc)
            back = parser.from_string(xml, type(obj))
            d = eq(obj, back)
            out["equal"] = d is None
            if d is not None:
                out["diff"] = d
                out["obj"] = repr(obj)[:1500]
                out["back"] = repr(back)[:1500]
        elif op == "writers":
            # C08: both writers and the tree serializer give the same infoset (indentation aside)
            from lxml import etree
            from xsdata.formats.dataclass.serializers import TreeSerializer
            res, err = {}, {}
            cfg = dict(case.get("config") or {})
            cfg.pop("indent", None)
            for w in ("native", "lxml"):
                try:
                    ser = XmlSerializer(context=ctx, config=make_config(cfg), writer=WRITERS[w])
                    res[w] = infoset(ser.render(obj, ns_map=ns_map_of(case.get("ns_map"))).encode())
                except Exception as e:  # noqa
                    err[w] = type(e).__name__ + ": " + str(e)[:150]
            try:
                tree = TreeSerializer(context=ctx, config=make_config(cfg)).render(obj, ns_map=ns_map_of(case.get("ns_map")))
                res["tree"] = infoset(etree.tostring(tree))
            except Exception as e:  # noqa
                err["tree"] = type(e).__name__ + ": " + str(e)[:150]
            out["errors"] = err
            vals = list(res.values())
            out["equal"] = not err and all(v == vals[0] for v in vals)
            if not out["equal"]:
                out["infosets"] = {k: json.dumps(v)[:1500] for k, v in res.items()}
                ks = list(res)
                out["agree"] = sorted("=".join(sorted([a, b])) for i, a in enumerate(ks) for b in ks[i + 1:] if res[a] == res[b])
        elif op == "handlers":
            # C08: both handlers, every source kind, same object (or the same exception type)
            import xml.etree.ElementTree as ET
            from lxml import etree
            xml = case.get("doc") or XmlSerializer(context=ctx).render(obj)
            data = xml.encode()
            if case.get("rewrite_seed") is not None:
                import random
                import xmlrewrite as X
                data = X.rewrite(xml, ["comments_pis", "comment_in_text", "cdata", "charrefs", "attr_order", "prefixes"], random.Random(case["rewrite_seed"]))
                xml = data.decode()
            tmpd = tempfile.mkdtemp(prefix="c08-")
            path = os.path.join(tmpd, "doc.xml")
            with open(path, "wb") as f:
                f.write(data)
            import pathlib
            results = {}
            try:
                for hname, h in HANDLERS.items():
                    def P():
                        return XmlParser(context=ctx, handler=h)
                    sources = {
                        "bytes": lambda: P().from_bytes(data, type(obj)),
                        "str": lambda: P().from_string(xml, type(obj)),
                        "path": lambda: P().from_path(pathlib.Path(path), type(obj)),
                        "strpath": lambda: P().parse(path, type(obj)),
                        "fileobj": lambda: P().parse(io.BytesIO(data), type(obj)),
                        "lxml_tree": lambda: P().parse(etree.parse(io.BytesIO(data)), type(obj)),
                        "lxml_element": lambda: P().parse(etree.fromstring(data), type(obj)),
                    }
                    if hname == "native":
                        sources["et_tree"] = lambda: P().parse(ET.parse(io.BytesIO(data)), type(obj))
                        sources["et_element"] = lambda: P().parse(ET.fromstring(data), type(obj))
                        del sources["lxml_tree"], sources["lxml_element"]
                    for sname, fn in sources.items():
                        try:
                            results[hname + "/" + sname] = ("ok", fn())
                        except Exception as e:  # noqa
                            results[hname + "/" + sname] = ("exc", type(e).__name__ + ": " + str(e)[:120])
            finally:
                import shutil
                shutil.rmtree(tmpd, ignore_errors=True)
            ref_k = "lxml/bytes"
            ref = results[ref_k]
            diffs = {}
            for k, v in results.items():
                if v[0] != ref[0]:
                    diffs[k] = f"{v[0]} vs {ref[0]}: {v[1] if v[0] == 'exc' else ''}{ref[1] if ref[0] == 'exc' else ''}"[:300]
                elif v[0] == "ok":
                    d = eq(ref[1], v[1])
                    if d is not None:
                        diffs[k] = "differs at " + d
                elif v[1].split(":")[0] != ref[1].split(":")[0]:
                    diffs[k] = f"{v[1]} vs {ref[1]}"
            out["equal"] = not diffs
            out["diffs"] = diffs
            if diffs:
                out["xml"] = xml[:3000]
        elif op == "rewrite":
            import random
            import xmlrewrite as X
            rr = random.Random(case["seed"])
            xml = XmlSerializer(context=ctx).render(obj)
            base = XmlParser(context=ctx).from_string(xml, type(obj))
            mode = case["mode"]
            trials = []
            for _ in range(case.get("n", 3)):
                kinds = [k for k in X.KINDS if rr.random() < 0.45 and k not in ("ws_between_children", "value_ws")]
                if rr.random() < 0.3 or ("xsi:type" in xml and not trials):
                    kinds = sorted(set(kinds) | {"default_ns", "qname_attrs"})
                eo = None
                pad = False
                if mode == "element_only":
                    kinds.append("ws_between_children")
                    # element-only content: elements that have children and no text / tails at all
                    eo = lambda e: len(e) > 0 and not (e.text or "").strip() and all(not (c.tail or "").strip() for c in e)  # noqa
                if mode == "value_ws":
                    kinds.append("value_ws")
                    pad = True
                doc = X.rewrite(xml, kinds, rr, element_only=eo, pad_values=pad)
                if mode == "general" and X.infoset(doc) != X.infoset(xml.encode()):
                    trials.append({"kinds": kinds, "infoset_changed": True, "doc": doc.decode("utf-8", "replace")[:2000], "handler": "-"})
                    continue
                for hname, h in HANDLERS.items():
                    t = {"kinds": kinds, "handler": hname}
                    try:
                        back = XmlParser(context=ctx, handler=h).from_bytes(doc, type(obj))
                        d = eq(base, back)
                        t["ok"] = d is None
                        if d is not None:
                            t["why"] = "differs at " + d
                            t["doc"] = doc.decode("utf-8", "replace")[:3000] if not doc.startswith(b"\xff\xfe") else doc.decode("utf-16")[:3000]
                            t["orig"] = xml[:3000]
                    except Exception as e:  # noqa
                        t["ok"] = False
                        t["why"] = type(e).__name__ + ": " + str(e)[:200]
                        t["doc"] = doc.decode("utf-8", "replace")[:3000]
                        t["orig"] = xml[:3000]
                    trials.append(t)
            out["trials"] = trials
        else:
            raise KeyError(op)
    out["warnings"] = [str(w.category.__name__) for w in wl]
    return out


def run_job(job):
    mod = G.load_module(job["src"], job["name"])
    ctx = XmlContext()
    objs = []
    for r in job["instances"]:
        objs.append(G.build_instance(mod.__dict__, r))
    results = []
    signal.signal(signal.SIGALRM, _alarm)
    for case in job["cases"]:
        signal.alarm(10)
        try:
            results.append(run_case(ctx if not case.get("fresh_context") else XmlContext(), mod, objs, case))
        except Timeout:
            results.append({"exc": "Timeout"})
        except Exception as e:  # noqa
            results.append({"exc": type(e).__name__, "msg": str(e)[:300], "tb": traceback.format_exc()[-600:]})
        finally:
            signal.alarm(0)
    return results


def main():
    jobs = json.load(sys.stdin)
    out = []
    for job in jobs:
        try:
            out.append({"results": run_job(job)})
        except Exception as e:  # noqa
            out.append({"load_error": type(e).__name__ + ": " + str(e)[:300], "tb": traceback.format_exc()[-800:]})
    json.dump(out, sys.stdout)


main()
