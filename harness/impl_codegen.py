"""Implementation-side runner of the shared code-generation harness (see codegen_run.py).

stdin : {"op": "jobs", "jobs": [job, ...]}      -> stdout: [result, ...]
        {"op": "validate_fixtures", "only": [..]} -> stdout: [difference, ...]
Debug : impl_codegen.py --fixture primer [--print-source]
        impl_codegen.py --file a.xsd [--opt '{"structure_style": "clusters"}'] [--print-source]
Run with PYTHONPATH=$XSDATA_REPO:/verif/shims (common.run_impl(..., with_shims=True)).
"""
import json
import os
import sys

sys.path.insert(0, os.path.dirname(os.path.abspath(__file__)))
import codegen_run as CR  # noqa: E402


def main():
    argv = sys.argv[1:]
    if argv:
        opts = json.loads(argv[argv.index("--opt") + 1]) if "--opt" in argv else {}
        if "--fixture" in argv:
            name = argv[argv.index("--fixture") + 1]
            spec = CR.FIXTURES[name]
            files, options = spec[0], dict(spec[1], **opts)
            sources = files if isinstance(files, str) else {dst: open(CR._fx(src), "rb").read().decode("utf-8")
                                                            for src, dst in files}
            job = {"sources": sources, "options": options, "entry": spec[3] if len(spec) > 3 else None, "timeout": 120}
        else:
            fn = argv[argv.index("--file") + 1]
            job = {"sources": {os.path.basename(fn): open(fn, encoding="utf-8").read()}, "options": opts}
        res = CR.run_job(job)
        if "--print-source" in argv:
            for m in res.get("packages", []) + res.get("modules", []):
                print("#" * 30, m["path"])
                print(m["source"])
            res = {k: v for k, v in res.items() if k not in ("modules", "packages", "classes")}
        json.dump(res, sys.stdout, indent=1, default=str)
        return
    req = json.load(sys.stdin)
    real_stdout = sys.stdout
    sys.stdout = sys.stderr  # anything the code under test prints must not corrupt the JSON answer
    if req["op"] == "jobs":
        out = [CR.run_job(j) for j in req["jobs"]]
    elif req["op"] == "validate_fixtures":
        out = CR.validate_fixtures(req.get("only"))
    else:
        raise KeyError(req["op"])
    sys.stdout = real_stdout
    json.dump(out, sys.stdout, default=str)


main()
