"""C05 — primitive values map to valid XSD lexical forms and back.

Deciding artefact: theorems of coq/Properties/C05.v over Model/Conv*.v.
Tie: regenerated tables (Gen/ConvTables.v, Gen/PyUnicode.v) + differential
correspondence model <-> implementation on generated strings / values / type lists.
Search: the specification (Spec/XsdPrims.v) evaluated in Coq on the
implementation's answers (ser output valid, XSD-valid forms accepted, priority),
and deser(ser v) = v on the implementation itself.
"""
import base64
import json
import math
import os
import re
import struct
import sys
import time
import unicodedata
from decimal import Decimal
from fractions import Fraction

sys.set_int_max_str_digits(0)  # the harness itself prints huge ints; the implementation subprocess keeps the default

from common import (Check, coq_bad_indices, run_impl, standard_proof_step, TRUSTED_COMMON, ROOT)
from coqterm import cZ, cstr, cbool, copt, clist, cbytes, cfloat_hex

IMPORTS = ("From XV Require Import Base.Str Base.Eqb Model.ConvBool Model.ConvInt Model.ConvBytes Model.ConvDecimal "
           "Model.ConvQName Model.ConvFloat Model.ConvEnum Model.ConvFactory Model.ConvAll Model.ConvDataType Model.ConvGuards Model.ConvCorr "
           "Spec.XsdPrims Spec.XsdDates.\nFrom Coq Require Import PrimFloat.")
WS = " \t\n\r"
PYWS = "\x0b\x0c\x1c\x1d\x1e\x1f\x85\xa0      　"
LAX = "+-_ .eE0159١٢２² \t\n\x1c\xa0"


def coq_bad(tag, ctype, pred, terms, workers=12, defs=""):
    """coq_bad_indices with the cases spread over `workers` shards of balanced size
    (large terms — 4300-digit numbers — would otherwise pile up in one shard)"""
    n = len(terms)
    if n == 0:
        return []
    k = min(workers, max(1, n // 40))
    size = -(-n // k)
    order = sorted(range(n), key=lambda i: -len(terms[i]))
    buckets = [[] for _ in range(k)]
    for j, i in enumerate(order):
        b = j % k if (j // k) % 2 == 0 else k - 1 - (j % k)
        if len(buckets[b]) >= size:
            b = min(range(k), key=lambda x: len(buckets[x]))
        buckets[b].append(i)
    perm = [i for b in buckets for i in b]
    # buckets may be shorter than `size` only at the end: pad by re-flowing
    perm_terms = [terms[i] for i in perm]
    bad = coq_bad_indices(tag, IMPORTS, defs, ctype, pred, perm_terms, shard=size)
    return sorted(perm[i] for i in bad)


def ws(r, p=0.5):
    if r.random() < p:
        return ""
    return "".join(r.choice(WS) for _ in range(r.choice([1, 1, 2, 3])))


def mutate(r, s, alphabet=LAX):
    if not s:
        return r.choice(alphabet)
    i = r.randrange(len(s))
    k = r.random()
    if k < 0.3:
        return s[:i] + s[i + 1:]
    if k < 0.65:
        return s[:i] + r.choice(alphabet) + s[i:]
    if k < 0.9:
        return s[:i] + r.choice(alphabet) + s[i + 1:]
    return s[:i]


def hexZ(z):
    return f"({'-' if z < 0 else ''}{hex(abs(z))})%Z"


def zval(res):
    """impl int value (hex string) -> python int"""
    return int(res, 16)


# ------------------------------------------------------------------ generators
def g_int_value(r):
    k = r.random()
    if k < 0.35:
        b = r.choice([15, 31, 63, 16, 32, 64, 7, 8])
        return r.choice([1, -1]) * (2 ** b) + r.choice([-2, -1, 0, 1, 2])
    if k < 0.5:
        return r.choice([0, 1, -1, 9, 10, -10, 99, 100, 32767, -32768, 32768, -32769, 2147483647, -2147483648,
                         2147483648, -2147483649, 9223372036854775807, -9223372036854775808, 9223372036854775808,
                         -9223372036854775809])
    if k < 0.85:
        return r.randint(-10 ** r.randint(1, 40), 10 ** r.randint(1, 40))
    return r.choice([1, -1]) * r.randint(10 ** 100, 10 ** r.randint(101, 400))


def near_limit_ints(r):
    """around the interpreter's int<->str digit limit (few: the terms are large)"""
    out = []
    for d in (4299, 4300, 4301, 5000):
        out += [10 ** (d - 1), -(10 ** d - 1)]
    out.append(r.choice([1, -1]) * r.randint(10 ** 4299, 10 ** 4300 - 1))
    out.append(r.choice([1, -1]) * r.randint(10 ** 4300, 10 ** 4301 - 1))
    out.append(r.randint(10 ** 1000, 10 ** r.randint(1001, 4200)))
    return out


def g_integer_sp(r):
    """an xs:integer spelling: (sign, digits)"""
    sign = r.choice(["", "", "+", "-"])
    k = r.random()
    if k < 0.65:
        ds = str(abs(g_int_value(r)))
    elif k < 0.9:
        ds = "0" * r.randint(1, 6) + str(r.randint(0, 10 ** r.randint(0, 20)))
    else:
        ds = "0" * r.randint(1, 5)
    return sign, ds


def near_limit_spellings(r):
    out = []
    for n in (4299, 4300, 4301):
        out += [("", "9" * n), ("-", "1" + "0" * (n - 1)), ("+", "0" * n)]
    out.append(("", "0" * 10 + str(r.randint(10 ** 4280, 10 ** 4289))))
    out.append(("-", "0" * 12 + str(r.randint(10 ** 4288, 10 ** 4289))))
    return out


def sp_term(sign, ds):
    return f"(mk_integer_sp {dict([('', 'SgNone'), ('+', 'SgPlus'), ('-', 'SgMinus')])[sign]} {cstr(ds)})"


INT_BAD = ["", " ", "+", "-", "+-1", "--1", "1.0", "1e5", "0x10", "0b1", "1_000", "_1", "1_", "1__0", "١٢٣", "１２", "1 2",
           "\xa01\xa0", "\x1c1", "1\x85", "+ 1", "- 1", "1+", "²", "1²", "٠", "1١", "0_0", "-_1", " 1", "1　",
           "1\x00", "﻿1", "NaN", "INF", "true", "1L", "0o7", "1.", ".1", "1,000", "٣_٤", "+٥", "߁"]
BOOL_BAD = ["True", "TRUE", "False", "yes", "no", "", " ", "01", "00", "+1", "-0", "1.0", "tr ue", "t", "truee", "true1",
            "\xa0true\x1c", " false", "1\x85", "0\x0b", "١", "１", "true\x00", "T", "on", "off", "null", "false0"]
B64_BAD = ["AAAA=", "AAAA====", "AB==", "AB=", "AB", "A", "A===", "====", "=AAA", "A=AA", "AB=C", "ABC=", "ABC==", "AB==AAAA",
           "AAA\n", "AA AA", "QQ==", "QR==", "QUI=", "QUJ=", "", "é", "AAAA\x00", "AA-_", "AA\xa0AA", "Q Q = =", "QQ=\n=",
           "QQ= =", "=", "==", "A=", "A==", "AAAAA", "AAAAAA", "AAAAAAA", "AAAAAA==", "AAAAAAA=", "AAAAAA=", "AAAA==",
           "AAAAAAAA=", "QUJD", "QUJDRA==", "QUJDRA=", "QUJDRA", "QUJDR===", "AAAAＡ", "AAA٠", "AA AA", "AA\x1cAA",
           "Q\tU\nJ\rD", " QUJD ", "Z+/=", "Z+/+", "Zm9v\r\nYmFy", "Zm9vYmF=", "Zm9vYmE=", "Zm9vYh==", "Zm9vYg=="]
HEX_BAD = ["", "0", "0g", "aB", "AbCd", " a b ", "a\xa0b", "a\x1cb", "é0", "٠٠", "a_b", "0x00", "00 11", "001", "gg", "+1",
           "-1", "0 ", " 0", "0\n0", "FFff", "１２", "ab\x00", "A", "ABC", "abcdefgh", " ab", "a　b", "aA0"]


def g_bytes(r, n):
    k = r.random()
    if k < 0.15:
        return bytes([r.choice([0, 255, 0x3e, 0x3f, 0xfb, 0xff])] * n)
    return bytes(r.randrange(256) for _ in range(n))


def inject_ws(r, s, chars=WS, p=0.15):
    out = []
    for c in s:
        if r.random() < p:
            out.append("".join(r.choice(chars) for _ in range(r.choice([1, 1, 2]))))
        out.append(c)
    if r.random() < 0.3:
        out.append(r.choice(chars))
    return "".join(out)



# ---------------------------------------------------------------- Decimal
def g_digits(r, lo=1, hi=400):
    n = r.choice([1, 1, 2, 3, 5, 9, 17, 18, 19, 20, 40]) if r.random() < 0.8 else r.randint(lo, hi)
    return "".join(r.choice("0123456789") for _ in range(n))


def g_dec_value(r):
    k = r.random()
    if k < 0.08:
        return r.choice([[0, "0", "F"], [1, "0", "F"], [0, "", "n"], [1, "", "n"], [0, "", "N"], [0, "123", "n"], [1, "7", "N"]])
    ds = g_digits(r).lstrip("0") or "0"
    if r.random() < 0.15:
        ds = "0"
    e = r.choice([0, 0, -1, -2, -3, 1, 2, 3, -len(ds), -len(ds) - 1, -len(ds) + 1, r.randint(-400, 400), r.randint(-30, 30)])
    return [r.choice([0, 0, 1]), ds, e]


def g_decimal_sp(r):
    sign = r.choice(["", "", "+", "-"])
    k = r.random()
    ip = g_digits(r, 1, 400) if k < 0.85 else ""
    if k >= 0.85:
        fp = g_digits(r)
    else:
        fp = r.choice([None, None, "", g_digits(r), g_digits(r, 1, 400), "0", "000", "50"])
    if r.random() < 0.2:
        ip = "0" * r.randint(1, 4) + ip
    return sign, ip, fp


def dec_sp_lex(sp):
    sign, ip, fp = sp
    return sign + ip + ("" if fp is None else "." + fp)


SIGN = {"": "SgNone", "+": "SgPlus", "-": "SgMinus"}


def dec_sp_term(sp):
    sign, ip, fp = sp
    return f"(mk_decimal_sp {SIGN[sign]} {cstr(ip)} {copt(fp, cstr)})"


def hexN(n):
    return f"({hex(n)})%N"


def pydec_term(v):
    """[sign, digits, exp] (as_tuple) -> Model.ConvDecimal.pydec term"""
    sign, ds, e = v
    if e == "F":
        return f"(DInf {cbool(sign)})"
    if e in ("n", "N"):
        return f"(DNaN {cbool(sign)} {cbool(e == 'N')} {hexN(int(ds or '0'))})"
    return f"(DFin {cbool(sign)} {hexN(int(ds or '0'))} {cZ(e)})"


DEC_BAD = ["", " ", ".", "+", "-", "e5", "1e", "1e+", "1e5.", "1.2.3", "1ee5", "++1", "+-1", "1 5", "1 .5", "\x001", "1\x00", "NaN", "nan", "-NaN",
           "sNaN", "snan12", "NaN123", "NaN0", "NaN007", "nanx", "Inf", "inf", "-Infinity", "INFINITY", "iNf", "infinit", "infinityx", "in_f",
           "I_N_F", "n_an", "1_0", "_1", "1_", "1__0", "_", "1e_5", "1_e5", "+_1", "_._5", "١٢", "１２.５", "1١", "٣e٢", "1\xa05", "\xa01\xa0",
           "\x1c1", "1\x85", "1 5", "1e+5", "1E-5", "1e05", "5.", ".5", "0e0", "-0", "-0.0", "+0.00", "00.10", "1e400", "1e-400",
           "1e999999999999999999", "1e1000000000000000000", "0e999999999999999999", "0e1000000000000000000", "1e-1999999999999999997",
           "1e-1999999999999999998", "0e-1999999999999999998", "1e99999999999999999999999", "0e-99999999999999999999999",
           "1.5e-1999999999999999996", "1.5e-1999999999999999997", "10e999999999999999998", "10e999999999999999999",
           "00e999999999999999999", "0.0e1000000000000000000", "1,5", "0x10", "1.5f", "1d5", "²", "1²", "é", "1\ud800"]

# ---------------------------------------------------------------- QName
LOCALS = ["x\u1680", "\u1680x", "a", "x", "local", "A1", "a.b", "a-b", "a_b", "_a", "a·b", "été", "ü", "Ωmega", "名前", "a1-2.3_4", "int", "type", "a\u0301", "e\u0301t",
          "a\u203fb", "a\u0387", "a\u0660", "\u3001x", "\u2070a", "a\u2070", "\u00aa", "a\u00b2", "a\u200c", "a\u0300\u0301", "x\u036f", "\u00c0\u00d6",
          "a\u0e31", "a\u093e", "nb\u0951", "k\u30fc"]
BAD_LOCALS = ["", "1a", "-a", ".a", "a b", "a:b", "a\tb", " a", "a ", "a}", "{a", "a\xa0", "²", "a/b", "a#"]
URIS = ["urn:a", "urn:b", "http://example.com/ns", "http://www.w3.org/2001/XMLSchema", "http://www.w3.org/2001/XMLSchema-instance",
        "http://www.w3.org/XML/1998/namespace", "http://www.w3.org/1999/xlink", "urn:x-y", "a", "foo", "http://a/b#c", "urn:ü", "a b", "urn:a}b",
        "abc\n", "#f", "a#", "http://x.y/z?q=1&r=2", "a\\b", "urn:a^b", "mailto:x@y.z", "//host/p", "///p", "////p", "x+y:z", "1a:b", "a:b:c",
        "http://[::1]/", "{u", "u:a~b!c*d'(e)%20", "a\nb", "\n", "#", "a##b", "http://a/%zz", "urn:isbn:0-395-36341-1"]
PREFIXES = ["a", "p", "xs", "xsi", "ns0", "ns1", "ns2", "pre.fix", "p-q", "_p", "é"]
BAD_PREFIXES = ["", "a:b", " p", "p ", "{p", "1p", "a b"]


def g_nsmap(r, want_uri=None):
    """a prefix map as a list of [prefix|None, uri] with distinct keys, or None"""
    k = r.random()
    if k < 0.2:
        return None
    m = []
    n = r.choice([0, 0, 1, 1, 2, 3, 4])
    keys = set()
    for _ in range(n):
        p = r.choice(PREFIXES + [None, None]) if r.random() < 0.92 else r.choice(BAD_PREFIXES)
        if p in keys:
            continue
        keys.add(p)
        u = r.choice(URIS[:8]) if r.random() < 0.9 else r.choice(URIS + [""])
        m.append([p, u])
    if want_uri is not None and r.random() < 0.6 and not any(u == want_uri for _, u in m):
        p = r.choice(PREFIXES + [None])
        if p not in keys:
            m.insert(r.randrange(len(m) + 1), [p, want_uri])
    return m


def nsmap_term(m):
    if m is None:
        return "None"
    return "(Some " + clist(m, lambda e: f"({copt(e[0], cstr)}, {cstr(e[1])})", "(option str * str)") + ")"


def nsmap_term_plain(m):
    return clist(m, lambda e: f"({copt(e[0], cstr)}, {cstr(e[1])})", "(option str * str)")


def qtext(uri, local):
    return "{%s}%s" % (uri, local) if uri else local


QNAME_BAD = ["", " ", "a:", ":a", ":", "a:b:c", " a : b", "a :b", "a: b", "{u}x y", "{u}", "{}x", "{u", "u}x", "{{u}}x", "{u}{v}x", "{u}x}",
             "{a b}x", "{urn:a-b}x", "{urn:a}x", " {urn:a}x ", "{urn:a}\nx", "{urn:a\n}x", "{\n}x", "{#f}x", "{a#}x", "{urn:a}1x", "{urn:a}x:y",
             "\xa0a:b\x1c", "a:b\n", "xs:int", "xsi:type", "p:a\u0301", "p:\u00aa", "a\u0301", "ª", "1a", "-a", "p:1a", "p: a", "p:a b", "é:é", "p:名前",
             "{http://www.w3.org/2001/XMLSchema-instance}type", "{http://www.w3.org/2001/XMLSchema}int", "ns0:a", "unk:a", "{urn:a}", "{urn:a}\u0301"]

# ---------------------------------------------------------------- float
def g_float(r):
    k = r.random()
    if k < 0.12:
        return r.choice([0.0, -0.0, 1.0, -1.0, 0.1, 1e22, 1e23, 1e16, 1e15, 9007199254740993.0, 5e-324, 2.2250738585072014e-308,
                         2.225073858507201e-308, 1.7976931348623157e308, 1e-5, 1e-4, 123456789.123, 0.30000000000000004, 1e21, 1e-7,
                         3.402823466e38, -1.175494351e-38, 1.175494351e-38, 1.5, 100.0, 1e100, 4.9e-324])
    if k < 0.16:
        return r.choice([float("inf"), float("-inf"), float("nan")])
    if k < 0.6:
        return struct.unpack("<d", struct.pack("<Q", r.getrandbits(64)))[0]
    if k < 0.8:
        return r.uniform(-1000, 1000)
    return r.choice([1, -1]) * r.random() * 10.0 ** r.randint(-320, 308)


def fenc(x):
    return {"t": "float", "v": x.hex() if x == x and abs(x) != float("inf") else repr(x)}


def g_double_sp(r):
    k = r.random()
    if k < 0.06:
        return ("inf", r.choice(["", "+", "-"]))
    if k < 0.09:
        return ("nan",)
    sign, ip, fp = g_decimal_sp(r)
    ip, fp = ip[:r.choice([1, 3, 20, 400])], (None if fp is None else fp[:r.choice([1, 3, 20, 400])])
    if not ip and not fp:
        ip = "0"
    ex = None
    if r.random() < 0.6:
        ex = (r.random() < 0.5, r.choice(["", "+", "-"]), str(r.choice([0, 1, 5, 22, 307, 308, 309, 324, 400, r.randint(0, 30)])).zfill(r.choice([1, 1, 2, 3])))
    return ("num", (sign, ip, fp), ex)


def double_sp_lex(d):
    if d[0] == "inf":
        return d[1] + "INF"
    if d[0] == "nan":
        return "NaN"
    _, m, ex = d
    return dec_sp_lex(m) + ("" if ex is None else ("E" if ex[0] else "e") + ex[1] + ex[2])


def double_sp_term(d):
    if d[0] == "inf":
        return f"(DbInf {SIGN[d[1]]})"
    if d[0] == "nan":
        return "DbNaN"
    _, m, ex = d
    et = "None" if ex is None else f"(Some (mk_exp_sp {cbool(ex[0])} {SIGN[ex[1]]} {cstr(ex[2])}))"
    return f"(DbNum {dec_sp_term(m)} {et})"


FLOAT_BAD = ["1e", "1e+", "1_0", "1__0", "_1", "1_", "1_.5", "1._5", "1e_5", "1e1_0", "1_0.0_1e1_0", "\x1c1", " 1 ", "1\xa0", "\xa0 1", "١٢", "1٢", "in_f", "nan",
             "-nan", "+NaN", "nan1", "infinity", "-Infinity", "Infinit", "inf", "+inf", "INFINITY", "1 2", "0x1p3", "1.", ".", ".5e1", "1E+05", "١e٢", "1\x00",
             "é", "", "  ", "1e5 ", "+ 1", "--1", "1ee5", "1.2.3", "1e5.0", "1e400", "1e-400", "-1e-400", "0e999999999", "1d5", "1f", "1L", "1,5", "１.５",
             "٣.١٤", "1　", "\t1\n", "\x0b1\x0c", "1\x85", "-.5", "+.5e-3", "-0", "-0.0", "00.1", "9007199254740993", "0.1e1_", "1e+_5", "_", "1e٥"]


def float_reading(s):
    """an independent reading of a text float() accepted: normalise, then Decimal"""
    t = "".join(str(unicodedata.decimal(c)) if c.isdecimal() else c for c in s).strip().replace("_", "")
    low = t.lower()
    if "inf" in low:
        return ("inf", t.startswith("-"))
    if "nan" in low:
        return ("nan", t.startswith("-"))
    mt = re.fullmatch(r"([+-]?)([0-9]*)(?:\.([0-9]*))?(?:[eE]([+-]?[0-9]+))?", t)
    ip, fp, ex = mt.group(2), mt.group(3) or "", int(mt.group(4) or "0")
    return ("fin", 1 if mt.group(1) == "-" else 0, int(ip + fp), ex - len(fp))


def reading_round(rd):
    if rd[0] == "inf":
        return float("-inf") if rd[1] else float("inf")
    if rd[0] == "nan":
        return float("nan")
    _, sign, c, e = rd
    if c == 0:
        return -0.0 if sign else 0.0
    if abs(e) > 5000:
        x = float("inf") if e > 0 else 0.0
        return -x if sign else x
    fr = Fraction(c) * (Fraction(10) ** e)
    try:
        x = float(fr)
    except OverflowError:
        x = float("inf")
    return -x if sign else x


def fsyn_term(rd):
    if rd is None:
        return "None"
    if rd[0] == "inf":
        return f"(Some (FsInf {cbool(rd[1])}))"
    if rd[0] == "nan":
        return f"(Some (FsNan {cbool(rd[1])}))"
    return f"(Some (FsFin {cbool(rd[1])} {hexN(rd[2])} {cZ(rd[3])}))"


# ---------------------------------------------------------------- enums
def atom_term(v):
    t, x = v["t"], v["v"]
    if t == "str":
        return f"(AStr {cstr(x)})"
    if t == "int":
        return f"(AInt {hexZ(zval(x))})"
    if t == "bool":
        return f"(ABool {cbool(x)})"
    if t == "Decimal":
        return f"(ADec {pydec_term(x)})"
    if t == "QName":
        return f"(AQName {cstr(x)})"
    raise ValueError(t)


def evalue_term(v):
    if v["t"] == "tuple":
        return f"(EvTuple {clist(v['v'], atom_term, 'atom')})"
    if v["t"] == "list":
        return f"(EvList {clist(v['v'], atom_term, 'atom')})"
    return f"(EvAtom {atom_term(v)})"


def enum_def_term(members):
    return clist(members, lambda m: f"({cstr(m[0])}, {evalue_term(m[1])})", "(str * evalue)")


def S_(x):
    return {"t": "str", "v": x}


def I_(x):
    return {"t": "int", "v": hex(x)}


ENUMS = [
    [["A", S_("a")], ["B", S_("b c")], ["C", S_("x  y")], ["D", S_("d")], ["E", S_("")], ["F", S_("1")], ["G", S_("true")]],
    [["A", S_(" lead")], ["B", S_("trail ")], ["C", S_("a\tb")], ["D", S_("ok")], ["E", S_("a b")]],
    [["ONE", I_(1)], ["TWO", I_(2)], ["NEG", I_(-7)], ["BIG", I_(2 ** 70)], ["ZERO", I_(0)]],
    [["T", {"t": "bool", "v": True}], ["F", {"t": "bool", "v": False}]],
    [["AB", {"t": "tuple", "v": [S_("a"), S_("b")]}], ["N12", {"t": "tuple", "v": [I_(1), I_(2)]}], ["ONE", {"t": "tuple", "v": [S_("z")]}],
     ["EMPTY", {"t": "tuple", "v": []}]],
    [["PQ", {"t": "list", "v": [S_("p"), S_("q")]}], ["N", {"t": "list", "v": [I_(3), I_(4), I_(5)]}]],
    [["D1", {"t": "Decimal", "v": [0, "150", -2]}], ["D2", {"t": "Decimal", "v": [1, "2", 0]}], ["D3", {"t": "Decimal", "v": [0, "1", 3]}]],
    [["Q1", {"t": "QName", "v": "{urn:a}b"}], ["Q2", {"t": "QName", "v": "c"}], ["Q3", {"t": "QName", "v": "{http://www.w3.org/2001/XMLSchema}int"}]],
    [["S", S_("1")], ["I", I_(10)], ["M", {"t": "tuple", "v": [S_("1"), I_(0)]}]],
    [["X", S_("a b")], ["Y", S_("a\tb")], ["Z", S_("a  b")]],
]
ENUM_STRINGS = ["a", "b c", " b   c ", "b\tc", "x  y", "x y", "d", "", " ", "1", "true", " lead", "lead", "trail ", "trail", "a\tb", "a b", "ok", "2", " 2 ", "02",
                "+2", "-7", "1_0", "١", str(2 ** 70), "0", "-0", "false", "0", "TRUE", "a b ", "1 2", "1  2", "01 2", "z", "p q", "3 4 5", "3 4", "1.50", "1.5",
                "15e-1", "-2", "-2.0", "1000", "1e3", "1E+3", "{urn:a}b", "n:b", "c", "xs:int", "{http://www.w3.org/2001/XMLSchema}int", "1 0", "10", "1 00",
                "a  b", "nope", "1 2 3", "\xa0a\xa0"]

FACTORY_ENUMS = [ENUMS[0], ENUMS[1], ENUMS[2], ENUMS[3]]
def g_period_sp(r):
    """an XSD g* spelling: (Spec.XsdDates.period_sp term, literal)"""
    def year():
        k = r.random()
        ds = ("0000" if k < 0.3 else "%04d" % r.choice([1, 4, 99, 999, 2000, 9999]) if k < 0.7 else str(r.randint(10000, 10 ** r.randint(5, 12))))
        neg = r.random() < 0.3
        return ("-" if neg else "") + ds, f"(mk_year_sp {cbool(neg)} {cstr(ds)})"
    k = r.random()
    if k < 0.4:
        tz, tzt = "", "TzNone"
    elif k < 0.6:
        tz, tzt = "Z", "TzZ"
    else:
        neg, hh, mm = r.random() < 0.5, r.randint(0, 13), r.randint(0, 59)
        if r.random() < 0.2:
            hh, mm = 14, 0
        tz, tzt = ("-" if neg else "+") + "%02d:%02d" % (hh, mm), f"(TzOff {cbool(neg)} {cZ(hh)} {cZ(mm)})"
    shape = r.randrange(5)
    mo, d = r.randint(1, 12), r.randint(1, 28)
    if shape == 0:
        return f"(GDay {cZ(d)} {tzt})", "---%02d" % d + tz
    if shape == 1:
        return f"(GMonth {cZ(mo)} {tzt})", "--%02d" % mo + tz
    if shape == 2:
        return f"(GMonthDay {cZ(mo)} {cZ(d)} {tzt})", "--%02d-%02d" % (mo, d) + tz
    ys, yt = year()
    if shape == 3:
        return f"(GYear {yt} {tzt})", ys + tz
    return f"(GYearMonth {yt} {cZ(mo)} {tzt})", ys + "-%02d" % mo + tz


FV_OTHERS = [("bool", {"t": "bool", "v": True}), ("bool", {"t": "bool", "v": False}), ("str", {"t": "str", "v": "x"}), ("str", {"t": "str", "v": ""}),
             ("Decimal", {"t": "Decimal", "v": [0, "150", -2]}), ("Decimal", {"t": "Decimal", "v": [1, "7", 3]}), ("QName", {"t": "QName", "v": "{urn:a}b"}),
             ("bytes", {"t": "bytes", "v": [1, 2]}), ("XmlHexBinary", {"t": "XmlHexBinary", "v": [1, 2]}), ("XmlBase64Binary", {"t": "XmlBase64Binary", "v": [1]}),
             ("XmlDate", {"t": "XmlDate", "v": "2002-01-02"}), ("XmlTime", {"t": "XmlTime", "v": "12:00:00Z"}), ("XmlDateTime", {"t": "XmlDateTime", "v": "2002-01-02T12:00:00"}),
             ("XmlDuration", {"t": "XmlDuration", "v": "P1Y2M"}), ("date", {"t": "date", "v": "2020-01-02"}), ("Unreg0", {"t": "Unreg0", "v": None})]

DT_FORMATS = {
    "date": ["%Y-%m-%d", "%d/%m/%Y", "%Y%m%d", "%Y-%j"],
    "time": ["%H:%M:%S", "%H:%M:%S.%f", "%H%M%S", "%I:%M:%S %p"],
    "datetime": ["%Y-%m-%dT%H:%M:%S", "%Y-%m-%dT%H:%M:%S.%f", "%Y-%m-%d %H:%M:%S", "%d.%m.%Y %H:%M:%S", "%Y-%m-%dT%H:%M:%S%z"],
}


def g_dt_value(r, kind, fmt):
    import datetime as _dt
    y = r.choice([1, 9, 99, 100, 999, 1000, 1582, 1900, 1970, 2000, 2024, 9999, r.randint(1, 9999), r.randint(1000, 9999), r.randint(1000, 9999)])
    mo = r.randint(1, 12)
    d = r.randint(1, 28) if r.random() < 0.8 else r.choice([29, 30, 31])
    try:
        date = _dt.date(y, mo, d)
    except ValueError:
        date = _dt.date(y, mo, 28)
    us = r.choice([0, 1, 999999, 500000, r.randrange(1000000)]) if "%f" in fmt else 0
    time = _dt.time(r.randint(0, 23), r.randint(0, 59), r.randint(0, 59), us)
    if kind == "date":
        return date
    if kind == "time":
        return time
    tz = None
    if "%z" in fmt:
        tz = _dt.timezone(_dt.timedelta(minutes=r.choice([0, 60, -300, 330, 840, -840, r.randint(-840, 840)])))
    return _dt.datetime.combine(date, time, tzinfo=tz)


DOC_POOL = ["int", "bool", "float", "Decimal", "QName", "str"]
TYPE_POOL = ["int", "bool", "str", "bytes", "object", "Unreg0", "Unreg1", "float", "Decimal", "QName", "Enum:0", "Enum:2", "Enum:3"]


def ty_term(name):
    if name.startswith("Unreg"):
        return f"(TUnreg {int(name[5:])})"
    if name.startswith("Enum:"):
        return f"(TEnum {int(name[5:])})"
    return f"(TName {cstr(name)})"


def value_term(v, src=None, enums=None):
    """impl-encoded value -> Model.ConvAll.value term (src: the input text, for floats)"""
    t, x = v["t"], v["v"]
    if t == "int":
        return f"(VInt {hexZ(zval(x))})"
    if t == "bool":
        return f"(VBool {cbool(x)})"
    if t == "str":
        return f"(VStr {cstr(x)})"
    if t in ("bytes", "XmlHexBinary", "XmlBase64Binary"):
        return f"(VBytes BPlain {cbytes(bytes(x))})"
    if t == "Decimal":
        return f"(VDec {pydec_term(x)})"
    if t == "QName":
        return f"(VQName {cstr(x)})"
    if t == "float":
        return "(VFloat " + fsyn_term(float_reading(src))[6:-1] + ")"
    if t == "Enum":
        names = [m[0] for m in enums[x[0]]]
        return f"(VEnum {x[0]}%nat {names.index(x[1])}%nat)"
    raise ValueError(t)


def kw_term(fmt, nsm=None):
    return f"(mk_kwargs {copt(fmt, cstr)} {nsmap_term(nsm)})"


def replay(ck: Check):
    """./check C05 --replay FILE: run the recorded operation on the current implementation
    and report whether the recorded (failing) answer is still what it gives."""
    rec = json.load(open(ck.replay_file))
    rp = rec.get("replay") or {}
    op = rp.get("op")
    if not isinstance(op, dict) or "op" not in op:
        print(f"replay: {ck.replay_file} holds no operation ({rec.get('broken') or rec.get('class')}); run the full check")
        return 2
    now = run_impl("impl_c05.py", [op])[0]
    print(f"replay: class={rec.get('class')} op={str(op)[:300]}")
    print(f"replay: recorded implementation answer: {str(rp.get('impl'))[:300]}")
    print(f"replay: current  implementation answer: {str(now)[:300]}")
    if now == rp.get("impl"):
        print(f"VIOLATION property=C05 replay={ck.replay_file}")
        return 1
    print("replay: the recorded answer is no longer reproduced")
    return 0


def run(ck: Check):
    if getattr(ck, "replay_file", None):
        return replay(ck)
    ck.level = "proof"
    obligations, discharged, axioms = standard_proof_step(ck, extra_targets=["Model/ConvCorr.vo"])
    r = ck.rng
    N = ck.n(1, 20)
    ops, meta = [], []

    def add(op, **m):
        ops.append(op)
        meta.append(m)

    # ---------------- bool
    for core in ("true", "false", "1", "0"):
        for _ in range(6 * N):
            a, b = ws(r, 0.3), ws(r, 0.3)
            add({"op": "deser", "types": ["bool"], "s": a + core + b}, kind="bool_deser", sp=(a, core, b))
    for s in BOOL_BAD:
        add({"op": "deser", "types": ["bool"], "s": s}, kind="bool_deser", sp=None)
    for _ in range(40 * N):
        s = mutate(r, r.choice(["true", "false", "1", "0"]), "truefalsTF01 \t\xa0+")
        add({"op": "deser", "types": ["bool"], "s": s}, kind="bool_deser", sp=None)
    for v in (True, False):
        add({"op": "roundtrip", "type": "bool", "v": {"t": "bool", "v": v}}, kind="bool_ser")

    # ---------------- int
    for sign, ds in [g_integer_sp(r) for _ in range(150 * N)] + near_limit_spellings(r):
        a, b = ws(r), ws(r)
        add({"op": "deser", "types": ["int"], "s": a + sign + ds + b}, kind="int_deser", sp=(a, sign, ds, b))
    for s in INT_BAD:
        add({"op": "deser", "types": ["int"], "s": s}, kind="int_deser", sp=None)
    for _ in range(120 * N):
        sign, ds = g_integer_sp(r)
        s = mutate(r, (sign + ds)[:r.choice([3, 8, 30, 500])])
        if r.random() < 0.3:
            s = r.choice(PYWS + WS) + s + r.choice(PYWS + WS)
        add({"op": "deser", "types": ["int"], "s": s}, kind="int_deser", sp=None)
    boundary = [s_ * (2 ** b_) + d_ for b_ in (7, 8, 15, 16, 31, 32, 63, 64) for s_ in (1, -1) for d_ in (-1, 0, 1)] + [0, 1, -1, 10, -10]
    for z in boundary + [g_int_value(r) for _ in range(100 * N)] + near_limit_ints(r):
        add({"op": "roundtrip", "type": "int", "v": {"t": "int", "v": hex(z)}}, kind="int_ser", z=z)
        add({"op": "from_value", "v": {"t": "int", "v": hex(z)}}, kind="int_datatype", z=z)

    # ---------------- bytes
    for n in range(0, 71):
        for rep in range(N):
            bs = g_bytes(r, n)
            for fmt, vt in (("base16", "bytes"), ("base64", "bytes"), (None, "XmlHexBinary"), (None, "XmlBase64Binary"),
                            (None, "bytes"), ("base64", "XmlHexBinary"), ("x", "bytes")):
                if vt != "bytes" and fmt is not None and n % 7:
                    continue
                add({"op": "ser", "v": {"t": vt, "v": list(bs)}, "format": fmt}, kind="bytes_ser", b=bs, fmt=fmt, vt=vt)
            # valid literals: either case for hex; whitespace where XSD allows it
            hx = "".join(r.choice([c.lower(), c.upper()]) for c in bs.hex())
            a, b = ws(r), ws(r)
            add({"op": "deser", "types": ["bytes"], "s": a + hx + b, "format": "base16"}, kind="hex_deser", sp=(a, hx, b))
            b64 = base64.b64encode(bs).decode()
            add({"op": "deser", "types": ["bytes"], "s": inject_ws(r, b64), "format": "base64"}, kind="b64_deser")
            if r.random() < 0.6:
                add({"op": "deser", "types": ["bytes"], "s": mutate(r, hx, "0aAfFgG \n\xa0_"), "format": "base16"},
                    kind="hex_deser", sp=None)
                add({"op": "deser", "types": ["bytes"], "s": mutate(r, inject_ws(r, b64, WS + PYWS, 0.05), "=AQgwBZz09+/-_ \n\xa0"),
                     "format": "base64"}, kind="b64_deser")
    for s in B64_BAD:
        add({"op": "deser", "types": ["bytes"], "s": s, "format": "base64"}, kind="b64_deser")
    for s in HEX_BAD:
        add({"op": "deser", "types": ["bytes"], "s": s, "format": "base16"}, kind="hex_deser", sp=None)
    for s in ("00", "AAAA", ""):
        for fmt in (None, "x", "BASE16", "base32"):
            add({"op": "deser", "types": ["bytes"], "s": s, "format": fmt}, kind="other_fmt_deser")

    # ---------------- Decimal
    for _ in range(150 * N):
        sp = g_decimal_sp(r)
        a, b = ws(r), ws(r)
        add({"op": "deser", "types": ["Decimal"], "s": a + dec_sp_lex(sp) + b}, kind="dec_deser", sp=(a, sp, b))
    for x in DEC_BAD:
        add({"op": "deser", "types": ["Decimal"], "s": x}, kind="dec_deser", sp=None)
    for _ in range(150 * N):
        x = dec_sp_lex(g_decimal_sp(r))[:r.choice([4, 10, 40, 500])]
        if r.random() < 0.4:
            x += r.choice("eE") + r.choice(["", "+", "-"]) + str(r.randint(0, 400))
        x = mutate(r, x, LAX + "nNaAiIfFsS")
        if r.random() < 0.25:
            x = r.choice(PYWS + WS) + x + r.choice(PYWS + WS)
        add({"op": "deser", "types": ["Decimal"], "s": x}, kind="dec_deser", sp=None)
    # the witnesses of the refutation lemmas / known findings come first, then generated values
    for v in [[0, "0", "F"], [1, "0", "F"], [0, "", "n"]] + [g_dec_value(r) for _ in range(150 * N)]:
        add({"op": "roundtrip", "type": "Decimal", "v": {"t": "Decimal", "v": v}}, kind="dec_ser", v=v)

    # ---------------- QName
    fixed_q = [([["p", "urn:a"]], "p", "x\u1680"), ([["p", "urn:a"]], "p", "a\u0301"), ([], None, "a\u0301"), ([["p", "urn:a"]], "p", "x\u203fy")]
    for n in range(120 * N + len(fixed_q)):
        if n < len(fixed_q):
            m, prefix, local = fixed_q[n]
        else:
            uri = r.choice(URIS[:8])
            m = g_nsmap(r, uri) or []
            bound = [p for p, u in m if p]
            k = r.random()
            prefix = r.choice(bound) if bound and k < 0.6 else (None if k < 0.85 else r.choice(PREFIXES))
            local = r.choice(LOCALS)
        a, b = ws(r), ws(r)
        lex = (prefix + ":" if prefix is not None else "") + local
        add({"op": "deser", "types": ["QName"], "s": a + lex + b, "ns_map": m}, kind="qname_deser", sp=(a, prefix, local, b), m=m)
    for _ in range(100 * N):
        x = r.choice(QNAME_BAD) if r.random() < 0.6 else mutate(r, r.choice(["p:local", "{urn:a}b", "xs:int", "a"]), "{}: \n-_.#é́")
        m = g_nsmap(r, "urn:a")
        add({"op": "deser", "types": ["QName"], "s": x, "ns_map": m}, kind="qname_deser", sp=None, m=m)
    for _ in range(40 * N):
        x = "{" + r.choice(URIS) + "}" + r.choice(LOCALS + BAD_LOCALS)
        add({"op": "deser", "types": ["QName"], "s": x, "ns_map": None}, kind="qname_deser", sp=None, m=None)
    fixed_v = [("urn:a", "x\u1680", None), ("http://www.w3.org/2001/XMLSchema-instance", "type", None), (None, "x", [[None, "urn:d"]]), ("urn:x-y", "a", None), ("urn:\u00fc", "x", None),
               ("urn:a", "b", [["ns1", "urn:b"]]), ("urn:a", "b", [[None, "urn:a"]]), ("http://www.w3.org/2001/XMLSchema", "int", []),
               # generate_prefix (repo e811fed): a taken standard prefix, taken ns<k> candidates
               ("http://www.w3.org/2001/XMLSchema", "int", [["xs", "urn:o"]]), ("urn:c", "x", [["ns2", "urn:u"], ["ns3", "urn:v"], ["a", "urn:a"]]),
               ("urn:c", "x", [["ns1", "urn:u"]]), ("http://www.w3.org/2001/XMLSchema-instance", "nil", [["xsi", "urn:o"], ["ns1", "urn:p"]]),
               # runs of taken candidates: ns<len>, ns<len+1>, ... are all bound (seed C05-r5m2: a single retry)
               ("urn:c", "x", [["ns2", "urn:u"], ["ns3", "urn:v"]]), ("urn:c", "x", [["ns3", "urn:u"], ["ns4", "urn:v"], ["ns5", "urn:a"]]),
               ("urn:c", "x", [["ns1", "urn:u"], ["ns2", "urn:v"], ["ns3", "urn:a"], ["ns4", "urn:b"]]),
               ("http://www.w3.org/2001/XMLSchema", "int", [["xs", "urn:o"], ["ns2", "urn:u"], ["ns3", "urn:v"]])]
    for n in range(180 * N + len(fixed_v)):
        if n < len(fixed_v):
            uri, local, m = fixed_v[n]
        else:
            uri = r.choice([None, None] + URIS[:8] * 3 + URIS)
            local = r.choice(LOCALS) if r.random() < 0.93 else r.choice(BAD_LOCALS[1:])
            m = g_nsmap(r, uri)
            if m is not None and r.random() < 0.12:
                # a map whose generated-prefix candidates are taken: ns<k> .. ns<k+j> starting at or just after len(map)
                j = r.randint(1, 3)
                k0 = len(m) + j + r.choice([-1, 0, 0, 0, 1])
                m = [e for e in m if not (e[0] or "").startswith("ns")] + [[f"ns{k0 + i}", r.choice(URIS[:8])] for i in range(j)]
        add({"op": "roundtrip", "type": "QName", "v": {"t": "QName", "v": qtext(uri, local)}, "ns_map": m}, kind="qname_ser", uri=uri, local=local, m=m)
        add({"op": "ser", "v": {"t": "QName", "v": qtext(uri, local)}, "ns_map": m}, kind="qname_ser2", uri=uri, local=local, m=m)

    # ---------------- float
    fixed_f = [float("inf"), float("-inf"), float("nan"), 0.0, -0.0, 5e-324, 2.2250738585072014e-308, 1.7976931348623157e308, 1e22, 1e16, 1e-5,
               0.1, 1e21, 123456789.123, 1.0, -1.5]
    for x in fixed_f + [g_float(r) for _ in range(190 * N)]:
        add({"op": "float_facts", "x": fenc(x)["v"]}, kind="float_facts", x=x)
        add({"op": "roundtrip", "type": "float", "v": fenc(x)}, kind="float_ser", x=x)
        add({"op": "from_value", "v": fenc(x)}, kind="float_datatype", x=x)
    for _ in range(150 * N):
        d = g_double_sp(r)
        a, b = ws(r), ws(r)
        add({"op": "deser", "types": ["float"], "s": a + double_sp_lex(d) + b}, kind="float_deser", sp=(a, d, b))
    for x in FLOAT_BAD:
        add({"op": "deser", "types": ["float"], "s": x}, kind="float_deser", sp=None)
    for _ in range(150 * N):
        x = mutate(r, double_sp_lex(g_double_sp(r))[:r.choice([5, 12, 40])], LAX + "nNaAiIfFxXpP")
        if r.random() < 0.25:
            x = r.choice(PYWS + WS) + x + r.choice(PYWS + WS)
        add({"op": "deser", "types": ["float"], "s": x}, kind="float_deser", sp=None)

    # ---------------- enums
    for k, members in enumerate(ENUMS):
        for x in ENUM_STRINGS:
            if r.random() < 0.75 or N > 1:
                m = r.choice([None, [["n", "urn:a"], ["xs", "http://www.w3.org/2001/XMLSchema"]], [[None, "urn:a"]]]) if k == 7 else None
                op = {"op": "deser", "types": ["Enum:0"], "enums": [members], "s": x}
                if m is not None:
                    op["ns_map"] = m
                add(op, kind="enum_deser", members=members, m=m)
        for j, (name, v) in enumerate(members):
            for m in ([None, [], [["n", "urn:a"]]] if k == 7 else [None]):
                op = {"op": "roundtrip", "type": "Enum:0", "enums": [members], "v": {"t": "Enum", "v": [0, j]}}
                if k == 7:
                    op["ns_map"] = m
                add(op, kind="enum_ser", members=members, j=j, m=m)

    # ---------------- DataType.from_value (the datatype written as xsi:type)
    fixed_p = [("(GYear (mk_year_sp false [48;48;48;48]%N) TzNone)", "0000"), ("(GYearMonth (mk_year_sp false [48;48;48;48]%N) (5)%Z TzNone)", "0000-05"),
               ("(GYear (mk_year_sp true [48;48;48;49]%N) TzZ)", "-0001Z")]
    for term, lex in fixed_p + [g_period_sp(r) for _ in range(60 * N)]:
        add({"op": "from_value", "v": {"t": "XmlPeriod", "v": ws(r) + lex + ws(r)}}, kind="fv_period", sp=term, lex=lex)
    for tname, v in FV_OTHERS:
        add({"op": "from_value", "v": v}, kind="fv_other", tname=tname)

    # ---------------- date / time / datetime with strftime formats (through the real converter only)
    for kind, fmts in DT_FORMATS.items():
        for fmt in fmts:
            for _ in range(12 * N):
                v = g_dt_value(r, kind, fmt)
                add({"op": "roundtrip", "type": kind, "v": {"t": kind, "v": v.isoformat()}, "format": fmt}, kind="dt_fmt", dkind=kind, fmt=fmt, v=v)
        add({"op": "roundtrip", "type": kind, "v": {"t": kind, "v": g_dt_value(r, kind, "").isoformat()}}, kind="dt_nofmt")

    # ---------------- factory: sort_types and deserialize over candidate lists
    pool_strings = ["1", "0", "true", "false", " 1 ", "12", "-7", "+3", "abc", "", "00", "AAAA", "1_0", "١", "ff", "QUJD",
                    "\xa01", "tr ue", "1.0", "0x1", "1e5", "INF", "NaN", "nan", "1.50", "p:x", "x", "{urn:a}x", "a", "b c", "2", "1_0.5", "Infinity",
                    ".5", "5.", "-0", "a:b", "é", "1e400", "d"]
    for _ in range(100 * N):
        k = r.choice([0, 1, 2, 2, 3, 3, 4, 5, 6])
        types = [r.choice(TYPE_POOL if r.random() < 0.4 else DOC_POOL) for _ in range(k)] if r.random() < 0.5 else r.sample(DOC_POOL, min(k, len(DOC_POOL)))
        if r.random() < 0.6:  # sort_types works on distinct classes in practice
            types = list(dict.fromkeys(types))
        add({"op": "sort_types", "types": types, "enums": FACTORY_ENUMS}, kind="sort_types")
        s = r.choice(pool_strings)
        fmt = r.choice([None, "base16", "base64"])
        nsm = r.choice([None, [], [["p", "urn:a"]], [[None, "urn:d"]]])
        add({"op": "deser", "types": types, "s": s, "format": fmt, "ns_map": nsm, "enums": FACTORY_ENUMS}, kind="deserialize", fmt=fmt, nsm=nsm)
    res = run_impl("impl_c05.py", ops, timeout=1500)
    ck.cov["evaluations"] = len(ops)

    # formatted dates: the produced text with surrounding XML whitespace must read back as the same value
    dtw = [(i, {"op": "deser", "types": [meta[i]["dkind"]], "s": r.choice([" ", "\n", "\t "]) + res[i]["ok"] + r.choice([" ", "\n", "  "]),
                "format": meta[i]["fmt"]}) for i in range(len(ops)) if meta[i]["kind"] == "dt_fmt" and "ok" in res[i] and res[i].get("same")]
    dtw_res = run_impl("impl_c05.py", [o for _, o in dtw])
    ck.cov["evaluations"] += len(dtw)

    # priority oracle: second pass = each candidate alone + the sorted list
    pr_ops, pr_meta = [], []
    for i, (op, m) in enumerate(zip(ops, meta)):
        if m["kind"] == "deserialize":
            srt = res[i - 1]["ok"]
            base = {"s": op["s"], "format": op.get("format"), "ns_map": op.get("ns_map"), "enums": op.get("enums")}
            pr_ops.append(dict(base, op="deser", types=srt))
            pr_meta.append(("sorted", i))
            for t in dict.fromkeys(op["types"]):
                pr_ops.append(dict(base, op="deser", types=[t]))
                pr_meta.append(("single", i, t))
    pr_res = run_impl("impl_c05.py", pr_ops, timeout=1500)
    ck.cov["evaluations"] += len(pr_ops)

    # an exception other than ConverterError escaping a converter is a failure of its own,
    # except str(int) beyond the interpreter's digit limit (modelled: int_ser = None)
    for op, rs, m in list(zip(ops, res, meta)) + [(o, x, {"kind": "priority"}) for o, x in zip(pr_ops, pr_res)]:
        if "err" in rs and rs["err"] != "ConverterError":
            if m["kind"] == "int_ser" and rs["err"] == "ValueError":
                continue
            ck.failure("unexpected-exception-" + rs["err"], f"{op} raised {rs['err']}: {rs.get('msg')}", {"op": op, "result": rs})

    def items_of(kind):
        return [(i, ops[i], res[i], meta[i]) for i in range(len(ops)) if meta[i]["kind"] == kind]

    jobs, cache = [], {}

    def run_batch():
        live = [j for j in jobs if j[3]]
        if not live:
            return
        defs = "Inductive anycase :=\n" + "\n".join(f"| K{n} (c : {j[1]})" for n, j in enumerate(live)) + "."
        check = "fun a => match a with " + " | ".join(f"K{n} c => ({j[2]}) c" for n, j in enumerate(live)) + " end"
        terms, owner = [], []
        for n, j in enumerate(live):
            for i, t in enumerate(j[3]):
                terms.append(f"(K{n} {t})")
                owner.append((j[0], i))
        for j in jobs:
            cache[j[0]] = []
        for g in coq_bad("c05_batch", "anycase", check, terms, defs=defs):
            cache[owner[g][0]].append(owner[g][1])

    def bad_indices(tag, ctype, pred, terms):
        if mode == "collect":
            jobs.append((tag, ctype, pred, list(terms)))
            return []
        if tag in cache:
            return cache[tag]
        t0 = time.time()
        out = coq_bad(f"c05_{tag}", ctype, pred, terms)
        timings[tag] = round(time.time() - t0, 1)
        return out

    def run_pred(tag, ctype, pred, items, terms):
        if not items:
            return []
        return [items[i] for i in bad_indices(tag, ctype, pred, terms)]

    def multi(tag, ctype, preds, items, terms):
        """several predicates over the same cases: one combined evaluation; only if it
        reports something is each predicate evaluated on the reported cases"""
        out = {p: [] for p in preds}
        if not items:
            return out
        comb = "fun c => " + " && ".join(f"{p} c" for p in preds)
        bad = bad_indices(tag, ctype, comb, terms)
        if bad:
            sub_items, sub_terms = [items[i] for i in bad], [terms[i] for i in bad]
            for p in preds:
                out[p] = [sub_items[i] for i in coq_bad(f"c05_{tag}_{p}", ctype, p, sub_terms)]
        return out

    def count_true(tag, ctype, pred, items, terms):
        return len(items) - len(run_pred(tag, ctype, pred, items, terms))

    distinct = set()
    timings = {}

    def obs_of(rs, f):
        return "None" if "err" in rs else f"(Some {f(rs['ok'])})"

    # The checking code below runs twice.  Pass "collect": every Coq predicate evaluation is
    # only registered (and reported as "no failures"); then all of them are evaluated in ONE
    # batch of balanced case files.  Pass "replay": the same code runs again with the batch
    # results; follow-up classifications of failing cases (rare) are evaluated directly.
    state = {}
    for mode in ("collect", "replay"):
        fail = ck.failure if mode == "replay" else (lambda *a, **k: False)
        if mode == "replay":
            t0 = time.time()
            run_batch()
            timings["batch"] = round(time.time() - t0, 1)
        # ---------------- bool
        items = items_of("bool_deser")
        terms = [f"({cstr(it[1]['s'])}, {obs_of(it[2], lambda v: cbool(v['v']))})" for it in items]
        distinct |= {("bool", it[1]["s"]) for it in items}
        for it in run_pred("agree_bool", "str * option bool", "agree_bool_deser", items, terms):
            fail("corr-bool-deser", f"model and implementation disagree on bool {it[1]['s']!r}: impl={it[2]}", {"op": it[1], "impl": it[2]})
        sp_items = [it for it in items if it[3]["sp"]]
        sp_terms = [f"({cstr(it[3]['sp'][0])}, {cstr(it[3]['sp'][1])}, {cstr(it[3]['sp'][2])}, {obs_of(it[2], lambda v: cbool(v['v']))})" for it in sp_items]
        for it in run_pred("acc_bool", "str * str * str * option bool", "oracle_bool_accepts", sp_items, sp_terms):
            fail("bool-xsd-valid-not-accepted", f"xs:boolean {it[1]['s']!r} gave {it[2]}", {"op": it[1], "impl": it[2]})
        items = items_of("bool_ser")
        terms = [f"({cbool(it[1]['v']['v'])}, {cstr(it[2]['ok'])})" for it in items if "ok" in it[2]]
        for it in run_pred("agree_bool_ser", "bool * str", "agree_bool_ser", items, terms):
            fail("corr-bool-ser", f"model and implementation disagree on serialize({it[1]['v']})", {"op": it[1], "impl": it[2]})
        for it in run_pred("valid_bool_ser", "bool * str", "oracle_bool_ser_valid", items, terms):
            fail("bool-ser-not-xsd-valid", f"serialize({it[1]['v']}) = {it[2]} is not the xs:boolean form of the value", {"op": it[1], "impl": it[2]})
        for it in items:
            if not it[2].get("same"):
                fail("bool-roundtrip", f"bool {it[1]['v']} -> {it[2]}", {"op": it[1], "impl": it[2]})

        # ---------------- int
        items = items_of("int_deser")
        terms = [f"({cstr(it[1]['s'])}, {obs_of(it[2], lambda v: hexZ(zval(v['v'])))})" for it in items]
        distinct |= {("int", it[1]["s"]) for it in items}
        for it in run_pred("agree_int", "str * option Z", "agree_int_deser", items, terms):
            fail("corr-int-deser", f"model and implementation disagree on int({it[1]['s'][:60]!r}): impl={str(it[2])[:80]}", {"op": it[1], "impl": it[2]})
        sp_items = [it for it in items if it[3]["sp"]]
        sp_terms = [f"({cstr(it[3]['sp'][0])}, {sp_term(it[3]['sp'][1], it[3]['sp'][2])}, {cstr(it[3]['sp'][3])}, {obs_of(it[2], lambda v: hexZ(zval(v['v'])))})"
                    for it in sp_items]
        t_sp = "str * integer_sp * str * option Z"
        bad = multi("acc_int", t_sp, ["oracle_int_accepts", "guard_int_accepts"], sp_items, sp_terms)
        for it in bad["oracle_int_accepts"]:
            fail("int-xsd-valid-not-accepted", f"xs:integer {it[1]['s'][:60]!r} gave {str(it[2])[:80]}", {"op": it[1], "impl": it[2]})
        for it in bad["guard_int_accepts"][:1]:
            fail("harness-generator-invalid-spelling", f"generator produced a non-wf integer spelling {it[1]['s'][:40]!r}", {"op": it[1]})
        ck.cov["int_spellings_beyond_interpreter_digit_limit"] = sum(1 for it in sp_items if len(it[3]["sp"][2]) > 4300)
        items = items_of("int_ser")
        terms = [f"({hexZ(it[3]['z'])}, {copt(it[2].get('ok'), cstr)})" for it in items]
        distinct |= {("int_ser", it[3]["z"]) for it in items}
        bad = multi("int_ser", "Z * option str", ["agree_int_ser", "oracle_int_ser_valid"], items, terms)
        for it in bad["agree_int_ser"]:
            fail("corr-int-ser", f"model and implementation disagree on str(int) of a {len(str(abs(it[3]['z'])))}-digit int", {"op": it[1], "impl": it[2]})
        for it in bad["oracle_int_ser_valid"]:
            fail("int-ser-not-xsd-valid", f"serialize(int) = {str(it[2])[:80]} is not the xs:integer form of the value", {"op": it[1], "impl": it[2]})
        for it in items:
            if "ok" in it[2] and not it[2].get("same"):
                fail("int-roundtrip", f"int -> {str(it[2])[:100]}", {"op": it[1], "impl": it[2]})
        items = [it for it in items_of("int_datatype") if "ok" in it[2]]
        terms = [f"({hexZ(it[3]['z'])}, {cstr(it[2]['ok'])})" for it in items]
        for it in run_pred("agree_int_dt", "Z * str", "agree_int_datatype", items, terms):
            fail("corr-int-datatype", f"model and implementation disagree on DataType.from_value({it[3]['z']}) = {it[2]}", {"op": it[1], "impl": it[2]})
        for it in run_pred("oracle_int_dt", "Z * str", "oracle_int_datatype", items, terms):
            fail("int-datatype-does-not-contain-value", f"DataType.from_value({it[3]['z']}) = {it[2]['ok']}, whose value space does not contain the value", {"op": it[1], "impl": it[2]})

        # ---------------- bytes
        def obytes(rs):
            return obs_of(rs, lambda v: cbytes(bytes(v["v"])))

        for kind, fmt in (("hex_deser", "base16"), ("b64_deser", "base64"), ("other_fmt_deser", None)):
            items = items_of(kind)
            terms = [f"({copt(it[1].get('format'), cstr)}, {cstr(it[1]['s'])}, {obytes(it[2])})" for it in items]
            distinct |= {(kind, it[1]["s"], it[1].get("format")) for it in items}
            for it in run_pred("agree_" + kind, "option str * str * option (list N)", "agree_bytes_deser", items, terms):
                fail("corr-bytes-deser", f"model and implementation disagree on bytes {it[1]['format']} {it[1]['s']!r}: impl={it[2]}", {"op": it[1], "impl": it[2]})
        items = [it for it in items_of("hex_deser") if it[3].get("sp")]
        terms = [f"({cstr(it[3]['sp'][0])}, {cstr(it[3]['sp'][1])}, {cstr(it[3]['sp'][2])}, {obytes(it[2])})" for it in items]
        for it in run_pred("acc_hex", "str * str * str * option (list N)", "oracle_hex_accepts", items, terms):
            fail("hex-xsd-valid-not-accepted", f"xs:hexBinary {it[1]['s']!r} gave {it[2]}", {"op": it[1], "impl": it[2]})
        ck.cov["hex_valid_literals"] = count_true("val_hex", "str * str * str * option (list N)", "is_valid_hex", items, terms)
        items = items_of("b64_deser")
        terms = [f"({cstr(it[1]['s'])}, {obytes(it[2])})" for it in items]
        for it in run_pred("acc_b64", "str * option (list N)", "oracle_b64_accepts", items, terms):
            fail("base64-xsd-valid-not-accepted", f"xs:base64Binary {it[1]['s']!r} gave {it[2]}", {"op": it[1], "impl": it[2]})
        ck.cov["base64_valid_literals"] = count_true("val_b64", "str * option (list N)", "is_valid_b64", items, terms)
        items = items_of("bytes_ser")
        kinds = {"bytes": 0, "XmlHexBinary": 1, "XmlBase64Binary": 2}
        terms = [f"({kinds[it[3]['vt']]}%nat, {copt(it[3]['fmt'], cstr)}, {cbytes(it[3]['b'])}, {copt(it[2].get('ok'), cstr)})" for it in items]
        distinct |= {("bytes_ser", it[3]["b"], it[3]["fmt"], it[3]["vt"]) for it in items}
        t_bs = "nat * option str * list N * option str"
        for it in run_pred("agree_bytes_ser", t_bs, "agree_bytes_ser", items, terms):
            fail("corr-bytes-ser", f"model and implementation disagree on serialize({it[3]['b']!r}, format={it[3]['fmt']}): impl={it[2]}", {"op": it[1], "impl": it[2]})
        for it in run_pred("valid_bytes_ser", t_bs, "oracle_bytes_ser_valid", items, terms):
            fail("bytes-ser-not-xsd-valid", f"serialize({it[3]['b']!r}, format={it[3]['fmt']}) = {it[2]} is not a valid literal of the value", {"op": it[1], "impl": it[2]})
        # round trip on the implementation itself
        rt = [(it, {"op": "deser", "types": ["bytes"], "s": it[2]["ok"],
                    "format": it[3]["fmt"] or ("base16" if it[3]["vt"] == "XmlHexBinary" else "base64")}) for it in items if "ok" in it[2]]
        if mode == "collect":
            state["rt_res"] = run_impl("impl_c05.py", [o for _, o in rt])
            ck.cov["evaluations"] += len(rt)
        rt_res = state["rt_res"]
        for (it, o), rs in zip(rt, rt_res):
            if it[3]["fmt"] == "base64" and it[3]["vt"] == "XmlHexBinary":
                continue  # the value's class wins over the format: hex text, read back as base64 is a different question
            if "ok" not in rs or bytes(rs["ok"]["v"]) != it[3]["b"]:
                fail("bytes-roundtrip", f"bytes {it[3]['b']!r} -> {o['s']!r} -> {rs}", {"op": it[1], "text": o["s"], "impl": rs})

        # ---------------- Decimal
        def odec(rs):
            return obs_of(rs, lambda v: pydec_term(v["v"]))

        items = items_of("dec_deser")
        terms = [f"({cstr(it[1]['s'])}, {odec(it[2])})" for it in items]
        distinct |= {("dec", it[1]["s"]) for it in items}
        for it in run_pred("agree_dec", "str * option pydec", "agree_dec_deser", items, terms):
            fail("corr-decimal-deser", f"model and implementation disagree on Decimal({it[1]['s'][:60]!r}): impl={str(it[2])[:100]}", {"op": it[1], "impl": it[2]})
        sp_items = [it for it in items if it[3]["sp"]]
        sp_terms = [f"({cstr(it[3]['sp'][0])}, {dec_sp_term(it[3]['sp'][1])}, {cstr(it[3]['sp'][2])}, {odec(it[2])})" for it in sp_items]
        t_dsp = "str * decimal_sp * str * option pydec"
        bad = multi("acc_dec", t_dsp, ["oracle_dec_accepts", "guard_dec_accepts"], sp_items, sp_terms)
        for it in bad["oracle_dec_accepts"]:
            fail("decimal-xsd-valid-not-accepted", f"xs:decimal {it[1]['s'][:60]!r} gave {str(it[2])[:100]}", {"op": it[1], "impl": it[2]})
        for it in bad["guard_dec_accepts"][:1]:
            fail("harness-generator-invalid-spelling", f"generator produced a non-wf decimal spelling {it[1]['s'][:40]!r}", {"op": it[1]})
        items = [it for it in items_of("dec_ser") if "ok" in it[2]]
        terms = [f"({pydec_term(it[3]['v'])}, {cstr(it[2]['ok'])})" for it in items]
        distinct |= {("dec_ser", tuple(it[3]["v"])) for it in items}
        corr_bad = run_pred("agree_dec_ser", "pydec * str", "agree_dec_ser", items, terms)
        for it in corr_bad:
            fail("corr-decimal-ser", f"model and implementation disagree on serialize(Decimal{it[3]['v']}) = {it[2]['ok'][:80]!r}", {"op": it[1], "impl": it[2]})
        corr_ids = {it[0] for it in corr_bad}
        inv = run_pred("valid_dec_ser", "pydec * str", "oracle_dec_ser_valid", items, terms)
        if inv:
            inv_terms = [f"({pydec_term(it[3]['v'])}, {cstr(it[2]['ok'])})" for it in inv]
            finite = {it[0] for it in inv} - {it[0] for it in run_pred("fin_dec", "pydec * str", "dec_value_finite", inv, inv_terms)}
            for it in inv:
                if it[0] in finite or it[0] in corr_ids:
                    fail("decimal-ser-not-xsd-valid", f"serialize(Decimal{it[3]['v']}) = {it[2]['ok'][:80]!r} is not the xs:decimal form of the value", {"op": it[1], "impl": it[2]})
                else:  # the guard clause dec_finite: reproduced by the faithful model (correspondence held)
                    fail("decimal-nonfinite-serialized", f"serialize(Decimal{it[3]['v']}) = {it[2]['ok']!r}, which xs:decimal does not have", {"op": it[1], "impl": it[2]})
        for it in items_of("dec_ser"):
            if "ok" in it[2] and not it[2].get("same") and it[3]["v"][2] in ("n", "N", "F"):
                fail("decimal-roundtrip", f"Decimal{it[3]['v']} -> {str(it[2])[:120]}", {"op": it[1], "impl": it[2]})
            if "ok" in it[2] and not it[2].get("eq") and it[3]["v"][2] not in ("n", "N"):
                fail("decimal-roundtrip", f"Decimal{it[3]['v']} -> {str(it[2])[:120]}", {"op": it[1], "impl": it[2]})
            if "ok" in it[2] and isinstance(it[3]["v"][2], int) and it[3]["v"][2] <= 0 and (it[2].get("back") or {}).get("v") != it[3]["v"]:
                fail("decimal-roundtrip-exact", f"Decimal{it[3]['v']} -> {str(it[2])[:120]} (exponent <= 0: digits must be preserved)", {"op": it[1], "impl": it[2]})

        # ---------------- QName
        items = items_of("qname_deser")
        terms = [f"({cstr(it[1]['s'])}, {nsmap_term(it[3]['m'])}, {obs_of(it[2], lambda v: cstr(v['v']))})" for it in items]
        distinct |= {("qname", it[1]["s"], json.dumps(it[3]["m"])) for it in items}
        corr_bad = run_pred("agree_qname", "str * option nsmap * option str", "agree_qname_deser", items, terms)
        for it in corr_bad:
            fail("corr-qname-deser", f"model and implementation disagree on QName {it[1]['s']!r} ns_map={it[3]['m']}: impl={it[2]}", {"op": it[1], "impl": it[2]})
        corr_ids = {it[0] for it in corr_bad}
        sp_items = [it for it in items if it[3]["sp"]]
        sp_terms = [f"({cstr(it[3]['sp'][0])}, (mk_qname_sp {copt(it[3]['sp'][1], cstr)} {cstr(it[3]['sp'][2])}), {cstr(it[3]['sp'][3])}, "
                    f"{nsmap_term_plain(it[3]['m'])}, {obs_of(it[2], lambda v: cstr(v['v']))})" for it in sp_items]
        t_qsp = "str * qname_sp * str * nsmap * option str"
        rej = run_pred("acc_qname", t_qsp, "oracle_qname_accepts", sp_items, sp_terms)
        if rej:
            rej_terms = [sp_terms[sp_items.index(it)] for it in rej]
            in_guard = {it[0] for it in rej} - {it[0] for it in run_pred("guard_qname", t_qsp, "qname_case_py_guard", rej, rej_terms)}
            for it in rej:
                if it[0] in in_guard or it[0] in corr_ids:
                    fail("qname-xsd-valid-not-accepted", f"xs:QName {it[1]['s']!r} with ns_map={it[3]['m']} gave {it[2]}", {"op": it[1], "impl": it[2]})
                else:  # outside the guard: str.strip() removed the first/last character of the name (U+1680); the model reproduces it
                    fail("qname-name-edge-stripped", f"xs:QName {it[1]['s']!r} (ns_map={it[3]['m']}) gave {it[2]}", {"op": it[1], "impl": it[2]})
        ck.cov["qname_valid_literals"] = count_true("val_qname", t_qsp, "is_valid_qname_case", sp_items, sp_terms)
        items = items_of("qname_ser2")
        terms = [f"({cstr(qtext(it[3]['uri'], it[3]['local']))}, {nsmap_term(it[3]['m'])}, "
                 + ("None" if "ok" not in it[2] else f"(Some ({cstr(it[2]['ok'])}, {nsmap_term(it[2].get('ns_map'))}))") + ")" for it in items]
        distinct |= {("qname_ser", it[3]["uri"], it[3]["local"], json.dumps(it[3]["m"])) for it in items}
        corr_bad = run_pred("agree_qname_ser", "str * option nsmap * option (str * option nsmap)", "agree_qname_ser", items, terms)
        for it in corr_bad:
            fail("corr-qname-ser", f"model and implementation disagree on serialize(QName {qtext(it[3]['uri'], it[3]['local'])!r}, ns_map={it[3]['m']}): impl={it[2]}", {"op": it[1], "impl": it[2]})
        ser_corr_ids = {(it[3]["uri"], it[3]["local"], json.dumps(it[3]["m"])) for it in corr_bad}
        # round trip on the implementation, classified by the guard clauses of qname_roundtrip (evaluated in Coq)
        items = [it for it in items_of("qname_ser")]
        failing = [it for it in items if not it[2].get("same")]
        if failing:
            t_rt = "option str * str * option nsmap"
            f_terms = [f"({copt(it[3]['uri'], cstr)}, {cstr(it[3]['local'])}, {nsmap_term(it[3]['m'])})" for it in failing]

            def holds(tag, pred):
                return {it[0] for it in failing} - {it[0] for it in run_pred(tag, t_rt, pred, failing, f_terms)}
            inputs_ok, clark_ok, default_ok, model_fails = (holds("rt_in", "qname_rt_inputs"), holds("rt_clark", "qname_rt_clark_ok"),
                                                            holds("rt_dflt", "qname_rt_default_ok"), holds("rt_model", "qname_model_rt_fails"))
            uri_plain = holds("rt_plain", "qname_rt_uri_plain")
            edges_ok = holds("rt_edges", "qname_rt_edges_ok")
            excluded = 0
            for it in failing:
                what = f"QName {qtext(it[3]['uri'], it[3]['local'])!r} ns_map={it[3]['m']} -> {str(it[2])[:160]}"
                rp = {"op": it[1], "impl": it[2]}
                if it[0] not in inputs_ok:
                    excluded += 1          # not a QName value / not a well-formed prefix map: outside the quantifier
                elif it[0] not in model_fails:
                    fail("corr-qname-roundtrip", "the implementation fails a round trip the model completes: " + what, rp)
                elif it[0] not in clark_ok and it[0] in uri_plain:
                    fail("qname-clark-uri-rejected", what, rp)       # fixed in /repo 7c20cbc: a regression if seen again
                elif it[0] not in clark_ok:
                    fail("qname-clark-uri-outside-ascii-subset", what, rp)
                elif it[0] not in default_ok:
                    fail("qname-no-namespace-under-default-ns", what, rp)
                elif it[0] not in edges_ok:
                    fail("qname-name-edge-stripped", what, rp)
                else:
                    fail("qname-roundtrip", what, rp)
            ck.cov["qname_roundtrip_inputs_outside_quantifier"] = excluded
        # serialize with a prefix map gives a valid xs:QName literal denoting the value under the resulting bindings
        items = [it for it in items_of("qname_ser2") if "ok" in it[2] and it[3]["m"] is not None]
        t_rt = "option str * str * option nsmap"
        terms = [f"({copt(it[3]['uri'], cstr)}, {cstr(it[3]['local'])}, {nsmap_term_plain(it[3]['m'])}, {cstr(it[2]['ok'])}, {nsmap_term_plain(it[2]['ns_map'])})"
                 for it in items]
        inv = run_pred("valid_qname_ser", "option str * str * nsmap * str * nsmap", "oracle_qname_ser_valid_g", items, terms)
        if inv:
            g_terms = [f"({copt(it[3]['uri'], cstr)}, {cstr(it[3]['local'])}, {nsmap_term(it[3]['m'])})" for it in inv]
            default_ok = {it[0] for it in inv} - {it[0] for it in run_pred("sv_dflt", t_rt, "qname_rt_default_ok", inv, g_terms)}
            for it in inv:
                what = f"serialize(QName {qtext(it[3]['uri'], it[3]['local'])!r}, ns_map={it[3]['m']}) = {it[2]['ok']!r} with {it[2]['ns_map']}"
                if it[0] not in default_ok and (it[3]["uri"], it[3]["local"], json.dumps(it[3]["m"])) not in ser_corr_ids:
                    fail("qname-no-namespace-under-default-ns", what + " denotes a name in the default namespace", {"op": it[1], "impl": it[2]})
                else:
                    fail("qname-ser-not-xsd-valid", what + " is not an xs:QName literal of the value", {"op": it[1], "impl": it[2]})

        # ---------------- float (CPythonFloat hypotheses sampled; text side against the model)
        viol = {"roundtrip": 0, "shape": 0, "norm": 0}
        items = items_of("float_facts")
        for it in items:
            x, f = it[3]["x"], it[2].get("ok")
            if f is None:
                fail("float-facts-error", f"{it[1]} -> {it[2]}", {"op": it[1], "impl": it[2]})
                continue
            if x == x and (f["back"] != x.hex() if abs(x) != float("inf") else float(f["repr"]) != x):
                viol["roundtrip"] += 1
                fail("cpython-float-hypothesis-repr-roundtrip", f"float(repr(x)) != x for {x.hex()}", {"op": it[1], "impl": it[2]})
            if x == x and abs(x) != float("inf") and f["norm_back"] != x.hex():
                viol["norm"] += 1
                fail("cpython-float-hypothesis-normalised", f"float(repr(x).upper().replace('E+','E')) != x for {x.hex()}", {"op": it[1], "impl": it[2]})
        fin = [it for it in items if it[2].get("ok") and it[3]["x"] == it[3]["x"] and abs(it[3]["x"]) != float("inf")]
        terms = [cstr(it[2]["ok"]["repr"]) for it in fin]
        for it in run_pred("repr_shape", "str", "repr_shape_ok", fin, terms):
            viol["shape"] += 1
            fail("cpython-float-hypothesis-repr-shape", f"repr({it[3]['x'].hex()}) = {it[2]['ok']['repr']!r} is not of the assumed shape", {"op": it[1], "impl": it[2]})
        ck.cov["cpython_float_hypotheses_sampled"] = {"bit_patterns": len(items), "violations": viol}
        items = [it for it in items_of("float_ser") if "ok" in it[2]]
        terms = [cstr(it[2]["ok"]) for it in items]
        distinct |= {("float_ser", it[3]["x"].hex() if it[3]["x"] == it[3]["x"] else "nan") for it in items}
        for it in run_pred("float_lex", "str", "oracle_double_lexical", items, terms):
            fail("float-ser-not-xsd-valid", f"serialize({it[3]['x']!r}) = {it[2]['ok']!r} is not an xs:double literal", {"op": it[1], "impl": it[2]})
        for it in items_of("float_ser"):
            if not it[2].get("same"):
                fail("float-roundtrip", f"float {it[3]['x']!r} -> {it[2]}", {"op": it[1], "impl": it[2]})
        items = items_of("float_deser")
        readings = []
        for it in items:
            rd = None
            if "ok" in it[2]:
                rd = float_reading(it[1]["s"])
                got = it[2]["ok"]["v"]
                exp = reading_round(rd)
                exp_s = exp.hex() if exp == exp and abs(exp) != float("inf") else repr(exp)
                if got != exp_s:
                    fail("cpython-float-hypothesis-correct-rounding", f"float({it[1]['s'][:60]!r}) = {got}, the correctly rounded value of the text is {exp_s}",
                               {"op": it[1], "impl": it[2]})
            readings.append(rd)
        terms = [f"({cstr(it[1]['s'])}, {fsyn_term(rd)})" for it, rd in zip(items, readings)]
        distinct |= {("float", it[1]["s"]) for it in items}
        for it in run_pred("agree_float", "str * option fsyn", "agree_float_syntax", items, terms):
            fail("corr-float-syntax", f"model and implementation disagree on float({it[1]['s'][:60]!r}): impl={it[2]}", {"op": it[1], "impl": it[2]})
        sp_items = [it for it in items if it[3]["sp"]]
        sp_terms = [f"({cstr(it[3]['sp'][0])}, {double_sp_term(it[3]['sp'][1])}, {cstr(it[3]['sp'][2])})" for it in sp_items]
        for it in run_pred("acc_float", "str * double_sp * str", "oracle_float_accepts", sp_items, sp_terms):
            fail("corr-float-accepts", f"the model does not read xs:double {it[1]['s'][:60]!r} as its value", {"op": it[1], "impl": it[2]})
        for it in sp_items:
            if "ok" not in it[2]:
                fail("float-xsd-valid-not-accepted", f"xs:double {it[1]['s'][:60]!r} gave {it[2]}", {"op": it[1], "impl": it[2]})

        # ---------------- enums
        items = items_of("enum_deser")

        def member_idx(it):
            if "err" in it[2]:
                return "None"
            return f"(Some {[m[0] for m in it[3]['members']].index(it[2]['ok']['v'][1])}%nat)"
        terms = [f"({nsmap_term(it[3]['m'])}, {enum_def_term(it[3]['members'])}, {cstr(it[1]['s'])}, {member_idx(it)})" for it in items]
        distinct |= {("enum", json.dumps(it[3]["members"]), it[1]["s"]) for it in items}
        for it in run_pred("agree_enum", "option nsmap * enum_def * str * option nat", "agree_enum_deser", items, terms):
            fail("corr-enum-deser", f"model and implementation disagree on enum {it[3]['members']} {it[1]['s']!r}: impl={it[2]}", {"op": it[1], "impl": it[2]})
        items = items_of("enum_ser")
        terms = [f"({nsmap_term(it[3]['m'])}, {evalue_term(it[3]['members'][it[3]['j']][1])}, {copt(it[2].get('ok'), cstr)})" for it in items]
        corr_bad = run_pred("agree_enum_ser", "option nsmap * evalue * option str", "agree_enum_ser", items, terms)
        for it in corr_bad:
            fail("corr-enum-ser", f"model and implementation disagree on serialize of member {it[3]['members'][it[3]['j']]}: impl={it[2]}", {"op": it[1], "impl": it[2]})
        corr_ids = {it[0] for it in corr_bad}
        for it in items:
            name, v = it[3]["members"][it[3]["j"]]
            what = f"enum member {name} = {v} -> {it[2]}"
            if it[2].get("same") or it[0] in corr_ids:
                continue
            if "err" in it[2] and v["t"] == "tuple":
                fail("enum-tuple-value-not-serializable", what, {"op": it[1], "impl": it[2]})
            elif v["t"] == "str" and v["v"] != v["v"].strip():
                fail("enum-str-value-outer-whitespace", what, {"op": it[1], "impl": it[2]})
            elif v["t"] == "str" and " ".join(v["v"].split()) != v["v"] and any(
                    m[1]["t"] == "str" and m[1]["v"] == " ".join(v["v"].split()) for m in it[3]["members"][:it[3]["j"]]):
                fail("enum-str-value-whitespace-collision", what, {"op": it[1], "impl": it[2]})
            else:
                fail("enum-roundtrip", what, {"op": it[1], "impl": it[2]})

        # ---------------- DataType.from_value
        t_fv = "fv_input * str"
        items = [it for it in items_of("float_datatype") if "ok" in it[2]]
        terms = [f"(FvFloat {cfloat_hex(it[3]['x'])}, {cstr(it[2]['ok'])})" for it in items]
        for it in run_pred("agree_fv_float", t_fv, "agree_from_value", items, terms):
            fail("corr-from-value", f"model and implementation disagree on DataType.from_value({it[3]['x']!r}) = {it[2]['ok']}", {"op": it[1], "impl": it[2]})
        items = [it for it in items_of("int_datatype") if "ok" in it[2]]
        terms = [f"(FvInt {hexZ(it[3]['z'])}, {cstr(it[2]['ok'])})" for it in items]
        for it in run_pred("agree_fv_int", t_fv, "agree_from_value", items, terms):
            fail("corr-from-value", f"model and implementation disagree on DataType.from_value({it[3]['z']}) = {it[2]['ok']}", {"op": it[1], "impl": it[2]})
        items = [it for it in items_of("fv_other") if "ok" in it[2]]
        terms = [f"(FvOther {cstr(it[3]['tname'])}, {cstr(it[2]['ok'])})" for it in items]
        for it in run_pred("agree_fv_other", t_fv, "agree_from_value", items, terms):
            fail("corr-from-value", f"model and implementation disagree on DataType.from_value({it[1]['v']}) = {it[2]['ok']}", {"op": it[1], "impl": it[2]})
        for it in items_of("fv_period") + items_of("fv_other"):
            if "ok" not in it[2]:
                fail("from-value-error", f"DataType.from_value({it[1]['v']}) -> {it[2]}", {"op": it[1], "impl": it[2]})
        items = [it for it in items_of("fv_period") if "ok" in it[2]]
        terms = [f"(FvPeriod {copt(it[2]['ymd'][0], cZ)} {copt(it[2]['ymd'][1], cZ)} {copt(it[2]['ymd'][2], cZ)}, {cstr(it[2]['ok'])})" for it in items]
        distinct |= {("fv_period", it[3]["lex"]) for it in items}
        corr_bad = run_pred("agree_fv_period", t_fv, "agree_from_value", items, terms)
        for it in corr_bad:
            fail("corr-from-value", f"model and implementation disagree on DataType.from_value(XmlPeriod({it[3]['lex']!r})) = {it[2]['ok']} (components {it[2]['ymd']})", {"op": it[1], "impl": it[2]})
        terms = [f"({it[3]['sp']}, {cstr(it[2]['ok'])})" for it in items]
        bad = multi("fv_period_lex", "period_sp * str", ["oracle_period_datatype", "guard_period_sp"], items, terms)
        for it in bad["oracle_period_datatype"]:
            fail("from-value-datatype-does-not-contain-value", f"DataType.from_value(XmlPeriod({it[3]['lex']!r})) = {it[2]['ok']}, whose lexical space does not contain {it[2].get('ser')!r}", {"op": it[1], "impl": it[2]})
        for it in bad["guard_period_sp"][:1]:
            fail("harness-generator-invalid-spelling", f"generator produced a non-wf g* spelling {it[3]['lex']!r}", {"op": it[1]})
        for it in items:
            if it[2].get("ser") != it[3]["lex"]:
                fail("period-serialized-form-changed", f"XmlPeriod({it[1]['v']['v']!r}) serializes to {it[2].get('ser')!r}", {"op": it[1], "impl": it[2]})
        items = [it for it in items_of("fv_other") + items_of("int_datatype") + items_of("float_datatype") if "ok" in it[2] and "ser" in it[2]]
        terms = [f"({cstr(it[2]['ok'])}, {cstr(it[2]['ser'])})" for it in items]
        for it in run_pred("fv_lexical", "str * str", "oracle_from_value_lexical", items, terms):
            if it[2]["ok"] == "DECIMAL" and it[2]["ser"] in ("INF", "-INF", "NaN"):
                continue
            fail("from-value-datatype-does-not-contain-value", f"DataType.from_value({it[1]['v']}) = {it[2]['ok']}, whose lexical space does not contain {it[2]['ser']!r}", {"op": it[1], "impl": it[2]})

        # ---------------- date / time / datetime with formats: oracles on the implementation only
        for it in items_of("dt_fmt"):
            v, fmt = it[3]["v"], it[3]["fmt"]
            what = f"{it[3]['dkind']} {v.isoformat()} format={fmt!r} -> {it[2]}"
            if it[2].get("same"):
                continue
            if "%Y" in fmt and getattr(v, "year", 9999) < 1000:
                fail("datetime-format-year-below-1000", what, {"op": it[1], "impl": it[2]})
            else:
                fail("datetime-format-roundtrip", what, {"op": it[1], "impl": it[2]})
        for (i, o), rs in zip(dtw, dtw_res):
            if "ok" not in rs or rs["ok"]["v"] != ops[i]["v"]["v"]:
                fail("datetime-format-surrounding-whitespace", f"{o['types'][0]} text {o['s']!r} format={o['format']!r} -> {rs}", {"op": o, "impl": rs})
        for it in items_of("dt_nofmt"):
            if it[2].get("err") != "ConverterError":
                fail("datetime-missing-format-not-reported", f"{it[1]} -> {it[2]}", {"op": it[1], "impl": it[2]})
        distinct |= {("dt_fmt", it[3]["dkind"], it[3]["fmt"], it[3]["v"].isoformat()) for it in items_of("dt_fmt")}

        # ---------------- factory
        items = [it for it in items_of("sort_types") if "ok" in it[2]]
        terms = [f"({clist(it[1]['types'], ty_term, 'pytype')}, {clist(it[2]['ok'], ty_term, 'pytype')})" for it in items]
        distinct |= {("sort", tuple(it[1]["types"])) for it in items}
        for it in run_pred("agree_sort", "list pytype * list pytype", "agree_sort_types", items, terms):
            fail("corr-sort-types", f"model and implementation disagree on sort_types({it[1]['types']}) = {it[2]}", {"op": it[1], "impl": it[2]})
        items = items_of("deserialize")
        env_term = clist(FACTORY_ENUMS, enum_def_term, "enum_def")
        terms = [f"({kw_term(it[3]['fmt'], it[3]['nsm'])}, {env_term}, {cstr(it[1]['s'])}, {clist(it[1]['types'], ty_term, 'pytype')}, "
                 f"{obs_of(it[2], lambda v: value_term(v, it[1]['s'], FACTORY_ENUMS))})" for it in items]
        distinct |= {("deserialize", it[1]["s"], tuple(it[1]["types"]), it[3]["fmt"]) for it in items}
        for it in run_pred("agree_deserialize", "kwargs * enum_env * str * list pytype * option value", "agree_deserialize", items, terms):
            fail("corr-deserialize", f"model and implementation disagree on deserialize({it[1]['s']!r}, {it[1]['types']}, format={it[3]['fmt']}): impl={it[2]}", {"op": it[1], "impl": it[2]})
        # priority: result over the sorted candidates = the first accepting candidate in priority order
        by_i = {}
        for pm, po, prs in zip(pr_meta, pr_ops, pr_res):
            d = by_i.setdefault(pm[1], {"single": [], "sorted": None, "op": None})
            if pm[0] == "sorted":
                d["sorted"], d["op"] = prs, po
            else:
                d["single"].append((pm[2], prs))
        pitems = sorted(by_i.items())
        terms = []
        for i, d in pitems:
            vt = lambda v, d=d: value_term(v, d["op"]["s"], FACTORY_ENUMS)  # noqa: E731
            singles = clist(d["single"], lambda p: f"({ty_term(p[0])}, {obs_of(p[1], vt)})", "(pytype * option value)")
            terms.append(f"({singles}, {obs_of(d['sorted'], vt)})")
        ck.cov["priority_cases_with_documented_types_only"] = count_true("prio_app", "list (pytype * option value) * option value", "priority_case_applies", pitems, terms)
        for i, d in run_pred("priority", "list (pytype * option value) * option value", "oracle_priority", pitems, terms):
            fail("priority-order-not-respected", f"deserialize({d['op']['s']!r}, sorted {d['op']['types']}) = {d['sorted']} but singly: {d['single']}",
                       {"op": d["op"], "single": d["single"], "impl": d["sorted"]})

    ck.cov["distinct_nontrivial"] = len(distinct)
    ck.cov["rule"] = ("distinct (operation, input) pairs, each reaching a modelled converter: XSD-valid spellings (all sign/zero/"
                      "case/whitespace/padding alternatives) with XML whitespace, their mutations over a laxness alphabet, listed malformed "
                      "strings, values -> serialize -> deserialize, candidate type lists")
    kinds = {}
    for m in meta:
        kinds[m["kind"]] = kinds.get(m["kind"], 0) + 1
    ck.cov["input_distribution"] = kinds
    ck.cov["coq_seconds_per_predicate"] = timings
    ck.cov["accepted_fraction"] = round(sum(1 for x in res if "ok" in x) / max(1, len(res)), 3)
    ck.cov["samples"] = [{"op": str(ops[i])[:200], "impl": str(res[i])[:200]} for i in (0, len(ops) // 3, len(ops) // 2, len(ops) - 5, len(ops) - 1)]
    return ck.finish(obligations=obligations, discharged=discharged,
                     checker_cmd="make -C coq Properties/C05.vo && coqc -Q coq XV coq/Properties/C05.v (Print Assumptions)",
                     trusted_base=TRUSTED_COMMON + [
                         "axioms: " + (", ".join(axioms) or "none (every statement closed under the global context)"),
                         "float: the five hypotheses of Proofs/ConvFloat.CPythonFloat about CPython's repr()/float() (shape of repr, "
                         "float(repr x) == x, unique +-inf, NaN text gives NaN) and that float() rounds the decimal reading correctly — "
                         "sampled every run (coverage.cpython_float_hypotheses_sampled), not proved",
                         "tools/gen_conv.py: ast extraction + sre parse of URI_REGEX + interpreter tables (isalpha ranges, decimal limits, int digit limit)"],
                     assumptions=["Python types are identified by name; an Enum subclass / unregistered class is represented by an index",
                                  "bytes are lists of numbers < 256",
                                  "enumeration member values are pairwise distinct under Python's == (no aliases); float-valued members not modelled",
                                  "prefix maps are dicts (distinct keys); a '}' cannot occur in the URI of a Clark text",
                                  "libmpdec exponent range (dec_fits) is kept as a hypothesis of the Decimal acceptance/round-trip theorems: unreachable below ~10^18 characters",
                                  "date/time/datetime with strftime formats, XmlDuration/XmlPeriod through ProxyConverter, ConverterFactory.test(strict), float_datatype: not covered"])
