"""C05 — primitive values map to valid XSD lexical forms and back.

Deciding artefact: theorems of coq/Properties/C05.v over Model/Conv*.v.
Tie: regenerated tables (Gen/ConvTables.v, Gen/PyUnicode.v) + differential
correspondence model <-> implementation on generated strings / values / type lists.
Search: the specification (Spec/XsdPrims.v) evaluated in Coq on the
implementation's answers (ser output valid, XSD-valid forms accepted, priority),
and deser(ser v) = v on the implementation itself.
"""
import base64
import json
import os
import sys
import time

sys.set_int_max_str_digits(0)  # the harness itself prints huge ints; the implementation subprocess keeps the default

from common import (Check, coq_bad_indices, run_impl, standard_proof_step, TRUSTED_COMMON, ROOT)
from coqterm import cZ, cstr, cbool, copt, clist, cbytes

IMPORTS = ("From XV Require Import Base.Str Base.Eqb Model.ConvBool Model.ConvInt Model.ConvBytes Model.ConvFactory "
           "Model.ConvAll Model.ConvCorr Spec.XsdPrims.")
WS = " \t\n\r"
PYWS = "\x0b\x0c\x1c\x1d\x1e\x1f\x85\xa0      　"
LAX = "+-_ .eE0159١٢２² \t\n\x1c\xa0"


def coq_bad(tag, ctype, pred, terms, workers=16):
    """coq_bad_indices with the cases spread over `workers` shards of balanced size
    (large terms — 4300-digit numbers — would otherwise pile up in one shard)"""
    n = len(terms)
    if n == 0:
        return []
    k = min(workers, max(1, n // 8))
    size = -(-n // k)
    order = sorted(range(n), key=lambda i: -len(terms[i]))
    buckets = [[] for _ in range(k)]
    for j, i in enumerate(order):
        b = j % k if (j // k) % 2 == 0 else k - 1 - (j % k)
        if len(buckets[b]) >= size:
            b = min(range(k), key=lambda x: len(buckets[x]))
        buckets[b].append(i)
    perm = [i for b in buckets for i in b]
    # buckets may be shorter than `size` only at the end: pad by re-flowing
    perm_terms = [terms[i] for i in perm]
    bad = coq_bad_indices(tag, IMPORTS, "", ctype, pred, perm_terms, shard=size)
    return sorted(perm[i] for i in bad)


def ws(r, p=0.5):
    if r.random() < p:
        return ""
    return "".join(r.choice(WS) for _ in range(r.choice([1, 1, 2, 3])))


def mutate(r, s, alphabet=LAX):
    if not s:
        return r.choice(alphabet)
    i = r.randrange(len(s))
    k = r.random()
    if k < 0.3:
        return s[:i] + s[i + 1:]
    if k < 0.65:
        return s[:i] + r.choice(alphabet) + s[i:]
    if k < 0.9:
        return s[:i] + r.choice(alphabet) + s[i + 1:]
    return s[:i]


def hexZ(z):
    return f"({'-' if z < 0 else ''}{hex(abs(z))})%Z"


def zval(res):
    """impl int value (hex string) -> python int"""
    return int(res, 16)


# ------------------------------------------------------------------ generators
def g_int_value(r):
    k = r.random()
    if k < 0.35:
        b = r.choice([15, 31, 63, 16, 32, 64, 7, 8])
        return r.choice([1, -1]) * (2 ** b) + r.choice([-2, -1, 0, 1, 2])
    if k < 0.5:
        return r.choice([0, 1, -1, 9, 10, -10, 99, 100, 32767, -32768, 32768, -32769, 2147483647, -2147483648,
                         2147483648, -2147483649, 9223372036854775807, -9223372036854775808, 9223372036854775808,
                         -9223372036854775809])
    if k < 0.85:
        return r.randint(-10 ** r.randint(1, 40), 10 ** r.randint(1, 40))
    return r.choice([1, -1]) * r.randint(10 ** 100, 10 ** r.randint(101, 400))


def near_limit_ints(r):
    """around the interpreter's int<->str digit limit (few: the terms are large)"""
    out = []
    for d in (4299, 4300, 4301, 5000):
        out += [10 ** (d - 1), -(10 ** d - 1)]
    out.append(r.choice([1, -1]) * r.randint(10 ** 4299, 10 ** 4300 - 1))
    out.append(r.choice([1, -1]) * r.randint(10 ** 4300, 10 ** 4301 - 1))
    out.append(r.randint(10 ** 1000, 10 ** r.randint(1001, 4200)))
    return out


def g_integer_sp(r):
    """an xs:integer spelling: (sign, digits)"""
    sign = r.choice(["", "", "+", "-"])
    k = r.random()
    if k < 0.65:
        ds = str(abs(g_int_value(r)))
    elif k < 0.9:
        ds = "0" * r.randint(1, 6) + str(r.randint(0, 10 ** r.randint(0, 20)))
    else:
        ds = "0" * r.randint(1, 5)
    return sign, ds


def near_limit_spellings(r):
    out = []
    for n in (4299, 4300, 4301):
        out += [("", "9" * n), ("-", "1" + "0" * (n - 1)), ("+", "0" * n)]
    out.append(("", "0" * 10 + str(r.randint(10 ** 4280, 10 ** 4289))))
    out.append(("-", "0" * 12 + str(r.randint(10 ** 4288, 10 ** 4289))))
    return out


def sp_term(sign, ds):
    return f"(mk_integer_sp {dict([('', 'SgNone'), ('+', 'SgPlus'), ('-', 'SgMinus')])[sign]} {cstr(ds)})"


INT_BAD = ["", " ", "+", "-", "+-1", "--1", "1.0", "1e5", "0x10", "0b1", "1_000", "_1", "1_", "1__0", "١٢٣", "１２", "1 2",
           "\xa01\xa0", "\x1c1", "1\x85", "+ 1", "- 1", "1+", "²", "1²", "٠", "1١", "0_0", "-_1", " 1", "1　",
           "1\x00", "﻿1", "NaN", "INF", "true", "1L", "0o7", "1.", ".1", "1,000", "٣_٤", "+٥", "߁"]
BOOL_BAD = ["True", "TRUE", "False", "yes", "no", "", " ", "01", "00", "+1", "-0", "1.0", "tr ue", "t", "truee", "true1",
            "\xa0true\x1c", " false", "1\x85", "0\x0b", "١", "１", "true\x00", "T", "on", "off", "null", "false0"]
B64_BAD = ["AAAA=", "AAAA====", "AB==", "AB=", "AB", "A", "A===", "====", "=AAA", "A=AA", "AB=C", "ABC=", "ABC==", "AB==AAAA",
           "AAA\n", "AA AA", "QQ==", "QR==", "QUI=", "QUJ=", "", "é", "AAAA\x00", "AA-_", "AA\xa0AA", "Q Q = =", "QQ=\n=",
           "QQ= =", "=", "==", "A=", "A==", "AAAAA", "AAAAAA", "AAAAAAA", "AAAAAA==", "AAAAAAA=", "AAAAAA=", "AAAA==",
           "AAAAAAAA=", "QUJD", "QUJDRA==", "QUJDRA=", "QUJDRA", "QUJDR===", "AAAAＡ", "AAA٠", "AA AA", "AA\x1cAA",
           "Q\tU\nJ\rD", " QUJD ", "Z+/=", "Z+/+", "Zm9v\r\nYmFy", "Zm9vYmF=", "Zm9vYmE=", "Zm9vYh==", "Zm9vYg=="]
HEX_BAD = ["", "0", "0g", "aB", "AbCd", " a b ", "a\xa0b", "a\x1cb", "é0", "٠٠", "a_b", "0x00", "00 11", "001", "gg", "+1",
           "-1", "0 ", " 0", "0\n0", "FFff", "１２", "ab\x00", "A", "ABC", "abcdefgh", " ab", "a　b", "aA0"]


def g_bytes(r, n):
    k = r.random()
    if k < 0.15:
        return bytes([r.choice([0, 255, 0x3e, 0x3f, 0xfb, 0xff])] * n)
    return bytes(r.randrange(256) for _ in range(n))


def inject_ws(r, s, chars=WS, p=0.15):
    out = []
    for c in s:
        if r.random() < p:
            out.append("".join(r.choice(chars) for _ in range(r.choice([1, 1, 2]))))
        out.append(c)
    if r.random() < 0.3:
        out.append(r.choice(chars))
    return "".join(out)


TYPE_POOL = ["int", "bool", "str", "bytes", "object", "Unreg0", "Unreg1"]


def ty_term(name):
    if name.startswith("Unreg"):
        return f"(TUnreg {int(name[5:])})"
    if name.startswith("Enum:"):
        return f"(TEnum {int(name[5:])})"
    return f"(TName {cstr(name)})"


def value_term(v):
    """impl-encoded value -> Model.ConvAll.value term"""
    t, x = v["t"], v["v"]
    if t == "int":
        return f"(VInt {hexZ(zval(x))})"
    if t == "bool":
        return f"(VBool {cbool(x)})"
    if t == "str":
        return f"(VStr {cstr(x)})"
    if t in ("bytes", "XmlHexBinary", "XmlBase64Binary"):
        return f"(VBytes BPlain {cbytes(bytes(x))})"
    raise ValueError(t)


def kw_term(fmt):
    return f"(mk_kwargs {copt(fmt, cstr)})"


def run(ck: Check):
    ck.level = "proof"
    obligations, discharged, axioms = standard_proof_step(ck, extra_targets=["Model/ConvCorr.vo"])
    r = ck.rng
    N = ck.n(1, 20)
    ops, meta = [], []

    def add(op, **m):
        ops.append(op)
        meta.append(m)

    # ---------------- bool
    for core in ("true", "false", "1", "0"):
        for _ in range(6 * N):
            a, b = ws(r, 0.3), ws(r, 0.3)
            add({"op": "deser", "types": ["bool"], "s": a + core + b}, kind="bool_deser", sp=(a, core, b))
    for s in BOOL_BAD:
        add({"op": "deser", "types": ["bool"], "s": s}, kind="bool_deser", sp=None)
    for _ in range(40 * N):
        s = mutate(r, r.choice(["true", "false", "1", "0"]), "truefalsTF01 \t\xa0+")
        add({"op": "deser", "types": ["bool"], "s": s}, kind="bool_deser", sp=None)
    for v in (True, False):
        add({"op": "roundtrip", "type": "bool", "v": {"t": "bool", "v": v}}, kind="bool_ser")

    # ---------------- int
    for sign, ds in [g_integer_sp(r) for _ in range(150 * N)] + near_limit_spellings(r):
        a, b = ws(r), ws(r)
        add({"op": "deser", "types": ["int"], "s": a + sign + ds + b}, kind="int_deser", sp=(a, sign, ds, b))
    for s in INT_BAD:
        add({"op": "deser", "types": ["int"], "s": s}, kind="int_deser", sp=None)
    for _ in range(120 * N):
        sign, ds = g_integer_sp(r)
        s = mutate(r, (sign + ds)[:r.choice([3, 8, 30, 500])])
        if r.random() < 0.3:
            s = r.choice(PYWS + WS) + s + r.choice(PYWS + WS)
        add({"op": "deser", "types": ["int"], "s": s}, kind="int_deser", sp=None)
    for z in [g_int_value(r) for _ in range(120 * N)] + near_limit_ints(r):
        add({"op": "roundtrip", "type": "int", "v": {"t": "int", "v": hex(z)}}, kind="int_ser", z=z)
        add({"op": "from_value", "v": {"t": "int", "v": hex(z)}}, kind="int_datatype", z=z)

    # ---------------- bytes
    for n in range(0, 71):
        for rep in range(N):
            bs = g_bytes(r, n)
            for fmt, vt in (("base16", "bytes"), ("base64", "bytes"), (None, "XmlHexBinary"), (None, "XmlBase64Binary"),
                            (None, "bytes"), ("base64", "XmlHexBinary"), ("x", "bytes")):
                if vt != "bytes" and fmt is not None and n % 7:
                    continue
                add({"op": "ser", "v": {"t": vt, "v": list(bs)}, "format": fmt}, kind="bytes_ser", b=bs, fmt=fmt, vt=vt)
            # valid literals: either case for hex; whitespace where XSD allows it
            hx = "".join(r.choice([c.lower(), c.upper()]) for c in bs.hex())
            a, b = ws(r), ws(r)
            add({"op": "deser", "types": ["bytes"], "s": a + hx + b, "format": "base16"}, kind="hex_deser", sp=(a, hx, b))
            b64 = base64.b64encode(bs).decode()
            add({"op": "deser", "types": ["bytes"], "s": inject_ws(r, b64), "format": "base64"}, kind="b64_deser")
            if r.random() < 0.6:
                add({"op": "deser", "types": ["bytes"], "s": mutate(r, hx, "0aAfFgG \n\xa0_"), "format": "base16"},
                    kind="hex_deser", sp=None)
                add({"op": "deser", "types": ["bytes"], "s": mutate(r, inject_ws(r, b64, WS + PYWS, 0.05), "=AQgwBZz09+/-_ \n\xa0"),
                     "format": "base64"}, kind="b64_deser")
    for s in B64_BAD:
        add({"op": "deser", "types": ["bytes"], "s": s, "format": "base64"}, kind="b64_deser")
    for s in HEX_BAD:
        add({"op": "deser", "types": ["bytes"], "s": s, "format": "base16"}, kind="hex_deser", sp=None)
    for s in ("00", "AAAA", ""):
        for fmt in (None, "x", "BASE16", "base32"):
            add({"op": "deser", "types": ["bytes"], "s": s, "format": fmt}, kind="other_fmt_deser")

    # ---------------- factory: sort_types and deserialize over candidate lists
    pool_strings = ["1", "0", "true", "false", " 1 ", "12", "-7", "+3", "abc", "", "00", "AAAA", "1_0", "١", "ff", "QUJD",
                    "\xa01", "tr ue", "1.0", "0x1"]
    for _ in range(60 * N):
        k = r.choice([0, 1, 2, 2, 3, 3, 4, 5, 6])
        types = [r.choice(TYPE_POOL) for _ in range(k)]
        if r.random() < 0.6:  # sort_types works on distinct classes in practice
            types = list(dict.fromkeys(types))
        add({"op": "sort_types", "types": types}, kind="sort_types")
        s = r.choice(pool_strings)
        fmt = r.choice([None, "base16", "base64"])
        add({"op": "deser", "types": types, "s": s, "format": fmt}, kind="deserialize", fmt=fmt)
    res = run_impl("impl_c05.py", ops, timeout=1500)
    ck.cov["evaluations"] = len(ops)

    # priority oracle: second pass = each candidate alone + the sorted list
    pr_ops, pr_meta = [], []
    for i, (op, m) in enumerate(zip(ops, meta)):
        if m["kind"] == "deserialize":
            srt = res[i - 1]["ok"]
            base = {"s": op["s"], "format": op.get("format")}
            pr_ops.append(dict(base, op="deser", types=srt))
            pr_meta.append(("sorted", i))
            for t in dict.fromkeys(op["types"]):
                pr_ops.append(dict(base, op="deser", types=[t]))
                pr_meta.append(("single", i, t))
    pr_res = run_impl("impl_c05.py", pr_ops, timeout=1500)
    ck.cov["evaluations"] += len(pr_ops)

    # an exception other than ConverterError escaping a converter is a failure of its own,
    # except str(int) beyond the interpreter's digit limit (modelled: int_ser = None)
    for op, rs, m in list(zip(ops, res, meta)) + [(o, x, {"kind": "priority"}) for o, x in zip(pr_ops, pr_res)]:
        if "err" in rs and rs["err"] != "ConverterError":
            if m["kind"] == "int_ser" and rs["err"] == "ValueError":
                continue
            ck.failure("unexpected-exception-" + rs["err"], f"{op} raised {rs['err']}: {rs.get('msg')}", {"op": op, "result": rs})

    def items_of(kind):
        return [(i, ops[i], res[i], meta[i]) for i in range(len(ops)) if meta[i]["kind"] == kind]

    def run_pred(tag, ctype, pred, items, terms):
        if not items:
            return []
        t0 = time.time()
        bad = coq_bad(f"c05_{tag}", ctype, pred, terms)
        timings[tag] = round(time.time() - t0, 1)
        return [items[i] for i in bad]

    def multi(tag, ctype, preds, items, terms):
        """several predicates over the same cases: one combined pass; only if it
        reports something is each predicate run on the reported cases"""
        out = {p: [] for p in preds}
        if not items:
            return out
        comb = "fun c => " + " && ".join(f"{p} c" for p in preds)
        t0 = time.time()
        bad = coq_bad(f"c05_{tag}", ctype, comb, terms)
        timings[tag] = round(time.time() - t0, 1)
        if bad:
            sub_items, sub_terms = [items[i] for i in bad], [terms[i] for i in bad]
            for p in preds:
                out[p] = [sub_items[i] for i in coq_bad(f"c05_{tag}_{p}", ctype, p, sub_terms)]
        return out

    def count_true(tag, ctype, pred, items, terms):
        return len(items) - len(run_pred(tag, ctype, pred, items, terms))

    distinct = set()
    timings = {}

    def obs_of(rs, f):
        return "None" if "err" in rs else f"(Some {f(rs['ok'])})"

    # ---------------- bool
    items = items_of("bool_deser")
    terms = [f"({cstr(it[1]['s'])}, {obs_of(it[2], lambda v: cbool(v['v']))})" for it in items]
    distinct |= {("bool", it[1]["s"]) for it in items}
    for it in run_pred("agree_bool", "str * option bool", "agree_bool_deser", items, terms):
        ck.failure("corr-bool-deser", f"model and implementation disagree on bool {it[1]['s']!r}: impl={it[2]}", {"op": it[1], "impl": it[2]})
    sp_items = [it for it in items if it[3]["sp"]]
    sp_terms = [f"({cstr(it[3]['sp'][0])}, {cstr(it[3]['sp'][1])}, {cstr(it[3]['sp'][2])}, {obs_of(it[2], lambda v: cbool(v['v']))})" for it in sp_items]
    for it in run_pred("acc_bool", "str * str * str * option bool", "oracle_bool_accepts", sp_items, sp_terms):
        ck.failure("bool-xsd-valid-not-accepted", f"xs:boolean {it[1]['s']!r} gave {it[2]}", {"op": it[1], "impl": it[2]})
    items = items_of("bool_ser")
    terms = [f"({cbool(it[1]['v']['v'])}, {cstr(it[2]['ok'])})" for it in items if "ok" in it[2]]
    for it in run_pred("agree_bool_ser", "bool * str", "agree_bool_ser", items, terms):
        ck.failure("corr-bool-ser", f"model and implementation disagree on serialize({it[1]['v']})", {"op": it[1], "impl": it[2]})
    for it in run_pred("valid_bool_ser", "bool * str", "oracle_bool_ser_valid", items, terms):
        ck.failure("bool-ser-not-xsd-valid", f"serialize({it[1]['v']}) = {it[2]} is not the xs:boolean form of the value", {"op": it[1], "impl": it[2]})
    for it in items:
        if not it[2].get("same"):
            ck.failure("bool-roundtrip", f"bool {it[1]['v']} -> {it[2]}", {"op": it[1], "impl": it[2]})

    # ---------------- int
    items = items_of("int_deser")
    terms = [f"({cstr(it[1]['s'])}, {obs_of(it[2], lambda v: hexZ(zval(v['v'])))})" for it in items]
    distinct |= {("int", it[1]["s"]) for it in items}
    for it in run_pred("agree_int", "str * option Z", "agree_int_deser", items, terms):
        ck.failure("corr-int-deser", f"model and implementation disagree on int({it[1]['s'][:60]!r}): impl={str(it[2])[:80]}", {"op": it[1], "impl": it[2]})
    sp_items = [it for it in items if it[3]["sp"]]
    sp_terms = [f"({cstr(it[3]['sp'][0])}, {sp_term(it[3]['sp'][1], it[3]['sp'][2])}, {cstr(it[3]['sp'][3])}, {obs_of(it[2], lambda v: hexZ(zval(v['v'])))})"
                for it in sp_items]
    t_sp = "str * integer_sp * str * option Z"
    bad = multi("acc_int", t_sp, ["oracle_int_accepts", "guard_int_accepts"], sp_items, sp_terms)
    for it in bad["oracle_int_accepts"]:
        ck.failure("int-xsd-valid-not-accepted", f"xs:integer {it[1]['s'][:60]!r} gave {str(it[2])[:80]}", {"op": it[1], "impl": it[2]})
    for it in bad["guard_int_accepts"][:1]:
        ck.failure("harness-generator-invalid-spelling", f"generator produced a non-wf integer spelling {it[1]['s'][:40]!r}", {"op": it[1]})
    ck.cov["int_spellings_beyond_interpreter_digit_limit"] = sum(1 for it in sp_items if len(it[3]["sp"][2]) > 4300)
    items = items_of("int_ser")
    terms = [f"({hexZ(it[3]['z'])}, {copt(it[2].get('ok'), cstr)})" for it in items]
    distinct |= {("int_ser", it[3]["z"]) for it in items}
    bad = multi("int_ser", "Z * option str", ["agree_int_ser", "oracle_int_ser_valid"], items, terms)
    for it in bad["agree_int_ser"]:
        ck.failure("corr-int-ser", f"model and implementation disagree on str(int) of a {len(str(abs(it[3]['z'])))}-digit int", {"op": it[1], "impl": it[2]})
    for it in bad["oracle_int_ser_valid"]:
        ck.failure("int-ser-not-xsd-valid", f"serialize(int) = {str(it[2])[:80]} is not the xs:integer form of the value", {"op": it[1], "impl": it[2]})
    for it in items:
        if "ok" in it[2] and not it[2].get("same"):
            ck.failure("int-roundtrip", f"int -> {str(it[2])[:100]}", {"op": it[1], "impl": it[2]})
    items = [it for it in items_of("int_datatype") if "ok" in it[2]]
    terms = [f"({hexZ(it[3]['z'])}, {cstr(it[2]['ok'])})" for it in items]
    for it in run_pred("agree_int_dt", "Z * str", "agree_int_datatype", items, terms):
        ck.failure("corr-int-datatype", f"model and implementation disagree on DataType.from_value({it[3]['z']}) = {it[2]}", {"op": it[1], "impl": it[2]})

    # ---------------- bytes
    def obytes(rs):
        return obs_of(rs, lambda v: cbytes(bytes(v["v"])))

    for kind, fmt in (("hex_deser", "base16"), ("b64_deser", "base64"), ("other_fmt_deser", None)):
        items = items_of(kind)
        terms = [f"({copt(it[1].get('format'), cstr)}, {cstr(it[1]['s'])}, {obytes(it[2])})" for it in items]
        distinct |= {(kind, it[1]["s"], it[1].get("format")) for it in items}
        for it in run_pred("agree_" + kind, "option str * str * option (list N)", "agree_bytes_deser", items, terms):
            ck.failure("corr-bytes-deser", f"model and implementation disagree on bytes {it[1]['format']} {it[1]['s']!r}: impl={it[2]}", {"op": it[1], "impl": it[2]})
    items = [it for it in items_of("hex_deser") if it[3].get("sp")]
    terms = [f"({cstr(it[3]['sp'][0])}, {cstr(it[3]['sp'][1])}, {cstr(it[3]['sp'][2])}, {obytes(it[2])})" for it in items]
    for it in run_pred("acc_hex", "str * str * str * option (list N)", "oracle_hex_accepts", items, terms):
        ck.failure("hex-xsd-valid-not-accepted", f"xs:hexBinary {it[1]['s']!r} gave {it[2]}", {"op": it[1], "impl": it[2]})
    ck.cov["hex_valid_literals"] = count_true("val_hex", "str * str * str * option (list N)", "is_valid_hex", items, terms)
    items = items_of("b64_deser")
    terms = [f"({cstr(it[1]['s'])}, {obytes(it[2])})" for it in items]
    for it in run_pred("acc_b64", "str * option (list N)", "oracle_b64_accepts", items, terms):
        ck.failure("base64-xsd-valid-not-accepted", f"xs:base64Binary {it[1]['s']!r} gave {it[2]}", {"op": it[1], "impl": it[2]})
    ck.cov["base64_valid_literals"] = count_true("val_b64", "str * option (list N)", "is_valid_b64", items, terms)
    items = items_of("bytes_ser")
    kinds = {"bytes": 0, "XmlHexBinary": 1, "XmlBase64Binary": 2}
    terms = [f"({kinds[it[3]['vt']]}%nat, {copt(it[3]['fmt'], cstr)}, {cbytes(it[3]['b'])}, {copt(it[2].get('ok'), cstr)})" for it in items]
    distinct |= {("bytes_ser", it[3]["b"], it[3]["fmt"], it[3]["vt"]) for it in items}
    t_bs = "nat * option str * list N * option str"
    for it in run_pred("agree_bytes_ser", t_bs, "agree_bytes_ser", items, terms):
        ck.failure("corr-bytes-ser", f"model and implementation disagree on serialize({it[3]['b']!r}, format={it[3]['fmt']}): impl={it[2]}", {"op": it[1], "impl": it[2]})
    for it in run_pred("valid_bytes_ser", t_bs, "oracle_bytes_ser_valid", items, terms):
        ck.failure("bytes-ser-not-xsd-valid", f"serialize({it[3]['b']!r}, format={it[3]['fmt']}) = {it[2]} is not a valid literal of the value", {"op": it[1], "impl": it[2]})
    # round trip on the implementation itself
    rt = [(it, {"op": "deser", "types": ["bytes"], "s": it[2]["ok"],
                "format": it[3]["fmt"] or ("base16" if it[3]["vt"] == "XmlHexBinary" else "base64")}) for it in items if "ok" in it[2]]
    rt_res = run_impl("impl_c05.py", [o for _, o in rt])
    ck.cov["evaluations"] += len(rt)
    for (it, o), rs in zip(rt, rt_res):
        if it[3]["fmt"] == "base64" and it[3]["vt"] == "XmlHexBinary":
            continue  # the value's class wins over the format: hex text, read back as base64 is a different question
        if "ok" not in rs or bytes(rs["ok"]["v"]) != it[3]["b"]:
            ck.failure("bytes-roundtrip", f"bytes {it[3]['b']!r} -> {o['s']!r} -> {rs}", {"op": it[1], "text": o["s"], "impl": rs})

    # ---------------- factory
    items = [it for it in items_of("sort_types") if "ok" in it[2]]
    terms = [f"({clist(it[1]['types'], ty_term, 'pytype')}, {clist(it[2]['ok'], ty_term, 'pytype')})" for it in items]
    distinct |= {("sort", tuple(it[1]["types"])) for it in items}
    for it in run_pred("agree_sort", "list pytype * list pytype", "agree_sort_types", items, terms):
        ck.failure("corr-sort-types", f"model and implementation disagree on sort_types({it[1]['types']}) = {it[2]}", {"op": it[1], "impl": it[2]})
    items = items_of("deserialize")
    terms = [f"({kw_term(it[3]['fmt'])}, {cstr(it[1]['s'])}, {clist(it[1]['types'], ty_term, 'pytype')}, {obs_of(it[2], value_term)})" for it in items]
    distinct |= {("deserialize", it[1]["s"], tuple(it[1]["types"]), it[3]["fmt"]) for it in items}
    for it in run_pred("agree_deserialize", "kwargs * str * list pytype * option value", "agree_deserialize", items, terms):
        ck.failure("corr-deserialize", f"model and implementation disagree on deserialize({it[1]['s']!r}, {it[1]['types']}, format={it[3]['fmt']}): impl={it[2]}", {"op": it[1], "impl": it[2]})
    # priority: result over the sorted candidates = the first accepting candidate in priority order
    by_i = {}
    for pm, po, prs in zip(pr_meta, pr_ops, pr_res):
        d = by_i.setdefault(pm[1], {"single": [], "sorted": None, "op": None})
        if pm[0] == "sorted":
            d["sorted"], d["op"] = prs, po
        else:
            d["single"].append((pm[2], prs))
    pitems = sorted(by_i.items())
    terms = []
    for i, d in pitems:
        singles = clist(d["single"], lambda p: f"({ty_term(p[0])}, {obs_of(p[1], value_term)})", "(pytype * option value)")
        terms.append(f"({singles}, {obs_of(d['sorted'], value_term)})")
    for i, d in run_pred("priority", "list (pytype * option value) * option value", "oracle_priority", pitems, terms):
        ck.failure("priority-order-not-respected", f"deserialize({d['op']['s']!r}, sorted {d['op']['types']}) = {d['sorted']} but singly: {d['single']}",
                   {"op": d["op"], "single": d["single"], "impl": d["sorted"]})

    ck.cov["distinct_nontrivial"] = len(distinct)
    ck.cov["rule"] = ("distinct (operation, input) pairs, each reaching a modelled converter: XSD-valid spellings (all sign/zero/"
                      "case/whitespace/padding alternatives) with XML whitespace, their mutations over a laxness alphabet, listed malformed "
                      "strings, values -> serialize -> deserialize, candidate type lists")
    kinds = {}
    for m in meta:
        kinds[m["kind"]] = kinds.get(m["kind"], 0) + 1
    ck.cov["input_distribution"] = kinds
    ck.cov["coq_seconds_per_predicate"] = timings
    ck.cov["accepted_fraction"] = round(sum(1 for x in res if "ok" in x) / max(1, len(res)), 3)
    ck.cov["samples"] = [{"op": str(ops[i])[:200], "impl": str(res[i])[:200]} for i in (0, len(ops) // 3, len(ops) // 2, len(ops) - 5, len(ops) - 1)]
    return ck.finish(obligations=obligations, discharged=discharged,
                     checker_cmd="make -C coq Properties/C05.vo && coqc -Q coq XV coq/Properties/C05.v (Print Assumptions)",
                     trusted_base=TRUSTED_COMMON + ["axioms: " + (", ".join(axioms) or "none (closed under the global context)")],
                     assumptions=["Python types are identified by name; an Enum subclass / unregistered class is represented by an index",
                                  "bytes are lists of numbers < 256"])
