"""C17 — WSDL generation yields usable SOAP bindings.

Deciding artefacts: theorems of coq/Properties/C17.v over Model/Wsdl.v (DefinitionsMapper,
Client) and Spec/WsdlSpec.v (`expected`, written from WSDL 1.1 / SOAP 1.1), plus, per
generated WSDL, translation validation in Coq of the REAL pipeline output against
`expected` computed from the WSDL read independently with lxml.
Per WSDL:
  (i)   correspondence: object built by the real DefinitionsParser == the document (lxml);
        real DefinitionsMapper output and real final classes == Model/Wsdl.v (in Coq);
  (ii)  real service constants + envelope class structure (XmlContext metadata of the
        generated classes) == `expected` (in Coq); mismatches are classified by the guard
        clause that fails for that operation (known findings) or are violations;
  (iii) the real Client with a recording transport: posted payload has the expected input
        shape (judged in Coq on the lxml tree), url/headers, exact payload = render(obj),
        responses (normal, Fault) come back parsed into the output class, ClientValueError
        for a foreign transport / wrong input type.
"""
import ast
import concurrent.futures as cf
import glob
import json
import os
import re

from common import (Check, coq_eval, coq_bad_indices, run_impl, standard_proof_step, TRUSTED_COMMON, ROOT, COQ)
from coqterm import cstr, copt, clist, cbool
import c17_gen as G

IMPORTS = "From XV Require Import Base.Str Base.Eqb Spec.WsdlSpec Model.Wsdl Model.WsdlCorr."
CLASSES = {2: "rpc-response-wrapper-name",            5: "document-type-part-accessor", 6: "rpc-element-part-no-accessor",
           7: "rpc-body-parts-ignored", 8: "duplicate-service-name-last-wins",
           10: "rpc-message-shadows-schema-element"}
DIRECTED = [
    {"layout": "one", "n_ops": 1, "binding_style": "document", "op_style": None, "header": 1, "header_after_body": 1},
    {"layout": "one", "n_ops": 1, "binding_style": "rpc", "op_style": None, "rpc_bad_response_name": 1},
    {"layout": "one", "n_ops": 1, "binding_style": "document", "op_style": None, "action": ""},
    {"layout": "one", "n_ops": 1, "binding_style": None, "op_style": None},
    {"layout": "one", "n_ops": 1, "binding_style": "document", "op_style": None, "doc_type": 1},
    {"layout": "one", "n_ops": 1, "binding_style": "rpc", "op_style": None, "rpc_element": 1},
    {"layout": "one", "n_ops": 2, "binding_style": "rpc", "op_style": None, "header": 1, "header_same_message": 1},
    {"layout": "same_binding", "n_ops": 2},
    {"layout": "one", "n_ops": 2, "binding_style": "rpc", "op_style": None, "rpc_simple": 1},
    {"layout": "two_services", "n_ops": 4, "schema_mode": "imported", "n_faults": 2},
    {"layout": "two_bindings", "n_ops": 3, "schema_mode": "inline", "header": 1, "header_after_body": 0},
    {"layout": "one", "n_ops": 1, "binding_style": "document", "op_style": "rpc", "n_faults": 0},
    {"layout": "one", "n_ops": 1, "binding_style": "document", "op_style": None, "header": 1, "header_same_message": 0,
     "extra_headers": 2},
    {"layout": "one", "n_ops": 2, "binding_style": "rpc", "op_style": None, "header": 0, "extra_headers": 2, "out_header": 1},
    {"layout": "one", "n_ops": 2, "binding_style": "document", "op_style": None, "header": 1, "header_same_message": 1,
     "substring_names": 1, "extra_headers": 0},
    {"layout": "one", "n_ops": 2, "binding_style": "document", "op_style": None, "header": 1, "header_same_message": 0,
     "extra_headers": 1, "n_faults": 1, "schema_mode": "inline", "split": {"imported": ["messages", "port_types"], "types": "both"}},
    {"layout": "two_bindings", "n_ops": 3, "header": 1, "schema_mode": "imported", "split": {"imported": ["bindings"], "types": "both"}},
    {"layout": "one", "n_ops": 2, "binding_style": "rpc", "op_style": None, "schema_mode": "inline",
     "split": {"imported": ["messages", "port_types", "bindings"], "types": "imported"}},
    {"layout": "one", "n_ops": 1, "binding_style": "document", "op_style": None, "header": 1, "header_same_message": 1,
     "extra_headers": 1, "doc_two_parts": 1, "header_after_body": 1},
    # QNames of parts resolve in the part's own scope: a prefix the root binds elsewhere is rebound on the part ...
    {"layout": "one", "n_ops": 2, "binding_style": "document", "op_style": None, "header": 1, "header_same_message": 0,
     "n_faults": 2, "shadow_parts": 1},
    {"layout": "one", "n_ops": 2, "binding_style": "rpc", "op_style": None, "header": 1, "n_faults": 1, "shadow_parts": 1},
    # ... and an imported WSDL binds the importing document's prefixes the other way round
    {"layout": "one", "n_ops": 2, "binding_style": "document", "op_style": None, "header": 1, "n_faults": 1, "shadow_parts": 0,
     "schema_mode": "inline", "split": {"imported": ["messages"], "types": "imported", "px_b": 1}},
    {"layout": "two_bindings", "n_ops": 3, "header": 1, "n_faults": 1, "shadow_parts": 0,
     "split": {"imported": ["messages", "port_types"], "types": "both", "px_b": 1}},
]


# a fixed document: the rpc input message and a global element share the expanded name {urn:svc}Token
SHADOW_WSDL = """<definitions xmlns:soap="http://schemas.xmlsoap.org/wsdl/soap/" xmlns:tns="urn:svc"
 xmlns:xsd="http://www.w3.org/2001/XMLSchema" xmlns="http://schemas.xmlsoap.org/wsdl/" targetNamespace="urn:svc" name="S">
 <types><xsd:schema targetNamespace="urn:svc" elementFormDefault="qualified">
   <xsd:element name="Token"><xsd:complexType><xsd:sequence><xsd:element name="tok" type="xsd:string"/></xsd:sequence></xsd:complexType></xsd:element>
 </xsd:schema></types>
 <message name="Token"><part name="x" type="xsd:string"/></message>
 <message name="RpcResponse"><part name="return" type="xsd:int"/></message>
 <message name="Hdr"><part name="h" element="tns:Token"/></message>
 <portType name="PT">
  <operation name="Rpc"><input message="tns:Token"/><output message="tns:RpcResponse"/></operation>
 </portType>
 <binding name="B" type="tns:PT">
  <soap:binding transport="http://schemas.xmlsoap.org/soap/http" style="rpc"/>
  <operation name="Rpc"><soap:operation soapAction="urn:rpc"/>
    <input><soap:header message="tns:Hdr" part="h" use="literal"/><soap:body use="literal" namespace="urn:rpcns"/></input>
    <output><soap:body use="literal" namespace="urn:rpcns"/></output></operation>
 </binding>
 <service name="S"><port name="P" binding="tns:B"><soap:address location="http://h/x"/></port></service>
</definitions>
"""


# a fixed document: a part rebinds the prefix `xs` where the XML Schema namespace is bound to no other prefix
# (regression case of C17-F12, repaired in /repo d49db31: must agree with `expected` like any other case)
COMMON_PREFIX_WSDL = """<definitions xmlns:soap="http://schemas.xmlsoap.org/wsdl/soap/" xmlns:tns="urn:svc"
 xmlns:xs="http://www.w3.org/2001/XMLSchema" xmlns="http://schemas.xmlsoap.org/wsdl/" targetNamespace="urn:svc" name="S">
 <types><xs:schema targetNamespace="urn:svc" elementFormDefault="qualified">
   <xs:element name="Req"><xs:complexType><xs:sequence><xs:element name="a" type="xs:string"/></xs:sequence></xs:complexType></xs:element>
   <xs:element name="Res"><xs:complexType><xs:sequence><xs:element name="b" type="xs:int"/></xs:sequence></xs:complexType></xs:element>
 </xs:schema></types>
 <message name="In"><part name="parameters" element="xs:Req" xmlns:xs="urn:svc"/></message>
 <message name="Out"><part name="parameters" element="tns:Res"/></message>
 <portType name="PT"><operation name="Op"><input message="tns:In"/><output message="tns:Out"/></operation></portType>
 <binding name="B" type="tns:PT">
  <soap:binding transport="http://schemas.xmlsoap.org/soap/http" style="document"/>
  <operation name="Op"><soap:operation soapAction="urn:op"/>
    <input><soap:body use="literal"/></input><output><soap:body use="literal"/></output></operation>
 </binding>
 <service name="S"><port name="P" binding="tns:B"><soap:address location="http://h/x"/></port></service>
</definitions>
"""


# ------------------------------------------------------------------ generated classes -> shape terms
class Unexpected(Exception):
    pass


def tree_to_item(tree, msg_qnames):
    """class tree (impl_c17.class_tree) of an envelope class -> item (nested lists for G.t_item).
    Inner classes of the envelope and the classes made from rpc messages are expanded;
    classes made from schema components are leaves named by the codegen qname."""

    def var_item(v):
        ns, local = G.split_q(v["qname"])
        if v["kind"] != "Element":
            raise Unexpected(f"field {v['name']} is bound as {v['kind']}, not as an element")
        if v["list"]:
            raise Unexpected(f"field {v['name']} is a list")
        sub = v["clazz"]
        cg = v.get("codegen") or {}
        types = cg.get("types") or []
        if sub is None:
            if len(types) != 1:
                raise Unexpected(f"field {v['name']} has {len(types)} types")
            return ["leaf", ns, local, v["required"], G.split_q(types[0]["qname"])]
        if sub.get("cut"):
            raise Unexpected("class tree too deep")
        scg = sub.get("codegen") or {}
        structural = scg.get("tag") == "BindingMessage" or (scg.get("tag") == "Element" and scg.get("qname") in msg_qnames)
        if structural:
            return ["node", ns, local, v["required"], [var_item(x) for x in sub["vars"]]]
        return ["leaf", ns, local, v["required"], G.split_q(scg.get("qname") or sub["qname"])]

    ns, local = G.split_q(tree["qname"])
    return ["node", ns, local, True, [var_item(x) for x in tree["vars"]]]


def real_sd(row, msg_qnames):
    cfgd = row["config"]
    out = {"name": G.split_q(row["name"])[1]}
    for k in ("style", "location", "transport", "soap_action"):
        v = cfgd[k]
        if v is not None and not isinstance(v, str):
            raise Unexpected(f"service constant {k} is not a string: {v!r}")
        out[k] = v
    for side in ("input", "output"):
        out[side] = tree_to_item(row[side], msg_qnames) if row.get(side) else None
    return out


def parse_coq_value(text):
    t = text.replace(";", ",").replace("true", "True").replace("false", "False")
    t = re.sub(r"%nat|%N", "", t)
    return ast.literal_eval(t)


# ------------------------------------------------------------------ the check
def run(ck: Check):
    ck.level = "translation_validation"
    obligations, discharged, axioms = standard_proof_step(ck, extra_targets=["Model/WsdlCorr.vo"])
    r = ck.rng

    # ---------------- inputs: replay corpus first, directed cases, then random
    cases = []
    if getattr(ck, "replay_file", None):
        rp = json.load(open(ck.replay_file))["replay"]
        cases.append({"files": rp["files"], "origin": "replay", "features": rp.get("features", [])})
    else:
        for path in sorted(glob.glob(os.path.join(ROOT, "replays", "C17", "*.json"))):
            try:
                rp = json.load(open(path)).get("replay") or {}
                if "files" in rp:
                    cases.append({"files": rp["files"], "origin": "corpus:" + os.path.basename(path),
                                  "features": rp.get("features", [])})
            except Exception:  # noqa
                pass
        n_rand = ck.n(34, 900)
        cases.append({"files": {"svc.wsdl": SHADOW_WSDL}, "origin": "fixed:shadow", "features": ["message-shadows-element"]})
        cases.append({"files": {"svc.wsdl": COMMON_PREFIX_WSDL}, "origin": "fixed:common-prefix", "features": ["part-rebinds-xs"]})
        for i, force in enumerate(DIRECTED):
            W = G.gen_wsdl(r, i, force)
            cases.append({"files": G.render(W), "origin": "directed", "features": W["features"], "W": W})
        for i in range(n_rand):
            W = G.gen_wsdl(r, 100 + i)
            cases.append({"files": G.render(W), "origin": "random", "features": W["features"], "W": W})

    jobs = [{"id": i, "sources": c["files"], "entry": ["svc.wsdl"], "wsdl": "svc.wsdl", "seed": r.randrange(1 << 30),
             "package": "gen17_%d" % i,
             # several source files that refer to each other: one module per file would import circularly
             # (a documented limit of the default "filenames" layout, not C17's subject)
             "options": {"structure_style": "single-package"} if "defs.wsdl" in c["files"] else {}}
            for i, c in enumerate(cases)]
    nproc = 6
    chunks = [jobs[k::nproc] for k in range(nproc) if jobs[k::nproc]]
    with cf.ThreadPoolExecutor(max_workers=nproc) as ex:
        parts = list(ex.map(lambda ch: run_impl("impl_c17.py", {"op": "jobs", "jobs": ch}, timeout=3000, with_shims=True), chunks))
    results = {}
    for ch, res in zip(chunks, parts):
        for j, o in zip(ch, res):
            results[j["id"]] = o

    def replay_of(i, **extra):
        d = {"files": cases[i]["files"], "features": cases[i]["features"], "origin": cases[i]["origin"]}
        d.update(extra)
        return d

    # ---------------- per WSDL: readers, parser correspondence, terms
    coq_cases, coq_ids = [], []
    stats = {"wsdl": len(cases), "operations": 0, "styles": {}, "features": {}, "e2e_steps": 0, "codes": {}}
    distinct = set()
    for i, c in enumerate(cases):
        o = results[i]
        for f in c["features"]:
            stats["features"][f] = stats["features"].get(f, 0) + 1
        try:
            D_doc = G.read_lxml_files(c["files"], "svc.wsdl")
            senv = G.read_simple_types(c["files"])
        except Exception as e:  # noqa
            ck.failure("harness-generator-invalid-wsdl", f"lxml reader failed on a generated WSDL: {e!r}", replay_of(i))
            continue
        c["D"] = D_doc
        # the parser first: its dump exists whatever happened later in the pipeline
        same, a, b = True, None, None
        if "definitions" in o:
            try:
                same, a, b = G.same_defs(G.from_xsdata(o["definitions"]), D_doc)
            except ValueError as e:
                same, a, b = False, repr(e), None
        if o.get("status") != "ok":
            ck.failure("generation-fails", f"generation failed at {o.get('stage')}: {(o.get('error') or {}).get('type')}: "
                       f"{(o.get('error') or {}).get('message')}", replay_of(i, error=o.get("error")))
            continue
        if "definitions" not in o:
            ck.failure("generation-fails", f"DefinitionsParser failed: {o.get('definitions_error')}", replay_of(i))
            continue
        if not same:
            ck.failure("corr-parser", "the object built by DefinitionsParser differs from the document (lxml reading)",
                       replay_of(i, xsdata=a, document=b))
        msg_q = {"{%s}%s" % (D_doc["tns"], m["name"]) for m in D_doc["messages"]}
        try:
            real = [real_sd(row, msg_q) for row in o["services"] if not row.get("missing")]
        except Unexpected as e:
            ck.failure("generated-class-unexpected-shape", f"{e}", replay_of(i))
            continue
        missing = [row["class"] for row in o["services"] if row.get("missing")]
        if missing:
            ck.failure("service-class-not-importable", f"service class(es) {missing} not found in the generated module", replay_of(i))
        # e2e observations for Coq
        eobs = []
        for e in o.get("e2e", []):
            name = G.split_q(e["name"])[1]
            for st in e.get("steps", []):
                stats["e2e_steps"] += 1
                if st["step"] == "normal" and "exc" not in st and st.get("calls"):
                    call = st["calls"][0]
                    data = call["data"] if isinstance(call["data"], str) else call["data"]["$bytes"]
                    try:
                        eobs.append((name, 0, G.xml_tree(strip_decl(data)), call["url"], call["headers"]))
                        eobs.append((name, 1, G.xml_tree(strip_decl(st["response"])), "", []))
                    except Exception as ex:  # noqa
                        ck.failure("posted-payload-not-xml", f"{name}: payload is not well-formed XML: {ex!r}", replay_of(i, step=st))
                if st["step"] == "fault" and "exc" not in st:
                    try:
                        eobs.append((name, 1, G.xml_tree(strip_decl(st["response"])), "", []))
                    except Exception as ex:  # noqa
                        ck.failure("posted-payload-not-xml", f"{name}: fault response not well-formed: {ex!r}", replay_of(i, step=st))
        c["eobs"] = eobs
        c["real"] = real
        mapped = ("(Some " + clist(o["mapped"], G.t_fclass, "fclass") + ")") if "mapped" in o else "None"
        term = ("(mk_case " + G.t_defs(D_doc) + " " + clist(senv, lambda q: f"({cstr(q[0])}, {cstr(q[1])}, {copt(q[2], cstr)})", "(str * str * option str)") + " "
                + mapped + " " + clist(real, G.t_sd, "service_desc") + " "
                + clist(eobs, lambda e: f"(mk_e2e {cstr(e[0])} {e[1]}%nat {G.t_xtree(e[2])} {cstr(e[3])} "
                        + clist(e[4], lambda kv: f"({cstr(kv[0])}, {cstr(kv[1])})", "(str * str)") + ")", "e2e_obs") + ")")
        coq_cases.append(term)
        coq_ids.append(i)

    # ---------------- verdicts computed in Coq
    nshard = 12
    shards = [list(range(k, len(coq_cases), nshard)) for k in range(nshard) if k < len(coq_cases)]

    def eval_shard(k_idx):
        k, idx = k_idx
        defs = "Definition the_cases : list wsdl_case := [\n" + ";\n".join(coq_cases[j] for j in idx) + "]."
        return parse_coq_value(coq_eval(f"c17_{k}", IMPORTS, defs, "map oracle_case the_cases", timeout=1200))

    verdicts = {}
    with cf.ThreadPoolExecutor(max_workers=nshard) as ex:
        for (k, idx), vals in zip(enumerate(shards), ex.map(eval_shard, list(enumerate(shards)))):
            if len(vals) != len(idx):
                raise RuntimeError("Coq returned %d verdicts for %d cases" % (len(vals), len(idx)))
            for j, v in zip(idx, vals):
                verdicts[coq_ids[j]] = v

    for i, v in sorted(verdicts.items()):
        wf, corr_raw, corr_model, codes, no_extra, ecodes = v
        c, o = cases[i], results[i]
        names = [s["name"] for s in c["real"]]
        if not wf:
            ck.failure("harness-generator-outside-fragment", "generated WSDL is outside wf_definitions", replay_of(i))
            continue
        if not corr_raw:
            ck.failure("corr-mapper-classes", "Model/Wsdl.v map_definitions and the real DefinitionsMapper.map disagree "
                       "(raw classes: names, namespaces, types, occurrences, references)", replay_of(i))
        if not corr_model:
            ck.failure("corr-mapper", "Model/Wsdl.v and the real pipeline disagree on the generated services "
                       f"(real: {names})", replay_of(i, real=c["real"]))
        if not no_extra:
            ck.failure("unexpected-extra-service", f"generated services {names} include one that `expected` does not name", replay_of(i))
        stats["operations"] += len(codes)
        op_code_by_name = {}
        exp_names = expected_names(c["D"])
        for nm, code in zip(exp_names, codes):
            op_code_by_name[nm] = max(code, op_code_by_name.get(nm, 0)) if code in (0,) else code
            stats["codes"][code] = stats["codes"].get(code, 0) + 1
            distinct.add((i, nm))
            if code == 0:
                continue
            if code in CLASSES and corr_model:
                ck.failure(CLASSES[code], f"service {nm}: generated description differs from `expected` (guard clause {code})",
                           replay_of(i, service=nm))
            elif code in CLASSES:
                pass  # already reported as corr-mapper: the model does not explain it
            elif code == 91:
                ck.failure("service-missing", f"no generated service class named {nm}", replay_of(i, service=nm, real=names))
            else:
                mine = next((s for s in c["real"] if s["name"] == nm), None)
                ck.failure("service-differs-from-expected", f"service {nm}: generated description differs from `expected` "
                           f"although every guard clause holds", replay_of(i, service=nm, real=mine))
        # e2e verdicts from Coq (shape of the posted payload / of the response, url, headers)
        for (nm, kind, _, url, hdrs), code in zip(c["eobs"], ecodes):
            if code == 0:
                continue
            known = op_code_by_name.get(nm, 0)
            what = {1: "has not the expected %s shape" % ("input" if kind == 0 else "output"),
                    2: f"posted to {url!r} with headers {hdrs} against the expected location/content-type/SOAPAction",
                    3: "belongs to no expected service"}[code]
            cls = CLASSES[known] if known in CLASSES else ("posted-envelope-shape" if code == 1 else
                                                           "posted-http-headers" if code == 2 else "e2e-unknown-service")
            ck.failure(cls, f"service {nm}: {'request' if kind == 0 else 'response'} {what}", replay_of(i, service=nm, kind=kind))
        # e2e facts observed on the real client (no specification logic here: equalities of what ran)
        for e in o.get("e2e", []):
            nm = G.split_q(e["name"])[1]
            known = op_code_by_name.get(nm, 0)

            def fail(cls, what, st):
                ck.failure(CLASSES[known] if known in CLASSES else cls, f"service {nm}: {what}", replay_of(i, service=nm, step=st))

            if e.get("skipped"):
                fail("service-without-envelopes", e["skipped"], e)
                continue
            for st in e.get("steps", []):
                s = st["step"]
                if s == "undeclared_detail":
                    if "exc" in st or not st.get("fault_populated"):
                        ck.failure("fault-undeclared-detail-entry",
                                   f"service {nm}: a soap:Fault whose detail carries an entry not declared in the WSDL "
                                   f"makes Client.send raise {st.get('exc')}: {st.get('message')}", replay_of(i, service=nm, step=st))
                    continue
                if "exc" in st:
                    fail("client-raises", f"step {s} raised {st['exc']}: {st.get('message')}", st)
                    continue
                if s == "normal":
                    if len(st["calls"]) != 1:
                        fail("client-post-count", f"{len(st['calls'])} POSTs for one send", st)
                    if not st["payload_is_render"]:
                        fail("client-payload-not-render", "posted data is not serializer.render(request)", st)
                    if st["payload_type"] != "str":
                        fail("client-payload-type", f"payload type {st['payload_type']} without encoding", st)
                    if not st["user_headers_untouched"]:
                        fail("client-mutates-user-headers", "the caller's headers dict was modified", st)
                    posted = {k: v for k, v in (st["calls"][0]["headers"] if st["calls"] else [])}
                    lost = [[k, v] for k, v in e.get("user_headers", [])
                            if k not in ("content-type", "SOAPAction") and posted.get(k) != v]
                    if lost:
                        fail("client-user-headers-lost", f"user headers {lost} are not among the posted headers {posted}", st)
                    if not st["result_equal"]:
                        fail("client-response-roundtrip", "send() did not return the response parsed into the output class", st)
                elif s == "fault":
                    if not st["fault_populated"] or not st["result_equal"]:
                        fail("client-fault-not-parsed", "a soap:Fault response did not come back with the fault populated", st)
                elif s == "generic_fault":
                    if not st["fault_populated"] or not st["fields_ok"]:
                        fail("client-fault-not-parsed", "a plain SOAP 1.1 Fault (no detail) was not parsed field by field", st)
                elif s == "encoded":
                    if not st["payload_is_encoded_render"] or st["payload_type"] != "bytes":
                        fail("client-payload-encoding", f"payload is not render(request).encode({st['encoding']!r})", st)
                elif s == "foreign_transport":
                    if st["raised"] != "ClientValueError" or st["n_calls"] != 0:
                        fail("client-foreign-transport", f"foreign transport: raised {st['raised']}, posts {st['n_calls']}", st)
                elif s == "wrong_input":
                    if st["raised"] != "ClientValueError" or st["n_calls"] != 0:
                        fail("client-wrong-input-type", f"wrong input type: raised {st['raised']}, posts {st['n_calls']}", st)

    # ---------------- Client.prepare_headers: model <-> implementation
    hcases = []
    keys = ["content-type", "Content-Type", "SOAPAction", "soapaction", "X-A", "Accept", ""]
    for _ in range(ck.n(150, 3000)):
        tr = r.choice([G.SOAP_HTTP] * 6 + ["http://schemas.xmlsoap.org/soap/smtp", "", G.SOAP_HTTP + "/", None])
        act = r.choice([None, "", "urn:a", "http://x/y#z", " "])
        hs, seen = [], set()
        for k in r.sample(keys, r.randint(0, 4)):
            if k not in seen:
                seen.add(k)
                hs.append([k, r.choice(["1", "text/plain", "", "user"])])
        hcases.append({"transport": tr, "soap_action": act, "headers": hs})
    hres = run_impl("impl_c17.py", {"op": "headers", "cases": hcases}, with_shims=True)

    def pairs(l):
        return clist(l, lambda kv: f"({cstr(kv[0])}, {cstr(kv[1])})", "(str * str)")

    hterms = [f"({copt(hc['transport'], cstr)}, {copt(hc['soap_action'], cstr)}, {pairs(hc['headers'])}, "
              + ("None" if "err" in hr else f"(Some {pairs(hr['ok'])})") + ")" for hc, hr in zip(hcases, hres)]
    for j in coq_bad_indices("c17_headers", IMPORTS, "", "option str * option str * list (str * str) * option (list (str * str))",
                             "agree_prepare_headers", hterms):
        ck.failure("corr-prepare-headers", f"Model/Wsdl.v and Client.prepare_headers disagree on {hcases[j]}: {hres[j]}",
                   {"case": hcases[j], "impl": hres[j]})
    for hc, hr in zip(hcases, hres):
        if "err" in hr and hr["err"] != "ClientValueError":
            ck.failure("client-headers-exception", f"prepare_headers raised {hr['err']} on {hc}", {"case": hc})
        if "ok" in hr and not hr["input_untouched"]:
            ck.failure("client-mutates-user-headers", f"prepare_headers modified its argument on {hc}", {"case": hc})

    ck.cov["evaluations"] = stats["operations"] + stats["e2e_steps"] + len(hcases)
    ck.cov["distinct_nontrivial"] = len(distinct)
    ck.cov["rule"] = ("one case = one generated WSDL (1-4 operations x document/rpc at binding or operation level x element/type "
                      "parts x header in the same or a separate message, before or after soap:body x 0-2 faults x inline/imported "
                      "schema x one or two ports/bindings/services x local or root namespace declarations); distinct = distinct "
                      "(WSDL, service description) pairs judged against `expected`; each also drives 7 client steps")
    ck.cov["input_distribution"] = stats
    ck.cov["samples"] = [{"origin": cases[i]["origin"], "features": cases[i]["features"],
                          "services": [s["name"] for s in cases[i].get("real", [])], "verdict": list(verdicts[i][3])}
                         for i in sorted(verdicts)[:6]]
    return ck.finish(obligations=obligations, discharged=discharged,
                     checker_cmd="make -C coq Properties/C17.vo Model/WsdlCorr.vo && coqc -Q coq XV coq/Properties/C17.v (Print Assumptions); "
                                 "coqc on generated Corr/eval_c17_*.v (oracle_case by vm_compute)",
                     trusted_base=TRUSTED_COMMON + [
                         "Spec/WsdlSpec.v `expected` is hand-written from WSDL 1.1 / SOAP 1.1 (+ WS-I BP R2729/R2735): agreement = consistency with that reading",
                         "lxml (independent reading of the WSDL and of the posted payloads)",
                         "harness/render_standin.py instead of service.jinja2/class.jinja2; shims for click/jinja2/toposort/requests",
                         "requests/HTTP (DefaultTransport) is not exercised: a recording Transport subclass stands in",
                         "XmlSerializer/XmlParser/XmlContext are used as they are (their correctness is C01/C03/C14)",
                         "axioms: " + (", ".join(axioms) or "none (closed under the global context)")],
                     assumptions=["generated classes are read through XmlContext metadata and the processed codegen classes",
                                  "rpc message classes are recognised by their codegen qname = {tns}<message name> and tag Element"])


def strip_decl(text):
    return re.sub(r"^<\?xml[^>]*\?>\s*", "", text)


def expected_names(D):
    """service names in the order of `expected` — used only to label Coq's per-operation
    verdicts (a wrong label cannot turn a failing verdict into a passing one)."""
    out = []
    bmap = {}
    for b in D["bindings"]:
        bmap.setdefault(b["name"], b)
    for s in D["services"]:
        for p in s["ports"]:
            b = bmap.get(p["binding"].split(":", 1)[-1])
            if not b:
                continue
            pt = b["type"].split(":", 1)[-1]
            ptd = next((x for x in D["port_types"] if x["name"] == pt), None)
            if not ptd:
                continue
            for op in b["operations"]:
                if any(po["name"] == op["name"] for po in ptd["operations"]):
                    out.append(pt + "_" + op["name"])
    return out
