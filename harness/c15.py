"""C15 — bad input fails cleanly.

Deciding artefact for the binding layer: the theorems of coq/Properties/C15.v over Model/Parser.v
(`outcome_documented` for every well nested stream of parser events; the one remaining refutation is an
`end` without `start` on user supplied event lists; four earlier refutations were repaired in /repo and their
witnesses are replayed as regression cases; linear step count).  Tie: differential correspondence model <-> real parser on
the events the real handlers delivered for FAULTED documents (so every undocumented exception the
implementation raises in the binding layer is either reproduced by the model through a specific modelled
defect -> narrow known-finding class, or a correspondence violation).
Byte level (tokenising, termination, rejection of ill-formed input) belongs to expat / libxml2 and json:
fault enumeration on the real code only -- truncation at each offset, byte flips, element deletion /
duplication / retagging / reordering, value and attribute corruption, bad xsi:type / xsi:nil, undeclared
prefixes, wrong root, random bytes; both handlers and JsonParser; every call under signal.alarm(5).
"""
import json
import os

import common
from common import Check, standard_proof_step, TRUSTED_COMMON
from c10 import (IMPORTS as IMPORTS0, DICT_IMPORTS, coq_codes, corr_term, dict_defs, dict_term, guarded, harness_problems, job_defs,
                 job_replay_info, make_jobs, run_jobs)

IMPORTS = IMPORTS0 + "\nFrom XV Require Import Proofs.ParserDoc."
EXTRAS_C15 = ["listenum", "compound", "allprims", "poly", "wildknown", "wrappers", "required", "wildtail", "anytype", "noinitwild", "fixed", "textattr", "union"]
DOCUMENTED = ("ParserError", "ConverterError", "XmlContextError", "XmlHandlerError")

SITE_CLASS = {
    "(Err (PyTypeError TMissingArg))": "binding-missing-required-argument-TypeError",
    "(Err (PyTypeError TUnexpectedKw))": "binding-init-false-wildcard-TypeError",
    "(Err (PyTypeError TBytesWrapper))": "binding-bytes-wrapper-TypeError",
    "(Err (PyTypeError TNoneQname))": "binding-tail-before-wildcard-TypeError",
    "(Err PyIndexError)": "events-end-without-start-IndexError",
}


def run(ck: Check):
    ck.level = "proof"
    obligations, discharged, axioms = standard_proof_step(ck, extra_targets=["Model/ParserCorr.vo", "Proofs/ParserWitness.vo", "Proofs/ParserDoc.vo", "Proofs/DictLeakSkip.vo"])
    q = ck.quick
    budget = {"truncations": 24 if q else 120, "flips": 20 if q else 60, "structural": 22 if q else 50, "prefix": 3 if q else 6,
              "random": 6 if q else 12, "event_faults": 10 if q else 25, "json_truncations": 10 if q else 40,
              "json_flips": 8 if q else 25, "json_structural": 16 if q else 50, "json_random": 5 if q else 12,
              "encodings": 5 if q else 20, "json_noclass": 6 if q else 25, "json_generic": 10 if q else 40}
    jobs = make_jobs(ck, "c15", EXTRAS_C15, ck.n(8, 26), budget)
    if getattr(ck, "replay_file", None):
        rp = json.load(open(ck.replay_file))["replay"]
        if "job" in rp:
            jobs = [dict(rp["job"], id=0, mode="c15", budget=budget)]
    res = run_jobs(jobs)
    skipped = harness_problems(ck, res)
    defs = job_defs(res)

    # ---------------------------------------------------------------- binding layer: correspondence + documented set
    terms, meta = [], []
    unsupported = 0
    explained = set()        # (job id, doc key, handler) whose outcome the binding cases account for
    for j in res["jobs"]:
        if not j.get("universe"):
            continue
        for c in j["cases"]:
            rp = {"job": job_replay_info(j), "case": c["replay"]}
            if c.get("kind") == "timeout":
                ck.failure("timeout", f"parser did not return within 5 s ({c['tag']})", rp)
                continue
            if c["obs"] is None and c.get("exc") and not c["unsupported"]:
                ck.failure("unexpected-exception-" + c["exc"], f"{c['tag']} ({c['replay'].get('what')}) raised {c['exc']}: {c.get('msg')} "
                                                               f"at {c.get('where')}", rp)
                continue
            if c["unsupported"] or c["obs"] is None:
                unsupported += 1
                continue
            terms.append(corr_term(j, c))
            meta.append((j, c))
    codes = coq_codes(f"c15_bind_{os.getpid()}", defs, "corr_case", "c15_code_guarded", terms, imports=IMPORTS)
    undocumented = {}
    guards_true = 0
    not_wf = set()
    for (j, c), code in zip(meta, codes):
        guards_true += bool(code & 4)
        if code & 8:
            not_wf.add(j["id"])
        if code & 4 and code & 2:
            ck.failure("guarded-theorem-contradicted", f"all guards of C15_outcome_documented hold and the implementation answered {c['obs']} "
                                                       f"({c['tag']}, {c['replay'].get('what')})",
                       {"job": job_replay_info(j), "case": c["replay"], "observed": c["obs"][:300]})
        rp = {"job": job_replay_info(j), "case": c["replay"], "observed": c["obs"][:300]}
        key = (j["id"], c["replay"].get("doc_b64"), c.get("handler"))
        if code & 1:
            ck.failure("corr-parser", f"model and implementation disagree ({c['tag']}, {c['replay'].get('what')}) cfg={c['cfg']} "
                                      f"impl={c['obs'][:200]} {c.get('msg')}", rp)
            continue
        explained.add(key)
        if code & 2:
            cls = SITE_CLASS.get(c["obs"], "undocumented-" + c["obs"])
            undocumented[cls] = undocumented.get(cls, 0) + 1
            ck.failure(cls, f"{c['tag']} ({c['replay'].get('what')}): {c.get('exc')} {c.get('msg')} at {c.get('where')}; "
                            f"the model reproduces {c['obs']}", rp)

    # ---------------------------------------------------------------- documents: both handlers
    stats = {"docs": 0, "illformed": 0, "native_rejects_illformed": 0, "wf": 0, "timeouts": 0}
    outcome_hist = {}

    def classify_doc(j, d):
        stats["docs"] += 1
        ill = not d["wf_lxml"]
        stats["illformed" if ill else "wf"] += 1
        for h in ("native", "lxml"):
            o = d[h]
            rp = {"job": job_replay_info(j), "case": {"doc_b64": d["doc_b64"], "cfg": d["cfg"], "handler": h, "what": d["what"]}}
            k = (h, d["fault"], o["kind"] if o["kind"] != "err" else o["exc"])
            outcome_hist[k] = outcome_hist.get(k, 0) + 1
            if o["kind"] == "timeout":
                stats["timeouts"] += 1
                ck.failure("timeout", f"{h} handler did not return within 5 s on a faulted document ({d['what']})", rp)
            elif o["kind"] == "err" and o["exc"] not in DOCUMENTED:
                if (j["id"], d["doc_b64"], h) in explained:
                    continue                       # classified above through the model
                if h == "native" and o["exc"] == "LookupError" and (o["msg"] or "").startswith("unknown encoding"):
                    ck.failure("native-unknown-encoding-LookupError",
                               f"native handler: {o['msg']} ({d['what']})", rp)
                else:
                    ck.failure(f"undocumented-{h}-{o['exc']}", f"{h} handler raised {o['exc']}: {o['msg']} ({d['what']}), not explained by the model", rp)
        if ill:
            nat = d["native"]
            rp = {"job": job_replay_info(j), "case": {"doc_b64": d["doc_b64"], "cfg": d["cfg"], "handler": "native", "what": d["what"]}}
            if nat["kind"] == "err":
                stats["native_rejects_illformed"] += 1
            elif nat["kind"] == "ok":
                info = d.get("wf_info") or {}
                if info.get("only_version"):
                    ck.failure("native-accepts-illformed-xmldecl-version",
                               f"pure-Python handler accepts a document whose only defect is the XML declaration's version ({d['what']}; libxml2: {info.get('errors', [])[:2]})", rp)
                else:
                    ck.failure("native-accepts-illformed", f"pure-Python handler accepts an ill-formed document ({d['what']}; libxml2: {info.get('errors', [])[:3]})", rp)

    for j in res["jobs"]:
        for d in j.get("docs", []):
            guarded(ck, f"document classification ({d.get('what')})", lambda: classify_doc(j, d))

    # ---------------------------------------------------------------- JSON parser
    jstats = {"docs": 0, "illformed": 0, "wf": 0}

    def classify_json(j, d):
        if "skipped" in d:
            return
        jstats["docs"] += 1
        jstats["wf" if d["wf"] else "illformed"] += 1
        o = d["res"]
        rp = {"job": job_replay_info(j), "case": {"json_b64": d["doc_b64"], "what": d["what"]}}
        k = ("json", d["fault"], o["kind"] if o["kind"] != "err" else o["exc"])
        outcome_hist[k] = outcome_hist.get(k, 0) + 1
        if o["kind"] == "timeout":
            ck.failure("timeout", f"JsonParser did not return within 5 s ({d['what']})", rp)
        elif o["kind"] == "ok" and not d["wf"]:
            ck.failure("json-accepts-illformed", f"JsonParser accepts ill-formed JSON ({d['what']})", rp)
        elif o["kind"] == "err" and o["exc"] not in DOCUMENTED:
            cls = ("json-deep-" if d["fault"] == "deep" else "json-misfit-" if d["wf"] else "json-illformed-") + str(o["exc"])
            ck.failure(cls, f"JsonParser raised {o['exc']} at {d.get('where')}: {o['msg']} ({d['what']})", rp)

    for j in res["jobs"]:
        for d in j.get("json_docs", []):
            guarded(ck, f"json classification ({d.get('what')})", lambda: classify_json(j, d))

    # ---------------------------------------------------------------- dictionary decoder: model + theorem
    dterms, dmeta = [], []
    for j in res["jobs"]:
        if not (j.get("universe") and j.get("generics")):
            continue
        for d in j.get("json_docs", []):
            if d.get("jterm") is None:
                continue
            if d["dobs"] is None:
                continue           # an exception class outside the model's outcome type: reported by classify_json above
            dterms.append(dict_term(j, d["dcfg"], d["clazz_none"], d["jterm"], d["dobs"]))
            dmeta.append((j, d))
    dcodes = coq_codes(f"c15_dict_{os.getpid()}", dict_defs(res), "dict_case", "dict_code_guarded", dterms, imports=DICT_IMPORTS, shard=80)
    dict_guarded, dict_not_closed = 0, set()
    for (j, d), code in zip(dmeta, dcodes):
        rp = {"job": job_replay_info(j), "case": {"json_b64": d["doc_b64"], "what": d["what"]}}
        dict_guarded += bool(code & 4)
        if code & 8:
            dict_not_closed.add(j["id"])
        if code & 1:
            ck.failure("corr-dict-decoder", f"DictLeak model and DictDecoder disagree on the outcome class ({d['what']}): impl {d['dobs']} "
                                            f"{d['res'].get('msg')}", rp)
        elif code & 2 and code & 4:
            ck.failure("dict-theorem-contradicted", f"dict_wf holds and the decoder raised {d['dobs']} ({d['what']})", rp)
    for jid in sorted(dict_not_closed):
        j = res["jobs"][jid]
        ck.failure("exported-metadata-not-wf", f"dict_wf (hypothesis of C15_dict_outcome_documented) is false of the metadata built for "
                                               f"{j['model']} seed {j['seed']}", {"job": job_replay_info(j)})

    for jid in sorted(not_wf):
        j = res["jobs"][jid]
        ck.failure("exported-metadata-not-wf", f"wf_universe (hypothesis of C15_outcome_documented) is false of the metadata the real XmlContext "
                                               f"built for {j['model']} seed {j['seed']}", {"job": job_replay_info(j)})
    ck.cov["evaluations"] = len(terms) + 2 * stats["docs"] + jstats["docs"] + len(dterms)
    ck.cov["distinct_nontrivial"] = len({(j["id"], c["replay"].get("what"), c.get("handler")) for j, c in meta}) + stats["docs"] + jstats["docs"]
    ck.cov["rule"] = ("distinct = faulted documents (each run through both XML handlers / the JSON parser) + distinct binding-layer streams "
                      "(events delivered by a real handler for a faulted document, or a mutated recorded stream) under correspondence")
    ck.cov["input_distribution"] = {"jobs": len(jobs), "jobs_skipped": skipped, "binding_cases": len(terms), "unsupported_cases": unsupported,
                                    "xml_documents": stats, "json_documents": jstats,
                                    "undocumented_binding_outcomes_by_class": undocumented,
                                    "cases_satisfying_all_guards_of_C15_outcome_documented": guards_true,
                                    "jobs_whose_exported_metadata_fails_wf_universe": len(not_wf),
                                    "dict_decoder_correspondence_cases": len(dterms),
                                    "dict_cases_satisfying_hypotheses_of_C15_dict_outcome_documented": dict_guarded,
                                    "outcomes": {" / ".join(map(str, k)): v for k, v in sorted(outcome_hist.items(), key=str)}}
    ck.cov["samples"] = [{"model": j["model"], "seed": j["seed"], "what": c["replay"].get("what"), "tag": c["tag"], "observed": c["obs"][:120]}
                         for (j, c) in meta[:6]]
    return ck.finish(obligations=obligations, discharged=discharged,
                     checker_cmd="make -C coq Properties/C15.vo && coqc -Q coq XV coq/Properties/C15.v (Print Assumptions)",
                     trusted_base=TRUSTED_COMMON + [
                         "expat / libxml2 / json tokenisers: NOT modelled; fault enumeration only (termination under a 5 s alarm, exception type, "
                         "well-formedness verdict of libxml2 in strict mode as the reference for the pure-Python handler)",
                         "harness/bind_export.py and harness/impl_parser.py (export of real metadata/events, converter-call recording)",
                         "axioms: " + (", ".join(axioms) or "none (all theorems closed under the global context)")],
                     assumptions=["element and attribute names in parser events are non-empty (XML names)",
                                  "one XmlMeta per class (C14's subject)", "the universe is closed (every referenced class has metadata)",
                                  "libxml2's NAMESPACE/WAR_NS_URI complaint (namespace name is not a valid URI reference) is not a well-formedness error",
                                  "documents produced by the declared-encoding faults carry no ill-formedness verdict: libxml2 rejecting an encoding outside "
                                  "its repertoire (ERR_UNSUPPORTED_ENCODING / ERR_INVALID_ENCODING) is a limit of the reference processor; those documents are "
                                  "still checked for termination and for the exception type"])
