"""C18 — Python-code rendering evaluates back to the object.

Deciding artefact: theorems of coq/Properties/C18.v over Model/Pycode.v (the serializer)
and Spec/PyEval.v (values, class tables, the evaluator of the emitted expression subset).
Tie: differential correspondence on generated binding models and instances —
  agree_repr : model rendering (import lines + expression AST) = ast.parse of the
               implementation's text,
  agree_eval : the specification's evaluator = CPython's exec on that text,
  agree_veq  : the specification's equality = Python's NaN-tolerant ==.
Search: exec the rendered source in a fresh namespace and compare; the verdict (guard,
well-formedness, classification of failures) is computed in Coq.
"""
import json
import os

from common import (Check, coq_bad_indices, coq_eval, run_impl, standard_proof_step, TRUSTED_COMMON, ROOT)
from coqterm import cZ, cstr, cbool, copt, clist

IMPORTS = "From XV Require Import Base.Str Spec.PyEval Model.Pycode Model.PycodeCorr Model.PycodeText."
GENERICS = "xsdata.formats.dataclass.models.generics"
ANY = [GENERICS, ["AnyElement"]]
DERIVED = [GENERICS, ["DerivedElement"]]

HEADER = '''from __future__ import annotations
import datetime
import decimal as _decimal
from dataclasses import dataclass, field
from enum import Enum, Flag, IntEnum, IntFlag, StrEnum
from typing import Any, Optional
from xml.etree.ElementTree import QName
from xsdata.models.datatype import (XmlBase64Binary, XmlDate, XmlDateTime, XmlDuration, XmlHexBinary, XmlPeriod,
                                    XmlTime)
'''


# ------------------------------------------------------------------ recipes (JSON values)
def S(s):
    return {"t": "str", "v": [ord(c) for c in s]}


def I(z):
    return {"t": "int", "v": str(z)}


def B(b):
    return {"t": "bool", "v": bool(b)}


def F(x):
    import math
    import struct
    bits = 0x7FF8000000000000 if math.isnan(x) else struct.unpack("<Q", struct.pack("<d", x))[0]
    return {"t": "float", "v": str(bits)}


def D(s):
    return {"t": "dec", "v": [ord(c) for c in s]}


def Q(s):
    return {"t": "qname", "v": [ord(c) for c in s]}


NONE = {"t": "none"}


def py_src(r):
    """Python source of a recipe (used for defaults inside generated modules)."""
    t = r["t"]
    if t == "none":
        return "None"
    if t == "bool":
        return "True" if r["v"] else "False"
    if t == "int":
        return r["v"]
    if t == "float":
        import struct
        x = struct.unpack("<d", struct.pack("<Q", int(r["v"])))[0]
        return f"float({str(x)!r})"
    if t == "str":
        return repr("".join(chr(c) for c in r["v"]))
    if t == "bytes":
        b = repr(bytes(r["v"]))
        return {"plain": b, "hex": f"XmlHexBinary({b})", "b64": f"XmlBase64Binary({b})"}[r["k"]]
    if t == "dec":
        return "_decimal.Decimal(%r)" % "".join(chr(c) for c in r["v"])
    if t == "qname":
        return "QName(%r)" % "".join(chr(c) for c in r["v"])
    if t == "xml":
        args = list(r["args"]) + ([] if r["off"] is None else [r["off"]])
        return {"date": "XmlDate", "time": "XmlTime", "datetime": "XmlDateTime"}[r["k"]] + "(" + ", ".join(args) + ")"
    if t == "std":
        return "datetime." + r["k"] + "(" + ", ".join(r["args"]) + ")"
    if t == "dur":
        return "XmlDuration(%r)" % "".join(chr(c) for c in r["v"])
    if t == "period":
        return "XmlPeriod(%r)" % "".join(chr(c) for c in r["v"])
    if t == "enum":
        return r["src"]
    if t == "list":
        return "[" + ", ".join(py_src(x) for x in r["v"]) + "]"
    if t == "tuple":
        return "(" + "".join(py_src(x) + ", " for x in r["v"]) + ")"
    raise KeyError(t)


# ------------------------------------------------------------------ scalar generators
STRS = ["", "abc", "a'b", 'a"b', "a'b\"c", "back\\slash", "line\nbreak", "tab\t", "\r", "é", "\u2028", "😀",
        "\ud800", "\x00", "\x7f", "\xa0", "{urn:x}local", "None", "float(\"inf\")", " spaces ", "\\n", "'''", '"""']


LONG_LENGTHS = [(66, 82), (138, 152), (210, 222), (300, 340)]
SPECIALS = ["\n", "\\", "'", '"', "\x12", "\t", " ", "\x7f", "é", "😀", "\x00", "\\n", "\\'", "\ud800", "{", "}", "%"]


def long_len(r):
    lo, hi = r.choice(LONG_LENGTHS)
    return r.randint(lo, hi)


def g_long_str(r):
    """Long strings (around 72, 144, 216 and 300+ characters) with characters that repr() escapes, both
    quote kinds, non-ASCII and astral characters placed at every offset relative to multiples of 72."""
    n = long_len(r)
    chars = [r.choice("abcdefghij klmnopqrstuvwxyz0123456789") for _ in range(n)]
    quotes = r.choice(["", "'", '"', "'\""])
    spots = [r.randrange(n) for _ in range(r.randint(0, 3))]
    for base in range(72, n + 8, 72):                      # something escaped close to each multiple of 72
        if r.random() < 0.85:
            spots.append(min(n - 1, max(0, base - r.randint(0, 8))))
    for p in spots:
        chars[p] = r.choice(SPECIALS + list(quotes) * 3) if quotes else r.choice(SPECIALS[:2] + SPECIALS[4:])
    if r.random() < 0.15:                                   # escapes everywhere: each source char takes 2-6 text chars
        chars = [r.choice(["\n", "\\", "\x12", " ", "'", "\x00"]) for _ in range(n // 2)]
    return "".join(chars)


def g_long_bytes(r):
    n = long_len(r)
    b = bytearray(r.choice(b"abcdefghijklmnopqrstuvwxyz 0123456789") for _ in range(n))
    spots = [r.randrange(n) for _ in range(r.randint(0, 3))]
    for base in range(72, n + 8, 72):
        if r.random() < 0.85:
            spots.append(min(n - 1, max(0, base - r.randint(0, 8))))
    for p in spots:
        b[p] = r.choice([10, 92, 39, 34, 0, 9, 13, 127, 200, 255, 0x12])
    return bytes(b)


def g_str(r):
    k = r.random()
    if k < 0.12:
        return g_long_str(r)
    if k < 0.5:
        return r.choice(STRS)
    n = r.randint(0, 6)
    return "".join(chr(r.choice([r.randint(32, 126), r.randint(0, 31), r.randint(127, 300), r.randint(0x2000, 0x2100),
                                 0x27, 0x22, 0x5C, r.randint(0x10000, 0x10100)])) for _ in range(n))


def g_int(r):
    if r.random() < 0.06:                                   # very long ints: 70-80, 140-150, 300+ digits
        nd = long_len(r)
        z = r.randint(10 ** (nd - 1), 10 ** nd)
        return -z if r.random() < 0.4 else z
    return r.choice([0, 1, -1, 2, 7, -5, 255, 10 ** 30, -10 ** 20, r.randint(-1000, 1000), r.randint(-2 ** 70, 2 ** 70)])


def g_float(r):
    import struct
    k = r.random()
    if k < 0.45:
        return r.choice([0.0, -0.0, 1.0, -1.0, 1.5, 0.1, float("inf"), float("-inf"), float("nan"), 1e16, 1e22, 1e23,
                         5e-324, 1.7976931348623157e308, -1e-5, 123456789.123, 2.0, 0.5, 1e-7])
    if k < 0.7:
        return float(r.randint(-100, 100))
    x = struct.unpack("<d", struct.pack("<Q", r.getrandbits(64)))[0]
    return x


DECS = ["0", "-0", "1", "1.0", "1.00", "1E+3", "-1.50E+3", "0E-7", "NaN", "-NaN", "Infinity", "-Infinity", "123.456",
        "0.1", "0.5", "1E-10", "NaN123", "2", "10", "1.5"]


def g_dec(r):
    if r.random() < 0.06:                                   # very long Decimals (exact from the string)
        from decimal import Decimal
        digits = tuple(r.randint(0, 9) for _ in range(long_len(r)))
        return str(Decimal((r.randint(0, 1), (r.randint(1, 9),) + digits, r.choice([0, -3, -80, 7, -(len(digits) + 5)]))))
    if r.random() < 0.7:
        return r.choice(DECS)
    from decimal import Decimal
    d = Decimal((r.randint(0, 1), tuple(r.randint(0, 9) for _ in range(r.randint(1, 8))), r.randint(-12, 12)))
    return str(d)


QNAMES = ["local", "{urn:a}b", "{http://www.w3.org/2001/XMLSchema}string", "a'b", "tab\there", "é", "x\u2028y", "a\x0cb",
          "a\\qb"]
QNAMES_BAD = ['a"b', "a\\b", "a\nb", "a\rb", "a\x00b", "a\ud800b", 'a" "b', "{C:\\dir}x"]


def g_qname(r, bad=0.12):
    return r.choice(QNAMES_BAD) if r.random() < bad else r.choice(QNAMES)


def g_bytes(r):
    k = r.random()
    if k < 0.08:
        return g_long_bytes(r)
    if k < 0.4:
        return r.choice([b"", b"abc", b"'", b'"', b"'\"", b"\x00\xff", b"\\", b"\n"])
    return bytes(r.randint(0, 255) for _ in range(r.randint(0, 6)))


def g_date(r):
    y = r.choice([2020, 1, 9999, -5, 12345, r.randint(-3000, 3000) or 1])
    m = r.randint(1, 12)
    d = r.randint(1, 28)
    off = r.choice([None, None, 0, 60, -300, 840])
    return {"t": "xml", "k": "date", "args": [str(y), str(m), str(d)], "off": None if off is None else str(off)}


def g_time(r):
    fr = r.choice([0, 0, 1, 500000000, 123456789, 999999999])
    off = r.choice([None, None, 0, 60, -300])
    return {"t": "xml", "k": "time", "args": [str(r.randint(0, 23)), str(r.randint(0, 59)), str(r.randint(0, 59)), str(fr)],
            "off": None if off is None else str(off)}


def g_datetime(r):
    d = g_date(r)
    t = g_time(r)
    return {"t": "xml", "k": "datetime", "args": d["args"] + t["args"], "off": t["off"]}


DURS = ["P1D", "PT1.5S", "P1Y2M3DT4H5M6S", "-P1M", "PT0S"]
DURS_BAD = ["P1Y\n", "PT1S\n"]
PERIODS = ["--12", "2020Z", "---05", "--02-29", "2001-10+02:00", "1999"]


def g_scalar(r, kind=None):
    kind = kind or r.choice(["none", "bool", "int", "float", "str", "bytes", "hex", "b64", "dec", "qname", "date", "time",
                             "datetime", "dur", "period"] * 3 + ["pydate", "pytime", "pydatetime"])
    if kind == "pydate":
        return {"t": "std", "k": "date", "args": [str(r.randint(1, 9999)), str(r.randint(1, 12)), str(r.randint(1, 28))]}
    if kind == "pytime":
        return {"t": "std", "k": "time", "args": [str(r.randint(0, 23)), str(r.randint(0, 59)), str(r.choice([0, 0, 30])),
                                                    str(r.choice([0, 0, 0, 250000]))]}
    if kind == "pydatetime":
        return {"t": "std", "k": "datetime",
                "args": [str(r.randint(1, 9999)), str(r.randint(1, 12)), str(r.randint(1, 28)), str(r.randint(0, 23)),
                         str(r.randint(0, 59)), str(r.choice([0, 0, 30])), str(r.choice([0, 0, 0, 250000]))]}
    if kind == "none":
        return NONE
    if kind == "bool":
        return B(r.random() < 0.5)
    if kind == "int":
        return I(g_int(r))
    if kind == "float":
        return F(g_float(r))
    if kind == "str":
        return S(g_str(r))
    if kind in ("bytes", "hex", "b64"):
        return {"t": "bytes", "k": {"bytes": "plain"}.get(kind, kind), "v": list(g_bytes(r))}
    if kind == "dec":
        return D(g_dec(r))
    if kind == "qname":
        return Q(g_qname(r))
    if kind == "date":
        return g_date(r)
    if kind == "time":
        return g_time(r)
    if kind == "datetime":
        return g_datetime(r)
    if kind == "dur":
        return {"t": "dur", "v": [ord(c) for c in (r.choice(DURS_BAD) if r.random() < 0.1 else r.choice(DURS))]}
    if kind == "period":
        return {"t": "period", "v": [ord(c) for c in r.choice(PERIODS)]}
    raise KeyError(kind)


# ------------------------------------------------------------------ worlds
NAMES = ["Root", "Item", "Address", "Order", "Node", "Leaf", "Meta", "Entry", "Choice", "Config", "Part", "Unit"]
ENAMES = ["Color", "Kind", "Status", "Mode", "Level"]
MEMBERS = ["A", "B", "RED", "VALUE_1", "none", "X_Y"]
PRIM_KINDS = ["int", "float", "str", "bool", "dec", "qname", "bytes", "hex", "date", "time", "datetime", "dur", "period"] * 4 \
    + ["pydate", "pytime", "pydatetime"]
ANNOT = {"int": "int", "float": "float", "str": "str", "bool": "bool", "dec": "Decimal", "qname": "QName", "bytes": "bytes",
         "hex": "XmlHexBinary", "b64": "XmlBase64Binary", "date": "XmlDate", "time": "XmlTime", "datetime": "XmlDateTime",
         "dur": "XmlDuration", "period": "XmlPeriod", "pydate": "datetime.date", "pytime": "datetime.time",
         "pydatetime": "datetime.datetime"}


ENUM_BASES = ["IntEnum", "IntFlag", "Flag", "StrEnum", "str, Enum", "float, Enum", "bytes, Enum"]
FLAG_BASES = ("IntFlag", "Flag")


def enum_member_value(base, i, name):
    """Member values of mixed-in enums.  They are chosen outside everything the scalar generators
    produce: a member of such an enum == its value in Python, and the model compares enum members
    only with enum members (no field default or dict key may equal a member by value)."""
    if base == "IntEnum":
        return repr(7001 + i)
    if base in FLAG_BASES:
        return repr(1 << (12 + i))          # the named single flags; combinations are generated as values
    if base in ("StrEnum", "str, Enum"):
        return repr(f"se_{name.lower()}_{i}")
    if base == "float, Enum":
        return repr(7001.5 + i)
    if base == "bytes, Enum":
        return repr(f"be_{i}".encode())
    raise KeyError(base)


def equal_variants(r, d):
    """Values that Python's == identifies with the default d (the skip decision must agree)."""
    t = d["t"]
    out = [d]
    if t == "float":
        import struct
        x = struct.unpack("<d", struct.pack("<Q", int(d["v"])))[0]
        if x == 0:
            out += [F(0.0), F(-0.0), I(0), B(False), D("0"), D("-0.00")]
        elif x == x and abs(x) < 1e6 and x == int(x):
            out += [I(int(x)), D(str(int(x))), D(str(int(x)) + ".0")] + ([B(True)] if x == 1 else [])
    if t == "int":
        z = int(d["v"])
        if abs(z) < 2 ** 50:
            out += [F(float(z)), D(str(z)), D(str(z) + ".00")]
        if z in (0, 1):
            out.append(B(bool(z)))
    if t == "bool":
        out += [I(int(d["v"])), F(float(d["v"]))]
    if t == "dec":
        s = "".join(chr(c) for c in d["v"])
        if "N" not in s and "I" not in s and "E" not in s:
            out.append(D(s + ("0" if "." in s else ".0")))
    if t == "str":
        out += [{"t": "qname", "v": d["v"]}]
    if t == "qname":
        out += [{"t": "str", "v": d["v"]}]
    return out


class World:
    """A generated package: modules -> classes (dataclasses with fields, enums), inner classes."""

    def __init__(self, r, idx):
        self.r = r
        self.pkg = f"c18w{idx}"
        self.mods = [f"{self.pkg}.m1", f"{self.pkg}.m2"] if r.random() < 0.75 else [f"{self.pkg}.m1", f"{self.pkg}.sub.m2"]
        self.classes = []   # dicts: mod, qual, kind, frozen, fields, members, inner(list of same), body order
        self.enums = []
        self.datas = []
        used = {m: set() for m in self.mods}
        # enums first (defaults may refer to them)
        for mod in self.mods:
            for _ in range(r.randint(0, 2)):
                n = r.choice(ENAMES)
                if n in used[mod]:
                    continue
                used[mod].add(n)
                self.add_enum(mod, [n])
        n_data = r.randint(3, 6)
        for i in range(n_data):
            mod = r.choice(self.mods)
            pool = NAMES + (["Decimal"] if r.random() < 0.04 else [])
            n = r.choice(pool)
            if n in used[mod]:
                continue
            used[mod].add(n)
            self.add_data(mod, [n], depth=0)

    def add_enum(self, mod, qual):
        ms = self.r.sample(MEMBERS, self.r.randint(1, 3))
        # plain Enum (what xsdata generates) and the mixed-in kinds: repr_object must test for Enum
        # before it treats the member as the str/int/float/bytes it also is
        base = self.r.choice(["Enum"] * 4 + ENUM_BASES)
        e = {"mod": mod, "qual": qual, "kind": "enum", "members": ms, "inner": [], "base": base}
        self.enums.append(e)
        return e

    def add_data(self, mod, qual, depth):
        r = self.r
        c = {"mod": mod, "qual": qual, "kind": "data", "frozen": r.random() < 0.3, "fields": [], "inner": []}
        if depth < 2 and r.random() < 0.45:
            for _ in range(r.randint(1, 2)):
                if r.random() < 0.5:
                    n = r.choice(ENAMES)
                    if n not in [i["qual"][-1] for i in c["inner"]]:
                        c["inner"].append(self.add_enum(mod, qual + [n]))
                else:
                    n = r.choice(NAMES)
                    if n not in [i["qual"][-1] for i in c["inner"]] and n != qual[-1]:
                        c["inner"].append(self.add_data(mod, qual + [n], depth + 1))
        self.datas.append(c)
        return c

    # fields are decided after all classes exist (they refer to each other)
    def make_fields(self):
        r = self.r
        for c in self.datas:
            names = r.sample(["a", "b", "c", "value", "items", "attrs", "ref", "kind", "any", "x1", "content", "type"],
                             r.randint(1, 6))
            req, opt = [], []
            for n in names:
                f = self.make_field(c, n)
                (req if f["default"] is None and f["init"] else opt).append(f)
            c["fields"] = req + opt

    def visible_enums(self, c):
        """Enums whose members can be written as a default inside class c's body / module."""
        out = []
        for e in self.enums:
            if e["mod"] != c["mod"]:
                continue
            if len(e["qual"]) == 1:
                if e["qual"][0] not in [i["qual"][-1] for i in c["inner"]]:   # not shadowed in the class body
                    out.append((e, e["qual"][0]))
            elif e["qual"][:-1] == c["qual"]:
                out.append((e, e["qual"][-1]))      # inner enum of this very class: bare name in the class body
        return out

    def make_field(self, c, name):
        r = self.r
        k = r.random()
        f = {"name": name, "init": True, "default": None, "kind": None, "annot": "Any"}
        if k < 0.40:
            kind = r.choice(PRIM_KINDS)
            f["kind"] = ("prim", kind)
            f["annot"] = "Optional[%s]" % ANNOT[kind]
            m = r.random()
            if m < 0.2:
                pass                                    # required
            elif m < 0.5:
                f["default"] = ("value", NONE)
            else:
                d = g_scalar(r, kind)
                if kind == "period":
                    d = NONE                            # XmlPeriod is unhashable: dataclasses rejects it as a default
                if kind == "qname" or kind == "dur":
                    d = Q(r.choice(QNAMES)) if kind == "qname" else {"t": "dur", "v": [ord(ch) for ch in r.choice(DURS)]}
                f["default"] = ("value", d)
                if r.random() < 0.25:
                    f["init"] = False                   # fixed value
        elif k < 0.50:
            es = self.visible_enums(c)
            alle = self.enums
            if not alle:
                return self.make_field(c, name)
            if es and r.random() < 0.7:
                e, srcname = r.choice(es)
                m = r.choice(e["members"])
                f["kind"] = ("enum", e)
                f["default"] = ("value", {"t": "enum", "c": [e["mod"], e["qual"]], "m": m, "src": f"{srcname}.{m}"}) \
                    if r.random() < 0.6 else ("value", NONE)
            else:
                f["kind"] = ("enum", r.choice(alle))
                f["default"] = ("value", NONE) if r.random() < 0.7 else None
        elif k < 0.62:
            f["kind"] = ("class", r.choice(self.datas))
            f["default"] = ("value", NONE) if r.random() < 0.8 else None
        elif k < 0.74:
            if c["frozen"] or r.random() < 0.25:
                f["kind"] = ("tuple", r.choice(["int", "str", "class", "float"]))
                f["default"] = r.choice([("factory", {"t": "tuple", "v": []}), ("value", {"t": "tuple", "v": []})])
                f["annot"] = "tuple"
            else:
                f["kind"] = ("list", r.choice(["int", "str", "class", "float", "any", "dec", "enum", "enum"]))
                f["default"] = ("factory", {"t": "list", "v": []}) if r.random() < 0.85 else \
                    ("factory", {"t": "list", "v": [I(1), I(2)]})
                f["annot"] = "list"
        elif k < 0.82:
            f["kind"] = ("dict", None)
            f["default"] = ("factory", {"t": "dict", "v": []})
            f["annot"] = "dict"
        else:
            f["kind"] = ("any", None)
            m = r.random()
            f["default"] = ("value", NONE) if m < 0.6 else (("value", g_scalar(r, r.choice(["int", "float", "str", "bool", "dec"])))
                                                             if m < 0.85 else None)
        return f

    # ---- source
    def class_src(self, c, ind):
        pad = "    " * ind
        out = []
        if c["kind"] == "enum":
            base = c.get("base", "Enum")
            out.append(f"{pad}class {c['qual'][-1]}({base}):")
            for i, m in enumerate(c["members"]):
                if base == "Enum":
                    val = repr(i + 1) if i % 2 else repr(m.lower())
                else:
                    val = enum_member_value(base, i, m)
                out.append(f"{pad}    {m} = {val}")
            return out
        out.append(f"{pad}@dataclass(frozen=True)" if c["frozen"] else f"{pad}@dataclass")
        out.append(f"{pad}class {c['qual'][-1]}:")
        for i in c["inner"]:
            out += self.class_src(i, ind + 1)
            out.append("")
        for f in c["fields"]:
            d = f["default"]
            if d is None:
                out.append(f"{pad}    {f['name']}: {f['annot']}")
                continue
            how, val = d
            args = []
            if not f["init"]:
                args.append("init=False")
            if how == "value" and val["t"] in ("list", "dict"):
                how = "factory"
            if how == "value":
                args.append(f"default={py_src(val)}")
            else:
                if val["t"] == "list" and val["v"]:
                    args.append(f"default_factory=lambda: {py_src(val)}")
                else:
                    args.append("default_factory=" + {"list": "list", "dict": "dict", "tuple": "tuple"}[val["t"]])
            out.append(f"{pad}    {f['name']}: {f['annot']} = field({', '.join(args)})")
        if not c["fields"] and not c["inner"]:
            out.append(f"{pad}    pass")
        return out

    def modules(self):
        srcs = {}
        for mod in self.mods:
            lines = [HEADER]
            for c in self.enums + self.datas:
                if c["mod"] == mod and len(c["qual"]) == 1:
                    lines += self.class_src(c, 0)
                    lines += ["", ""]
            srcs[mod] = "\n".join(lines)
        return srcs


# ------------------------------------------------------------------ instances
class InstGen:
    def __init__(self, r, w: World):
        self.r = r
        self.w = w

    def any_value(self, depth):
        r = self.r
        k = r.random()
        if depth > 3 or k < 0.45:
            if self.w.enums and r.random() < 0.12:
                return self.enum_member()       # list items / dict values / Any fields
            return g_scalar(r)
        if k < 0.55:
            return {"t": "list", "v": [self.any_value(depth + 1) for _ in range(r.randint(0, 3))]}
        if k < 0.62:
            return {"t": "tuple", "v": [self.any_value(depth + 1) for _ in range(r.choice([0, 0, 1, 2]))]}
        if k < 0.66:
            pool = [I(0), I(1), I(5), I(-3), S("a"), S("b'\""), B(True), F(2.5), NONE, D("1.50"), Q("{u}q"),
                    {"t": "tuple", "v": [I(1), S("t")]}, {"t": "tuple", "v": []}]
            return {"t": "set", "frozen": r.random() < 0.5, "v": r.sample(pool, r.choice([0, 0, 1, 2, 3]))}
        if k < 0.74:
            return self.dict_value(depth + 1)
        if k < 0.80 and self.w.enums:
            return self.enum_member()
        if k < 0.88:
            return self.generic(depth + 1)
        return self.obj(r.choice(self.w.datas), depth + 1)

    def enum_member(self):
        """A member of an enum of the world; mixed-in enums (IntEnum, StrEnum, ...) preferred."""
        r = self.r
        mixed = [e for e in self.w.enums if e.get("base", "Enum") != "Enum"]
        e = r.choice(mixed) if mixed and r.random() < 0.6 else r.choice(self.w.enums)
        return self.member_of(e)

    def member_of(self, e):
        r = self.r
        if e.get("base") in FLAG_BASES and r.random() < 0.5:
            # a flag value without a member name: the empty flag or a combination of two or more members
            n = len(e["members"])
            picked = r.sample(range(n), r.randint(2, n)) if n >= 2 and r.random() < 0.75 else []
            return {"t": "flag", "c": [e["mod"], e["qual"]], "v": str(sum(1 << (12 + i) for i in picked))}
        return {"t": "enum", "c": [e["mod"], e["qual"]], "m": r.choice(e["members"])}

    def dict_value(self, depth):
        r = self.r
        items = []
        for _ in range(r.randint(0, 3)):
            kk = r.random()
            if kk < 0.5:
                key = S(g_str(r))
            elif kk < 0.65:
                key = Q(g_qname(r, bad=0.05))
            elif kk < 0.9:
                key = g_scalar(r, r.choice(["int", "bool", "float", "dec", "bytes", "none", "date", "str"]))
            elif kk < 0.95:
                key = {"t": "tuple", "v": [I(1), S("k")] if r.random() < 0.6 else []}
            else:
                key = g_scalar(r, "hex")
            if key["t"] == "dec" and "".join(chr(c) for c in key["v"]).lstrip("-").startswith("NaN"):
                key = S("nan-key")
            items.append([key, self.any_value(depth)])
        return {"t": "dict", "v": items}

    def generic(self, depth):
        r = self.r
        if r.random() < 0.6:
            kw = []
            if r.random() < 0.8:
                kw.append(["qname", S(g_qname(r, bad=0))])
            if r.random() < 0.5:
                kw.append(["text", S(g_str(r))])
            if r.random() < 0.2:
                kw.append(["tail", S(g_str(r))])
            if depth < 4 and r.random() < 0.5:
                kw.append(["children", {"t": "list", "v": [self.any_value(depth + 1) for _ in range(r.randint(0, 2))]}])
            if r.random() < 0.5:
                kw.append(["attributes", {"t": "dict", "v": [[S(g_qname(r, bad=0)), S(g_str(r))] for _ in range(r.randint(0, 2))]}])
            return {"t": "obj", "c": ANY, "kw": kw}
        kw = [["qname", S(g_qname(r, bad=0))], ["value", self.any_value(depth + 1)]]
        if r.random() < 0.5:
            kw.append(["type", S("{urn:t}T") if r.random() < 0.7 else NONE])
        return {"t": "obj", "c": DERIVED, "kw": kw}

    def no_value_collision(self, f, v):
        """Generator assumption (see enum_member_value): a mixed-in enum value never == a field default
        by value.  The empty value of an IntFlag class is the int 0, so `False == Kind(0)`, `0.0 == Kind(0)`
        ... hold in Python and the serializer (rightly) skips the field, while the model compares flag
        values only with flag values.  As the direct value of a field with a numeric default it is
        therefore put inside a list (list items are never compared with a default)."""
        d = f["default"]
        if (v.get("t") == "flag" and v["v"] == "0" and d is not None
                and d[1]["t"] in ("bool", "int", "float", "dec")):
            return {"t": "list", "v": [v]}
        return v

    def field_value(self, f, depth):
        r = self.r
        kind, arg = f["kind"]
        d = f["default"]
        if d is not None and r.random() < 0.3:
            opts = equal_variants(r, d[1])
            v = r.choice(opts)
            return {k: x for k, x in v.items() if k != "src"}
        if d is not None and d[1]["t"] == "none" and r.random() < 0.3:
            return NONE
        if kind == "prim":
            if r.random() < 0.06:
                return g_scalar(r)                       # a value of another type in a typed slot
            return g_scalar(r, arg)
        if kind == "enum":
            return self.member_of(arg)
        if kind == "class":
            if depth > 3:
                return NONE
            return self.obj(arg, depth + 1)
        if kind in ("list", "tuple"):
            n = r.choice([0, 1, 1, 2, 3]) if depth < 4 else 0
            if arg == "class":
                items = [self.obj(r.choice(self.w.datas), depth + 1) for _ in range(n)]
            elif arg == "enum":
                items = [self.enum_member() if self.w.enums else I(0) for _ in range(n)]
            elif arg == "any":
                items = [self.any_value(depth + 1) for _ in range(n)]
            else:
                items = [g_scalar(r, arg) for _ in range(n)]
            if kind == "list" and d is not None and d[1]["v"] and r.random() < 0.3:
                items = d[1]["v"]
            return {"t": kind, "v": items}
        if kind == "dict":
            return self.dict_value(depth + 1)
        return self.any_value(depth + 1)

    def obj(self, c, depth):
        r = self.r
        kw, post = [], []
        for f in c["fields"]:
            if not f["init"]:
                if r.random() < 0.1:
                    post.append([f["name"], g_scalar(r, f["kind"][1] if f["kind"][0] == "prim" else None)])
                continue
            required = f["default"] is None
            if required or r.random() < 0.6:
                kw.append([f["name"], self.no_value_collision(f, self.field_value(f, depth))])
        o = {"t": "obj", "c": [c["mod"], c["qual"]], "kw": kw}
        if post:
            o["set"] = post
        return o


# ------------------------------------------------------------------ Gallina printers
def cpath(p):
    return clist(p, cstr, "str")


def ccref(c):
    return f"({cstr(c[0])}, {cpath(c[1])})"


def cnum(s):
    return cZ(int(s))


def cvalue(v):
    t = v["t"]
    if t == "none":
        return "VNone"
    if t == "bool":
        return f"(VBool {cbool(v['v'])})"
    if t == "int":
        return f"(VInt {cnum(v['v'])})"
    if t == "float":
        return f"(VFloat {cnum(v['v'])})"
    if t == "str":
        return f"(VStr {ccps(v['v'])})"
    if t == "bytes":
        return f"(VBytes {dict(plain='BPlain', hex='BHex', b64='BB64')[v['k']]} {ccps(v['v'])})"
    if t == "dec":
        return f"(VDecimal {ccps(v['v'])})"
    if t == "qname":
        return f"(VQName {ccps(v['v'])})"
    if t == "xml":
        k = dict(date="KDate", time="KTime", datetime="KDateTime")[v["k"]]
        return f"(VXml {k} {clist(v['args'], cnum, 'Z')} {copt(v['off'], cnum)})"
    if t == "std":
        k = dict(date="SDate", time="STime", datetime="SDateTime")[v["k"]]
        return f"(VStd {k} {clist(v['args'], cnum, 'Z')})"
    if t == "dur":
        return f"(VDuration {ccps(v['v'])})"
    if t == "period":
        return f"(VPeriod {ccps(v['v'])})"
    if t == "enum":
        return f"(VEnum {ccref(v['c'])} {cstr(v['m'])})"
    if t == "flag":
        return f"(VFlag {ccref(v['c'])} {cnum(v['v'])})"
    if t == "list":
        return f"(VList {clist(v['v'], cvalue, 'value')})"
    if t == "tuple":
        return f"(VTuple {clist(v['v'], cvalue, 'value')})"
    if t == "set":
        return f"(VSet {cbool(v['frozen'])} {clist(v['v'], cvalue, 'value')})"
    if t == "dict":
        return f"(VDict {clist(v['v'], lambda p: f'({cvalue(p[0])}, {cvalue(p[1])})', '(value * value)')})"
    if t == "obj":
        return f"(VObj {ccref(v['c'])} {clist(v['f'], lambda p: f'({cstr(p[0])}, {cvalue(p[1])})', '(str * value)')})"
    raise KeyError(t)


def ccps(cp):
    if not cp:
        return "(@nil N)"
    return "[" + ";".join(str(c) for c in cp) + "]%N"


def cexpr(e):
    t = e["e"]
    if t == "none":
        return "ENone"
    if t == "bool":
        return f"(EBool {cbool(e['v'])})"
    if t == "int":
        return f"(EInt {cnum(e['v'])})"
    if t == "float":
        return f"(EFloat {cnum(e['v'])})"
    if t == "str":
        return f"(EStr {ccps(e['v'])})"
    if t == "bytes":
        return f"(EBytes {ccps(e['v'])})"
    if t == "name":
        return f"(EName {cpath(e['p'])})"
    if t == "call":
        return (f"(ECall {cpath(e['f'])} {clist(e['args'], cexpr, 'pyexpr')} "
                f"{clist(e['kws'], lambda p: f'({cstr(p[0])}, {cexpr(p[1])})', '(str * pyexpr)')})")
    if t == "list":
        return f"(EList {clist(e['v'], cexpr, 'pyexpr')})"
    if t == "tuple":
        return f"(ETuple {clist(e['v'], cexpr, 'pyexpr')})"
    if t == "set":
        return f"(ESet {clist(e['v'], cexpr, 'pyexpr')})"
    if t == "dict":
        return f"(EDict {clist(e['v'], lambda p: f'({cexpr(p[0])}, {cexpr(p[1])})', '(pyexpr * pyexpr)')})"
    # anything outside the subset: a node no model output is equal to and that does not evaluate
    return "(EName (@nil str))"


def cworld(world):
    def cdef(d):
        if d is None:
            return "DMissing"
        if "factory" in d:
            return f"(DFactory {cvalue(d['factory'])})"
        return f"(DValue {cvalue(d['value'])})"

    def cfd(f):
        return f"{{| f_name := {cstr(f['name'])}; f_init := {cbool(f['init'])}; f_default := {cdef(f['default'])} |}}"

    def ccls(c):
        if c["kind"] == "enum":
            k = f"(KEnum {clist(c['members'], cstr, 'str')} {copt(c.get('flags'), lambda fl: clist(fl, cnum, 'Z'))})"
        else:
            k = f"(KData {cbool(c['frozen'])} {clist(c['fields'], cfd, 'fdesc')})"
        return f"{{| c_ref := {ccref(c['c'])}; c_kind := {k} |}}"

    return clist(world, ccls, "cdesc")


def cobs(res):
    imports = clist(res["imports"], lambda p: f"({cstr(p[0])}, {copt(p[1], cstr)})", "import_line")
    return (f"{{| o_imports := {imports}; o_expr := {copt(res['expr'], cexpr)}; "
            f"o_exec := {copt(res['exec'], cvalue)}; o_equal := {cbool(res['equal'])} |}}")


# ------------------------------------------------------------------ fixed witnesses
def witness_batch():
    """The witnesses of the refutation lemmas in coq/Proofs/PycodeRefuted.v, on the real code."""
    src = HEADER + '''
class Color(Enum):
    RED = "red"


class Perm(IntFlag):
    R = 4096
    W = 8192


@dataclass
class X:
    a: int = 0


@dataclass
class Outer:
    class Kind(Enum):
        A = "a"

    @dataclass
    class Inner:
        v: Optional[float] = field(default=0.0)

    a: Optional[int] = field(default=None)
    inner: Optional[Outer.Inner] = field(default=None)
    e: Any = field(default=None)
    fx: str = field(init=False, default="fixed")
    any: Any = field(default=None)
    x: Any = field(default=None)


@dataclass(frozen=True)
class Fz:
    t: tuple = field(default_factory=tuple)
'''
    src2 = HEADER + '''
@dataclass
class X:
    a: int = 0
    b: str = "q"
'''
    m1, m2 = "c18wit.m1", "c18wit.m2"
    O, Fz, X1, X2 = [m1, ["Outer"]], [m1, ["Fz"]], [m1, ["X"]], [m2, ["X"]]
    cases = [
        ("tuple", {"t": "obj", "c": Fz, "kw": [["t", {"t": "tuple", "v": [I(1), I(2)]}]]}),
        ("inner-enum", {"t": "obj", "c": O, "kw": [["e", {"t": "enum", "c": [m1, ["Outer", "Kind"]], "m": "A"}]]}),
        ("import-collision", {"t": "obj", "c": O, "kw": [["any", {"t": "obj", "c": X2, "kw": [["a", I(2)]]}],
                                                          ["x", {"t": "obj", "c": X1, "kw": [["a", I(1)]]}]]}),
        ("qname-quote", {"t": "obj", "c": O, "kw": [["any", Q('a"b')]]}),
        ("init-false", {"t": "obj", "c": O, "kw": [], "set": [["fx", S("changed")]]}),
        ("stdlib-date", {"t": "obj", "c": O, "kw": [["any", {"t": "std", "k": "date", "args": ["2020", "1", "2"]}]]}),
        ("flag-combination", {"t": "obj", "c": O, "kw": [["any", {"t": "list", "v": [
            {"t": "flag", "c": [m1, ["Perm"]], "v": "12288"}, {"t": "flag", "c": [m1, ["Perm"]], "v": "0"},
            {"t": "enum", "c": [m1, ["Perm"]], "m": "W"}]}]]}),
        ("ok-nontrivial", {"t": "obj", "c": O, "kw": [
            ["a", I(1)], ["inner", {"t": "obj", "c": [m1, ["Outer", "Inner"]], "kw": [["v", F(float("nan"))]]}],
            ["e", {"t": "enum", "c": [m1, ["Color"]], "m": "RED"}],
            ["any", {"t": "list", "v": [D("NaN"), Q("{u}l"), S("a'b\"c\\\n"), F(float("-inf")), {"t": "tuple", "v": []},
                                        {"t": "tuple", "v": [I(1), S("x")]}, {"t": "set", "frozen": True, "v": [I(3)]},
                                        {"t": "dur", "v": [ord(c) for c in "P1Y\n"]},   # stripped by XmlDuration
                                        {"t": "std", "k": "datetime", "args": ["2020", "1", "2", "3", "4", "5", "0"]},
                                        {"t": "dict", "v": [[S("k"), {"t": "bytes", "k": "hex", "v": [0, 39]}]]}]}]]}),
    ]
    return {"pkg": "c18wit", "modules": {m1: src, m2: src2}, "cases": [c for _, c in cases]}, [n for n, _ in cases]


def float_table(spec):
    """(bits, repr text) of every finite float in a value: CPython's float repr is not modelled."""
    import math
    import struct
    out = {}

    def walk(v):
        if isinstance(v, dict):
            if v.get("t") == "float":
                x = struct.unpack("<d", struct.pack("<Q", int(v["v"])))[0]
                if math.isfinite(x):
                    out[v["v"]] = repr(x)
            for x in v.values():
                walk(x)
        elif isinstance(v, list):
            for x in v:
                walk(x)

    walk(spec)
    return sorted(out.items())


def size_of(v):
    return len(json.dumps(v))


# ------------------------------------------------------------------ the check
CLASSES = [("class_imports", "import-name-collision"),
           ("class_init", "init-false-field-not-default")]


def run(ck: Check):
    ck.level = "proof"
    obligations, discharged, axioms = standard_proof_step(ck, extra_targets=["Model/PycodeCorr.vo", "Model/PycodeText.vo"])
    r = ck.rng

    batches, labels, mixed_enums = [], [], {}
    if ck.replay_file:
        rp = json.load(open(ck.replay_file))["replay"]
        batches.append({"pkg": rp["pkg"], "modules": rp["modules"], "cases": [rp["recipe"]]})
        labels.append(["replay"])
    else:
        wb, names = witness_batch()
        batches.append(wb)
        labels.append(names)
        n_worlds = ck.n(40, 400)
        per = ck.n(30, 50)
        for i in range(n_worlds):
            w = World(r, i)
            w.make_fields()
            g = InstGen(r, w)
            cases = []
            for _ in range(per):
                k = r.random()
                if k < 0.8:
                    cases.append(g.obj(r.choice(w.datas), 0))
                elif k < 0.9:
                    cases.append(g.generic(0))
                else:
                    cases.append(g.any_value(1))
            batches.append({"pkg": w.pkg, "modules": w.modules(), "cases": cases})
            labels.append([None] * len(cases))
            mixed_enums[len(batches) - 1] = {(e["mod"], tuple(e["qual"])) for e in w.enums if e.get("base", "Enum") != "Enum"}

    out = run_impl("impl_c18.py", {"batches": batches}, timeout=1500)

    # ---------------- flatten, build Gallina terms
    defs, terms, items = [], [], []
    dist = {"built": 0, "build_exc": 0, "render_exc": 0, "exec_failed": 0, "unequal": 0, "ok": 0}
    for bi, (b, ob) in enumerate(zip(batches, out)):
        defs.append(f"Definition W{bi} : world := {cworld(ob['world'])}.")
        for ci, (recipe, res) in enumerate(zip(b["cases"], ob["cases"])):
            replay = {"pkg": b["pkg"], "modules": b["modules"], "recipe": recipe, "label": labels[bi][ci]}
            if "build_exc" in res:
                dist["build_exc"] += 1
                if labels[bi][ci]:
                    raise RuntimeError(f"witness {labels[bi][ci]} cannot be built: {res['build_exc']}")
                continue
            dist["built"] += 1
            if "render_exc" in res:
                dist["render_exc"] += 1
                ck.failure("render-raises", f"PycodeSerializer.render raised {res['render_exc']}", replay)
                continue
            if res["exec"] is None:
                dist["exec_failed"] += 1
            elif not res["equal"]:
                dist["unequal"] += 1
            else:
                dist["ok"] += 1
            items.append({"replay": replay, "res": res, "size": size_of(recipe), "w": bi})
            terms.append(f"(W{bi}, {cvalue(res['spec'])}, {cobs(res)})")
    ck.cov["evaluations"] = len(items)
    
    # the Coq witnesses of Proofs/PycodeRefuted.v are the objects just built on the real code
    if not ck.replay_file:
        specs = [res["spec"] for res in out[0]["cases"]]
        try:
            verdict = coq_eval("c18_wit", IMPORTS + "\nFrom XV Require Import Proofs.PycodeRefuted.", defs[0],
                               f"witnesses_agree W0 {clist(specs, cvalue, 'value')} W_wit witnesses")
        except Exception as e:  # Proofs/PycodeRefuted.vo missing because the build is broken
            verdict = f"unavailable: {type(e).__name__}"
        if verdict != "true":
            ck.failure("corr-witness", f"the refutation witnesses in Coq and the objects built by the harness differ ({verdict})",
                       {"pkg": batches[0]["pkg"], "modules": batches[0]["modules"], "recipe": batches[0]["cases"][0]})

    # all predicates are evaluated in one pass per group of cases: the group's worlds and cases are
    # parsed once (as definitions), the case list handed to coq_bad_indices is (predicate, case) pairs
    PREDS = ["agree_repr", "agree_eval", "agree_veq", "oracle_guarded"] + [p for p, _ in CLASSES] + ["in_domain", "in_guard", "agree_text"]
    GROUP = 48
    groups = [list(range(i, min(i + GROUP, len(items)))) for i in range(0, len(items), GROUP)]

    def eval_group(gi):
        idxs = groups[gi]
        worlds = sorted({items[i]["w"] for i in idxs})
        gdefs = "\n".join(defs[w] for w in worlds)
        gdefs += "\nDefinition group_cases : list ccase := [\n" + ";\n".join(terms[i] for i in idxs) + "]."
        gdefs += "\nDefinition preds : list (ccase -> bool) := [" + "; ".join(PREDS[:-1]) + "]."
        gdefs += "\nDefinition group_texts : list (list (Z * str) * str) := [\n" + ";\n".join(
            "(" + clist(float_table(items[i]["res"]["spec"]), lambda p: f"({cnum(p[0])}, {cstr(p[1])})", "(Z * str)")
            + ", " + ccps(items[i]["res"]["text"]) + ")" for i in idxs) + "]."
        check = ("fun p : nat * nat => match nth_error group_cases (snd p) with None => false | Some c => "
                 f"if Nat.eqb (fst p) {len(PREDS) - 1} then "
                 "match nth_error group_texts (snd p) with Some t => agree_text (fst (fst c), snd (fst c), fst t, snd t) "
                 "| None => false end "
                 "else match nth_error preds (fst p) with Some f => f c | None => false end end")
        pairs = [f"({k}%nat, {j}%nat)" for k in range(len(PREDS)) for j in range(len(idxs))]
        bad = coq_bad_indices(f"c18_g{gi}", IMPORTS, gdefs, "nat * nat", check, pairs, shard=len(pairs) + 1)
        return [(PREDS[b // len(idxs)], idxs[b % len(idxs)]) for b in bad]

    bad_by_pred = {p: [] for p in PREDS}
    import concurrent.futures as cf
    with cf.ThreadPoolExecutor(max_workers=14) as ex:
        for res_g in ex.map(eval_group, range(len(groups))):
            for pname, i in res_g:
                bad_by_pred[pname].append(i)

    def run_pred(pred, tag=None):
        return sorted((items[i] for i in bad_by_pred[pred]), key=lambda it: it["size"])

    def text_of(it):
        return "".join(chr(c) for c in it["res"]["text"])

    def show(it):
        return f"{text_of(it)[:400]!r} exec={it['res'].get('exc') or ('equal' if it['res']['equal'] else 'unequal')}"

    corr_bad = set()
    for pred, cls, what in (("agree_repr", "corr-repr", "model and implementation render differently"),
                            ("agree_eval", "corr-eval", "the specification's evaluator and CPython's exec disagree"),
                            ("agree_veq", "corr-equality", "the specification's equality and Python's == disagree")):
        for it in run_pred(pred, pred):
            corr_bad.add(id(it))
            ck.failure(cls, f"{what}: {show(it)}", it["replay"])

    for it in run_pred("oracle_guarded", "oracle"):
        ck.failure("oracle-inside-guard", f"rendered source does not evaluate back although the guard holds: {show(it)}",
                   it["replay"])

    explained = set()
    for pred, cls in CLASSES:
        for it in run_pred(pred, pred):
            explained.add(id(it))
            if id(it) in corr_bad:
                continue
            ck.failure(cls, f"{show(it)}", it["replay"])
    failed = [it for it in items if it["res"]["exec"] is None or not it["res"]["equal"]]
    for it in sorted(failed, key=lambda it: it["size"]):
        if id(it) not in explained and id(it) not in corr_bad:
            ck.failure("unexplained-failure", f"evaluating back failed and no modelled defect explains it: {show(it)}",
                       it["replay"])

    # the character-level printer (Model/PycodeText.v) against the implementation's text: information only —
    # layout or quoting drift does not affect the property (the AST-level agree_repr decides)
    text_bad = run_pred("agree_text")
    ck.cov["text_layout_mismatches"] = len(text_bad)
    if text_bad:
        ck.notes.append("character-level printer differs from the implementation on %d cases, first: %r"
                        % (len(text_bad), text_of(text_bad[0])[:200]))
    n_dom = len(items) - len(run_pred("in_domain", "dom"))
    n_guard = len(items) - len(run_pred("in_guard", "guard"))

    # ---------------- evidence
    distinct = {json.dumps(it["res"]["spec"], sort_keys=True) for it in items}
    ck.cov["distinct_nontrivial"] = len(distinct)
    ck.cov["rule"] = ("generated packages (2 modules, dataclasses incl. frozen/tuple fields, inner dataclasses and inner enums, "
                      "same class name in two modules, defaults/default factories/init=False, generics AnyElement/DerivedElement) "
                      "x random instances (non-finite floats, -0.0, big ints, Decimals incl. NaN/Infinity, QNames incl. texts needing "
                      "escapes, bytes and bytes subclasses, XmlDate/Time/DateTime/Duration/Period, empty and nested list/tuple/set/dict, "
                      "values == default in another representation).  distinct = distinct introspected instances; every one reaches "
                      "repr_object and exec")
    def has_mixed(v, mixed):
        if isinstance(v, dict):
            if v.get("t") in ("enum", "flag") and (v["c"][0], tuple(v["c"][1])) in mixed:
                return True
            return any(has_mixed(x, mixed) for x in v.values())
        if isinstance(v, list):
            return any(has_mixed(x, mixed) for x in v)
        return False

    dist["with_mixed_in_enum_member"] = sum(1 for it in items if has_mixed(it["res"]["spec"], mixed_enums.get(it["w"], ())))
    dist.update({"worlds": len(batches), "in_domain_wf": n_dom, "inside_guard": n_guard, "failed_exec_or_unequal": len(failed)})
    ck.cov["input_distribution"] = dist
    ck.cov["samples"] = [{"text": text_of(it)[:300], "exec": it["res"].get("exc"), "equal": it["res"]["equal"]}
                         for it in items[:3] + items[len(items) // 2: len(items) // 2 + 3] + items[-3:]]
    if not ck.replay_file and n_guard < len(items) // 5:
        ck.notes.append("few generated instances satisfy the guard")
    return ck.finish(
        obligations=obligations, discharged=discharged,
        checker_cmd="make -C coq Properties/C18.vo && coqc -Q coq XV coq/Properties/C18.v (Print Assumptions)",
        trusted_base=TRUSTED_COMMON + [
            "CPython: repr()/str() of str, bytes, int, float, Decimal and the parser reading them back (tied per case by agree_repr on ast.parse of the emitted text)",
            "Spec/PyEval.v as a description of CPython evaluating the emitted subset (tied per case by agree_eval against exec)",
            "harness/impl_c18.py introspection of classes and instances (dataclasses.fields via xsdata ClassType)",
            "axioms: " + (", ".join(axioms) or "none (closed under the global context)")],
        assumptions=["dataclasses without custom __init__/__post_init__/__eq__, eq=True, all fields compare=True",
                     "enum members are named members (plain Enum and mixed-in IntEnum/IntFlag/StrEnum/(str|float|bytes, Enum)); "
                     "values of mixed-in members never equal a field default or dict key by value; unnamed flag combinations excluded",
                     "dict keys are hashable scalars; XmlTime/XmlDateTime/XmlPeriod values never equal their field default in a different representation"])
