"""For each duration string: the seconds group as the implementation's own compiled
regex captures it, and whether CPython's float() accepts that text."""
import json
import sys

from xsdata.models.datatype import xml_duration_re


def one(s):
    m = xml_duration_re.match(s.strip())  # XmlDuration strips before matching
    sec = m.groups()[6] if m else None
    ok = True
    if sec is not None:
        try:
            float(sec)
        except ValueError:
            ok = False
    return {"sec": sec, "float_ok": ok}


json.dump([one(s) for s in json.load(sys.stdin)], sys.stdout)
