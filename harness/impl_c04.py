"""Runs the REAL DictEncoder / DictDecoder and JsonSerializer / JsonParser on generated
binding models and instances.  JSON stdin -> JSON stdout (PYTHONPATH=/repo).

in : {"models": [{"src", "classes", "enums",
                  "cases": [{"recipe" | "recipes" (list document), "root": class name,
                             "factory": "dict" | "filter_none", "ignore": bool}]}]}
out: {"models": [{"universe": term, "generics": term, "unsupported": msg | null,
                  "cases": [{"case": dc_case term | null, "skip": msg | null, ...debug}]}]}
"""
import json
import math
import sys
import traceback
import os

sys.path.insert(0, os.path.dirname(os.path.abspath(__file__)))

import bind_export as bx  # noqa: E402
import impl_eventgen as ie  # noqa: E402  (installs the converter / builder recorders)
from xsdata.exceptions import ConverterError, ParserError, SerializerError, XmlContextError  # noqa: E402
from xsdata.formats.dataclass.context import XmlContext  # noqa: E402
from xsdata.formats.dataclass.models.generics import AnyElement, DerivedElement  # noqa: E402
from xsdata.formats.dataclass.parsers import DictDecoder, JsonParser  # noqa: E402
from xsdata.formats.dataclass.serializers import DictEncoder, JsonSerializer  # noqa: E402
from xsdata.formats.dataclass.serializers.config import SerializerConfig  # noqa: E402
from xsdata.formats.dataclass.serializers.dict import DictFactory  # noqa: E402

ERRS = [(ParserError, "EParser"), (ConverterError, "EConverter"), (SerializerError, "ESerializer"),
        (XmlContextError, "EContext"), (AttributeError, "EAttribute"), (TypeError, "EType"), (KeyError, "EKey"),
        (IndexError, "EIndex")]


def err_term(e):
    for tp, name in ERRS:
        if type(e) is tp:
            return f"(Err {name})"
    return "(Err EUnmodelled)"


class CanonExporter(bx.Exporter):
    """Decimals in canonical form: Decimal equality is numeric (Decimal('1E+5') == Decimal('100000'))."""

    def prim(self, v):
        from decimal import Decimal
        if isinstance(v, Decimal) and v.is_finite():
            v = Decimal(0) if v == 0 else v.normalize()
        return super().prim(v)


def jterm(x):
    """Python object produced by DictEncoder -> DictCodec.jvalue term"""
    if x is None:
        return "JNull"
    if isinstance(x, bool):
        return f"(JBool {bx.cbool(x)})"
    if isinstance(x, int) and type(x) is int:
        return f"(JInt {bx.cZ(x)})"
    if isinstance(x, float) and type(x) is float:
        return f"(JFloat {bx.cstr(repr(x))})"
    if isinstance(x, str) and type(x) is str:
        return f"(JStr {bx.cstr(x)})"
    if isinstance(x, (list, tuple)) and not hasattr(x, "_fields"):
        return f"(JList {bx.cbool(isinstance(x, tuple))} {bx.clist(x, jterm, 'jvalue')})"
    if isinstance(x, dict):
        for k in x:
            if not isinstance(k, str):
                raise bx.Unsupported("non-str key")
        return "(JDict " + bx.clist(x.items(), lambda kv: f"({bx.cstr(kv[0])}, {jterm(kv[1])})", "str * jvalue") + ")"
    raise bx.Unsupported(f"not JSON native: {type(x)}")


def detuple(x):
    if isinstance(x, (list, tuple)):
        return [detuple(y) for y in x]
    if isinstance(x, dict):
        return {k: detuple(v) for k, v in x.items()}
    return x


def same_tree(a, b):
    """equality of JSON trees where nan == nan and int/float/bool are kept apart"""
    if isinstance(a, float) and isinstance(b, float):
        return (math.isnan(a) and math.isnan(b)) or (a == b and math.copysign(1, a) == math.copysign(1, b))
    if type(a) is not type(b):
        return False
    if isinstance(a, list):
        return len(a) == len(b) and all(same_tree(x, y) for x, y in zip(a, b))
    if isinstance(a, dict):
        return list(a.keys()) == list(b.keys()) and all(same_tree(a[k], b[k]) for k in a)
    return a == b


def run_model(m):
    out = {"universe": None, "generics": None, "unsupported": None, "cases": []}
    try:
        name, mod = ie.load(m["src"])
    except Exception as e:  # noqa
        out["unsupported"] = "module: " + repr(e)
        return out
    ns = mod.__dict__
    try:
        classes = [ns[c] for c in m["classes"]] + [AnyElement, DerivedElement]
        enums = [ns[e] for e in m["enums"]]
        ctx = XmlContext()
        ex = bx.Exporter(ctx, classes, enums)
        cex = CanonExporter(ctx, classes, enums)
        out["generics"] = f"(mk_generics {bx.cN(ex.cid[AnyElement])} {bx.cN(ex.cid[DerivedElement])})"
        for case in m["cases"]:
            res = {"case": None, "skip": None}
            out["cases"].append(res)
            try:
                is_list = "recipes" in case
                if is_list:
                    obj = [ie.build_instance(ns, r) for r in case["recipes"]]
                else:
                    obj = ie.build_instance(ns, case["recipe"])
                clazz = ns[case["root"]]
                vterm = ex.value_term(obj)
                vterm_c = cex.value_term(obj)
            except bx.Unsupported as e:
                res["skip"] = "value: " + str(e)
                continue
            except Exception as e:  # noqa
                res["skip"] = "build: " + repr(e)
                continue
            factory = DictFactory.FILTER_NONE if case["factory"] == "filter_none" else dict
            cfg = SerializerConfig(ignore_default_attributes=bool(case.get("ignore")))
            target = list[clazz] if is_list else clazz
            ie.REC.reset()
            ie.REC.on = True
            try:
                # --- dictionary codec
                try:
                    enc = DictEncoder(config=cfg, context=ctx, dict_factory=factory).encode(obj)
                    try:
                        enc_t = f"(Ok {jterm(enc)})"
                    except bx.Unsupported as e:
                        # the encoded form holds something that is not JSON native: never agrees with the model
                        enc_t = "(Err EUnmodelled)"
                        res["not_native"] = str(e)
                except Exception as e:  # noqa
                    enc, enc_t = None, err_term(e)
                    res["enc_error"] = repr(e)[:300]
                dec_t = dec_c = "(Err EUnmodelled)"
                dumps_ok = False
                if enc_t.startswith("(Ok") or res.get("not_native"):
                    try:
                        json.dumps(enc)
                        dumps_ok = True
                    except Exception as e:  # noqa
                        res["dumps_error"] = repr(e)[:200]
                    try:
                        back = DictDecoder(context=ctx).decode(enc, target)
                        dec_t = f"(Ok {ex.value_term(back)})"
                        dec_c = f"(Ok {cex.value_term(back)})"
                    except bx.Unsupported:
                        raise
                    except Exception as e:  # noqa
                        dec_t = dec_c = err_term(e)
                        res["dec_error"] = repr(e)[:300]
                # --- JSON text codec
                jdec_t = jdec_c = "(Err EUnmodelled)"
                same = False
                try:
                    text = JsonSerializer(config=cfg, context=ctx, dict_factory=factory).render(obj)
                    same = enc is not None and same_tree(json.loads(text), detuple(enc))
                    try:
                        jback = JsonParser(context=ctx).from_string(text, target)
                        jdec_t = f"(Ok {ex.value_term(jback)})"
                        jdec_c = f"(Ok {cex.value_term(jback)})"
                    except bx.Unsupported:
                        raise
                    except Exception as e:  # noqa
                        jdec_t = jdec_c = err_term(e)
                        res["jdec_error"] = repr(e)[:300]
                except bx.Unsupported:
                    raise
                except Exception as e:  # noqa
                    res["json_error"] = repr(e)[:300]
            except bx.Unsupported as e:
                res["skip"] = "export: " + str(e)
                continue
            finally:
                ie.REC.on = False
            res["case"] = ("(mk_dc_case G " + ("FFilterNone" if case["factory"] == "filter_none" else "FDict") + " "
                           + bx.cbool(case.get("ignore")) + " " + ie.table_term(ex) + " " + bx.cN(ex.cid[clazz]) + " "
                           + bx.cbool(is_list) + " " + vterm + " " + enc_t + " " + dec_t + " " + jdec_t + " "
                           + vterm_c + " " + dec_c + " " + jdec_c + " " + bx.cbool(same) + " " + bx.cbool(dumps_ok) + ")")
            res["enc"] = repr(enc)[:600]
        try:
            out["universe"] = ex.universe_term()
        except bx.Unsupported as e:
            out["unsupported"] = "universe: " + str(e)
        except Exception as e:  # noqa
            out["unsupported"] = "universe: " + repr(e)
    finally:
        sys.modules.pop(name, None)
    return out


def main():
    payload = json.load(sys.stdin)
    res = {"models": []}
    for m in payload["models"]:
        try:
            res["models"].append(run_model(m))
        except Exception:  # noqa
            res["models"].append({"universe": None, "generics": None, "unsupported": "crash: " + traceback.format_exc()[-800:], "cases": []})
    json.dump(res, sys.stdout)


if __name__ == "__main__":
    main()
