"""C01 — XML round trip: parse(render(obj)) == obj for every model, instance, writer, handler, config.

Three layers (see design.d/C01.md):
  1. the theorems of Properties/C01.v (slices S1-S3 at the infoset level) are rebuilt and their
     Print Assumptions read;
  2. guard / correspondence layer: for generated (model, instance, writer, handler, config, user
     prefix map) the REAL metadata, events at both seams, conversions and outcome are exported and
     judged IN COQ (Model/RoundtripCorr.v): inside the guards the real round trip must succeed
     (any failure there is a VIOLATION, whatever it looks like), every stage of the composition
     generate -> reads -> parse must agree with what the implementation did, and
     parse (pump (itree_of_events (generate ...))) must equal what the real parser returned;
  3. end-to-end oracle on the real code over slices F1-F4 with a config-delta classification of
     the failures outside the guards into the narrow known-finding classes.
"""
import glob
import json
import os
import re
import random

from common import (Check, run_impl, standard_proof_step, coq_bad_matrix, BuildError, cbool, TRUSTED_COMMON, ROOT, COQ)
import genmodels as G

IMPORTS = ("From XV Require Import Base.Str Base.Eqb Model.Bind Model.Parser Model.RoundtripCorr.\n"
           "From XV Require Model.EventGen.")

# ------------------------------------------------------------------ fixed witness models (Proofs/RoundtripWitness.v)
WITNESS_RICH = G.HEADER + '''
@dataclass
class Child:
    value: Optional[int] = field(default=None, metadata={"type": "Text"})
    flag: Optional[bool] = field(default=None, metadata={"type": "Attribute"})
    tags: list[int] = field(default_factory=list, metadata={"type": "Attribute", "tokens": True})

@dataclass
class NilC:
    class Meta:
        nillable = True
    w: Optional[str] = field(default=None, metadata={"type": "Element"})
    a: Optional[int] = field(default=None, metadata={"type": "Attribute"})

@dataclass
class Root:
    class Meta:
        name = "root"
        namespace = "urn:a"
    ident: Optional[int] = field(default=None, metadata={"type": "Attribute"})
    kind: str = field(default="dflt", metadata={"type": "Attribute", "namespace": "urn:b"})
    title: Optional[str] = field(default=None, metadata={"type": "Element"})
    note: Optional[str] = field(default=None, metadata={"type": "Element", "namespace": ""})
    nums: list[int] = field(default_factory=list, metadata={"type": "Element", "name": "n"})
    toks: list[int] = field(default_factory=list, metadata={"type": "Element", "tokens": True})
    rows: list[list[int]] = field(default_factory=list, metadata={"type": "Element", "tokens": True})
    child: Optional[Child] = field(default=None, metadata={"type": "Element"})
    kids: list[Child] = field(default_factory=list, metadata={"type": "Element", "name": "kid", "wrapper": "kidlist"})
    more: list[str] = field(default_factory=list, metadata={"type": "Element", "wrapper": "morelist"})
    sa: list[int] = field(default_factory=list, metadata={"type": "Element", "sequence": 1})
    sb: Optional[str] = field(default=None, metadata={"type": "Element", "sequence": 1})
    sc: list[Child] = field(default_factory=list, metadata={"type": "Element", "sequence": 1})
    sn: Optional[int] = field(default=None, metadata={"type": "Element", "nillable": True, "sequence": 2})
    sl: list[str] = field(default_factory=list, metadata={"type": "Element", "nillable": True, "sequence": 2})
    so: Optional[object] = field(default=None, metadata={"type": "Element", "sequence": 2})
    nz: Optional[int] = field(default=None, metadata={"type": "Element", "nillable": True})
    nb: Optional[bool] = field(default=None, metadata={"type": "Element", "nillable": True})
    nl: list[str] = field(default_factory=list, metadata={"type": "Element", "nillable": True})
    nn: Optional[str] = field(default=None, metadata={"type": "Element", "nillable": True})
    nc: Optional[Child] = field(default=None, metadata={"type": "Element", "nillable": True})
    nd: Optional[Child] = field(default=None, metadata={"type": "Element", "nillable": True})
    ne: list[NilC] = field(default_factory=list, metadata={"type": "Element"})
    av: Optional[object] = field(default=None, metadata={"type": "Element"})
    aw: Optional[object] = field(default=None, metadata={"type": "Element"})
    am: dict[str, str] = field(default_factory=dict, metadata={"type": "Attributes", "namespace": "##any"})
    wl: list[object] = field(default_factory=list, metadata={"type": "Wildcard", "namespace": "##other"})
'''
INST_RICH = {"__cls__": "Root", "fields": {
    "ident": {"__p__": "int", "v": -42}, "kind": {"__p__": "str", "v": "a b<&\u00e9"},
    "title": {"__p__": "str", "v": "  sp aced \u4e2d "}, "note": {"__p__": "str", "v": ""},
    "nums": [{"__p__": "int", "v": 0}, {"__p__": "int", "v": 10 ** 20}],
    "toks": [{"__p__": "int", "v": 1}, {"__p__": "int", "v": 2}, {"__p__": "int", "v": 3}],
    "rows": [[{"__p__": "int", "v": 7}], [{"__p__": "int", "v": 8}, {"__p__": "int", "v": 9}]],
    "child": {"__cls__": "Child", "fields": {"value": {"__p__": "int", "v": 5}, "flag": {"__p__": "bool", "v": True}, "tags": []}},
    "kids": [{"__cls__": "Child", "fields": {"value": None, "flag": None, "tags": [{"__p__": "int", "v": 4}, {"__p__": "int", "v": 5}]}},
             {"__cls__": "Child", "fields": {"value": {"__p__": "int", "v": -1}, "flag": {"__p__": "bool", "v": False}, "tags": []}}],
    "more": [],
    "sa": [{"__p__": "int", "v": 1}, {"__p__": "int", "v": 2}, {"__p__": "int", "v": 3}],
    "sb": {"__p__": "str", "v": "mid"},
    "sc": [{"__cls__": "Child", "fields": {"value": {"__p__": "int", "v": 9}, "flag": None, "tags": []}},
           {"__cls__": "Child", "fields": {"value": None, "flag": {"__p__": "bool", "v": True}, "tags": []}}],
    "sn": None, "sl": [{"__p__": "str", "v": "p"}, {"__p__": "str", "v": "q"}], "so": {"__p__": "str", "v": "x  y"},
    "nz": {"__p__": "int", "v": 0}, "nb": {"__p__": "bool", "v": False},
    "nl": [{"__p__": "str", "v": "a"}, {"__p__": "str", "v": "b c"}], "nn": None,
    "nc": {"__cls__": "Child", "fields": {"value": {"__p__": "int", "v": 0}, "flag": {"__p__": "bool", "v": True}, "tags": []}},
    "nd": None,
    "ne": [{"__cls__": "NilC", "fields": {"w": {"__p__": "str", "v": "x"}, "a": {"__p__": "int", "v": 3}}}],
    "av": {"__p__": "str", "v": " any  text "}, "aw": {"__p__": "str", "v": ""},
    "am": {"__map__": {"zz": "v 1", "{urn:z}y": "a b", "aa": ""}},
    "wl": [{"__any__": {"qname": "{urn:other}w", "text": " some  text ", "tail": None, "attributes": {"z": "1"}, "children": []}},
           {"__any__": {"qname": "{urn:other}deep", "text": "", "tail": None, "attributes": {"b": "2", "{urn:x}a": "1"},
                        "children": [{"__any__": {"qname": "k", "text": "", "tail": None, "attributes": {}, "children": []}},
                                     {"__any__": {"qname": "{urn:y}k", "text": "t", "tail": None, "attributes": {"a": "v"},
                                                  "children": []}}]}}]}}
WITNESS_NIL = G.HEADER + '''
@dataclass
class B:
    x: Optional[int] = field(default=None, metadata={"type": "Attribute"})

@dataclass
class A:
    b: Optional[B] = field(default=None, metadata={"type": "Element", "nillable": True})
'''
INST_NIL = {"__cls__": "A", "fields": {"b": {"__cls__": "B", "fields": {"x": {"__p__": "int", "v": 1}}}}}
WITNESS_SEQTOK = G.HEADER + '''
@dataclass
class S:
    x: list[str] = field(default_factory=list, metadata={"type": "Element", "tokens": True, "sequence": 1})
    y: Optional[str] = field(default=None, metadata={"type": "Element", "sequence": 1})
'''
INST_SEQTOK = {"__cls__": "S", "fields": {"x": [{"__p__": "str", "v": "ab"}, {"__p__": "str", "v": "cd"}], "y": {"__p__": "str", "v": "q"}}}
WITNESS_QN = G.HEADER + '''
@dataclass
class T:
    value: Optional[QName] = field(default=None, metadata={"type": "Text"})
    a: Optional[QName] = field(default=None, metadata={"type": "Attribute"})

@dataclass
class Q:
    class Meta:
        namespace = "urn:b"
    v: Optional[QName] = field(default=None, metadata={"type": "Element"})
    w: list[QName] = field(default_factory=list, metadata={"type": "Element"})
    t: Optional[T] = field(default=None, metadata={"type": "Element"})
    at: Optional[QName] = field(default=None, metadata={"type": "Attribute"})
'''
INST_QN = {"__cls__": "Q", "fields": {"v": {"__p__": "QName", "v": "local"},
                                      "w": [{"__p__": "QName", "v": "{urn:x}a"}, {"__p__": "QName", "v": "{urn:b}b"}],
                                      "t": {"__cls__": "T", "fields": {"value": {"__p__": "QName", "v": "{urn:x}c"},
                                                                       "a": {"__p__": "QName", "v": "{urn:b}d"}}},
                                      "at": {"__p__": "QName", "v": "{urn:y}e"}}}
WITNESS_TREE = G.HEADER + '''
@dataclass
class Node:
    label: Optional[str] = field(default=None, metadata={"type": "Attribute"})
    kids: list["Node"] = field(default_factory=list, metadata={"type": "Element", "name": "node"})
    next: Optional["Node"] = field(default=None, metadata={"type": "Element"})
'''


def _node(label, kids=(), nxt=None):
    return {"__cls__": "Node", "fields": {"label": {"__p__": "str", "v": label} if label is not None else None,
                                          "kids": list(kids), "next": nxt}}


INST_TREE = _node("root", [_node("a", [_node("a1"), _node(None)]), _node("b", [], _node("b-next", [_node("deep")]))], _node("tail"))
WITNESS_INH = G.HEADER + '''
@dataclass
class Base:
    x: Optional[int] = field(default=None, metadata={"type": "Attribute"})

@dataclass
class Sub(Base):
    class Meta:
        namespace = "urn:s"
    y: Optional[int] = field(default=None, metadata={"type": "Attribute"})
    z: Optional[str] = field(default=None, metadata={"type": "Element"})

@dataclass
class R:
    f: Optional[Base] = field(default=None, metadata={"type": "Element"})
    l: list[Base] = field(default_factory=list, metadata={"type": "Element"})
'''


def _b(x):
    return {"__cls__": "Base", "fields": {"x": {"__p__": "int", "v": x}}}


def _s(x, y, z):
    return {"__cls__": "Sub", "fields": {"x": {"__p__": "int", "v": x}, "y": {"__p__": "int", "v": y},
                                         "z": {"__p__": "str", "v": z} if z is not None else None}}


INST_INH = {"__cls__": "R", "fields": {"f": _s(1, 2, "zed"), "l": [_b(3), _s(4, 5, None), _b(6)]}}
# finding C01-F8: the type qname of the subclass equals the element name of the field
WITNESS_XDROP = G.HEADER + '''
@dataclass
class Base:
    x: Optional[int] = field(default=None, metadata={"type": "Attribute"})

@dataclass
class item(Base):
    y: Optional[int] = field(default=None, metadata={"type": "Attribute"})

@dataclass
class R:
    item: Optional[Base] = field(default=None, metadata={"type": "Element"})
'''
INST_XDROP = {"__cls__": "R", "fields": {"item": {"__cls__": "item", "fields": {"x": {"__p__": "int", "v": 1}, "y": {"__p__": "int", "v": 2}}}}}
# finding C01-F9: an attribute-map value of the form prefix:local, the prefix being one the writer binds itself
WITNESS_MAPQ = G.HEADER + '''
@dataclass
class R:
    class Meta:
        namespace = "urn:a"
    m: dict[str, str] = field(default_factory=dict, metadata={"type": "Attributes", "namespace": "##any"})
'''
INST_MAPQ = {"__cls__": "R", "fields": {"m": {"__map__": {"k": "ns0:x"}}}}
# empty instances of nillable classes: the element keeps xsi:nil="true" and the parser builds the instance from the
# attributes (inside the guards); the Text variant of finding C01-F1: an empty token list in the Text field comes back None
WITNESS_NILK = G.HEADER + '''
@dataclass
class T:
    class Meta:
        nillable = True
    v: Optional[int] = field(default=None, metadata={"type": "Text"})
    x: Optional[str] = field(default=None, metadata={"type": "Attribute"})

@dataclass
class P:
    class Meta:
        nillable = True
    e: Optional[int] = field(default=None, metadata={"type": "Element"})
    x: Optional[str] = field(default=None, metadata={"type": "Attribute"})

@dataclass
class L:
    class Meta:
        nillable = True
    v: list[int] = field(default_factory=list, metadata={"type": "Text", "tokens": True})
    x: Optional[str] = field(default=None, metadata={"type": "Attribute"})

@dataclass
class R:
    p: list[P] = field(default_factory=list, metadata={"type": "Element"})
    t: Optional[T] = field(default=None, metadata={"type": "Element"})
    l: Optional[L] = field(default=None, metadata={"type": "Element"})
'''


def _pi(v):
    return {"__p__": "int", "v": v}


def _ps(v):
    return {"__p__": "str", "v": v}


INST_NILK = {"__cls__": "R", "fields": {
    "p": [{"__cls__": "P", "fields": {"e": None, "x": _ps("1")}}, {"__cls__": "P", "fields": {"e": _pi(2), "x": None}},
          {"__cls__": "P", "fields": {"e": None, "x": None}}],
    "t": {"__cls__": "T", "fields": {"v": None, "x": _ps("2")}},
    "l": {"__cls__": "L", "fields": {"v": [_pi(3), _pi(4)], "x": None}}}}
INST_NILK_TOK = {"__cls__": "R", "fields": {"p": [], "t": None, "l": {"__cls__": "L", "fields": {"v": [], "x": _ps("3")}}}}
WITNESS_JOBS = [
    {"src": WITNESS_RICH, "name": "w_rich", "root": "Root", "instances": [INST_RICH], "cases": [
        {"i": 0, "writer": "native", "handler": "native", "config": {"indent": "  "}, "ns_map": {"p": "urn:a"}, "strict": True},
        {"i": 0, "writer": "lxml", "handler": "lxml", "config": {"ignore_default_attributes": True}, "ns_map": None, "strict": True}]},
    {"src": WITNESS_NIL, "name": "w_nil", "root": "A", "instances": [INST_NIL], "cases": [
        {"i": 0, "writer": "native", "handler": "native", "config": {}, "ns_map": None, "strict": True}]},
    {"src": WITNESS_SEQTOK, "name": "w_seqtok", "root": "S", "instances": [INST_SEQTOK], "cases": [
        {"i": 0, "writer": "native", "handler": "native", "config": {}, "ns_map": None, "strict": True}]},
    {"src": WITNESS_QN, "name": "w_qn", "root": "Q", "instances": [INST_QN], "cases": [
        {"i": 0, "writer": "lxml", "handler": "lxml", "config": {"indent": "  "}, "ns_map": None, "strict": True},
        {"i": 0, "writer": "native", "handler": "native", "config": {}, "ns_map": {"": "urn:a"}, "strict": True}]},
    {"src": WITNESS_TREE, "name": "w_tree", "root": "Node", "instances": [INST_TREE], "cases": [
        {"i": 0, "writer": "native", "handler": "lxml", "config": {"indent": "  "}, "ns_map": None, "strict": True}]},
    {"src": WITNESS_INH, "name": "w_inh", "root": "R", "instances": [INST_INH], "cases": [
        {"i": 0, "writer": "native", "handler": "native", "config": {"indent": "  "}, "ns_map": None, "strict": True},
        {"i": 0, "writer": "lxml", "handler": "lxml", "config": {}, "ns_map": {"s": "urn:s"}, "strict": True}]},
    {"src": WITNESS_XDROP, "name": "w_xdrop", "root": "R", "instances": [INST_XDROP], "cases": [
        {"i": 0, "writer": "native", "handler": "native", "config": {}, "ns_map": None, "strict": True}]},
    {"src": WITNESS_MAPQ, "name": "w_mapq", "root": "R", "instances": [INST_MAPQ], "cases": [
        {"i": 0, "writer": "native", "handler": "native", "config": {}, "ns_map": None, "strict": True}]},
    {"src": WITNESS_NILK, "name": "w_nilk", "root": "R", "instances": [INST_NILK, INST_NILK_TOK], "cases": [
        {"i": 0, "writer": "native", "handler": "lxml", "config": {"indent": "  "}, "ns_map": None, "strict": True},
        {"i": 1, "writer": "native", "handler": "native", "config": {}, "ns_map": None, "strict": True}]},
]
WITNESS_PATH = os.path.join(COQ, "Proofs", "RoundtripWitness.v")


def witness_text(out):
    rich, nil, seqtok, qn, tree, inh, xdrop, mapq, nilk = out["jobs"]

    def D(name, ty, term):
        return f"Definition {name} : {ty} :=\n  {term}.\n"
    txt = '''(* Proofs/RoundtripWitness.v — GENERATED by harness/c01.py (VERIF_C01_WRITE_WITNESS=1) from the
   implementation: metadata of the real XmlContext, instances, and the parser events the real
   handlers delivered for the real writers' output, for two fixed binding models.  Every run of
   ./check C01 re-exports them and compares (class witness-drift).  Do not edit by hand. *)
From Coq Require Import NArith ZArith List Bool.
From XV Require Import Base.Str Model.Bind.
Import ListNotations.

(* model `rich` (see harness/c01.py WITNESS_RICH): attributes (optional int, namespaced str with a
   default, int tokens), elements (str, unqualified str holding '', int list, token list, list of
   token lists, nested simple-content class, a wrapped list of it, an empty wrapped list, a sequence
   group of an int list, an optional str and a class list, a second sequence group of a nillable int field holding None
   (written <sn xsi:nil="true"/> in round 0), a nillable str list and an xs:anyType element, nillable int / bool fields holding the falsy
   values 0 / False, a nillable str list and a nillable str field holding None, written
   <nn xsi:nil="true"/>, a nillable field of class type holding an instance with content and another one
   holding None, a list of instances with content of a nillable class, two xs:anyType elements holding a str
   and the empty str, an attribute map with three entries that are not in key order, a wildcard list holding two generic
   elements - one with text, one with attributes and nested generic children), class namespace urn:a, Meta.name *)
'''
    txt += D("u_rich", "universe", rich["universe"])
    txt += D("root_rich", "cls", rich["root"])
    txt += D("o_rich", "value", rich["cases"][0]["value"])
    txt += "(* XmlEventWriter, indent='  ', user map {p: urn:a}  ->  XmlEventHandler *)\n"
    txt += D("pevs_rich_native_indent", "list pevent", rich["cases"][0]["pevents"])
    txt += "(* LxmlEventWriter, ignore_default_attributes  ->  LxmlEventHandler *)\n"
    txt += D("pevs_rich_lxml", "list pevent", rich["cases"][1]["pevents"])
    txt += '''
(* model `nil` (known finding C01-F1): A.b : Optional[B], nillable; B.x : Optional[int] attribute;
   instance A(b=B(x=1)) *)
'''
    txt += D("u_nil", "universe", nil["universe"])
    txt += D("root_nil", "cls", nil["root"])
    txt += D("o_nil", "value", nil["cases"][0]["value"])
    txt += D("pevs_nil", "list pevent", nil["cases"][0]["pevents"])
    txt += '''
(* model `seqtok` (known finding C01-F7): S.x : token list of str, S.y : Optional[str], both in sequence
   group 1; instance S(x=['ab', 'cd'], y='q'); the real writer printed <S><x>ab</x><y>q</y><x>cd</x></S> *)
'''
    txt += D("u_seqtok", "universe", seqtok["universe"])
    txt += D("root_seqtok", "cls", seqtok["root"])
    txt += D("o_seqtok", "value", seqtok["cases"][0]["value"])
    txt += D("pevs_seqtok", "list pevent", seqtok["cases"][0]["pevents"])
    txt += '''
(* model `qn`: Q.v : Optional[QName], Q.w : list[QName], Q.t : Optional[T] (T: QName Text value, QName
   attribute a), Q.at : QName attribute, class namespace urn:b; instance Q(v=QName('local'),
   w=[QName('{urn:x}a'), QName('{urn:b}b')], t=T(QName('{urn:x}c'), a=QName('{urn:b}d')), at=QName('{urn:y}e')) *)
'''
    txt += D("u_qn", "universe", qn["universe"])
    txt += D("root_qn", "cls", qn["root"])
    txt += D("o_qn", "value", qn["cases"][0]["value"])
    txt += "(* LxmlEventWriter, indent  ->  LxmlEventHandler *)\n"
    txt += D("pevs_qn", "list pevent", qn["cases"][0]["pevents"])
    txt += "(* XmlEventWriter with the user prefix map {None: urn:a}  ->  XmlEventHandler (known finding C01-F3) *)\n"
    txt += D("pevs_qn_default", "list pevent", qn["cases"][1]["pevents"])
    txt += '''
(* model `tree`: a recursive class, Node.label attribute, Node.kids : list[Node] (element `node`),
   Node.next : Optional[Node]; an instance of depth 4 *)
'''
    txt += D("u_tree", "universe", tree["universe"])
    txt += D("root_tree", "cls", tree["root"])
    txt += D("o_tree", "value", tree["cases"][0]["value"])
    txt += "(* XmlEventWriter, indent  ->  LxmlEventHandler *)\n"
    txt += D("pevs_tree", "list pevent", tree["cases"][0]["pevents"])
    txt += '''
(* model `inh`: Sub(Base) in namespace urn:s; R.f : Optional[Base], R.l : list[Base]; instance
   R(f=Sub(1, 2, 'zed'), l=[Base(3), Sub(4, 5, None), Base(6)]): the Sub instances are written with xsi:type *)
'''
    txt += D("u_inh", "universe", inh["universe"])
    txt += D("root_inh", "cls", inh["root"])
    txt += D("o_inh", "value", inh["cases"][0]["value"])
    txt += "(* XmlEventWriter, indent  ->  XmlEventHandler *)\n"
    txt += D("pevs_inh_native", "list pevent", inh["cases"][0]["pevents"])
    txt += "(* LxmlEventWriter, user prefix map {s: urn:s}  ->  LxmlEventHandler *)\n"
    txt += D("pevs_inh_lxml", "list pevent", inh["cases"][1]["pevents"])
    txt += '''
(* model `xdrop` (known finding C01-F8): class `item`(Base), R.item : Optional[Base]; instance
   R(item=item(x=1, y=2)): the type qname of the subclass equals the element name of the field and the
   serializer drops xsi:type: <R><item x="1" y="2"/></R> *)
'''
    txt += D("u_xdrop", "universe", xdrop["universe"])
    txt += D("root_xdrop", "cls", xdrop["root"])
    txt += D("o_xdrop", "value", xdrop["cases"][0]["value"])
    txt += D("pevs_xdrop", "list pevent", xdrop["cases"][0]["pevents"])
    txt += '''
(* model `mapq` (known finding C01-F9): class R in namespace urn:a with an attribute map; instance R(m={'k': 'ns0:x'}):
   the writer binds ns0 to urn:a itself and writes k="ns0:x" literally; ParserUtils.parse_any_attribute expands the
   value to '{urn:a}x' *)
'''
    txt += D("u_mapq", "universe", mapq["universe"])
    txt += D("root_mapq", "cls", mapq["root"])
    txt += D("o_mapq", "value", mapq["cases"][0]["value"])
    txt += D("pevs_mapq", "list pevent", mapq["cases"][0]["pevents"])
    txt += '''
(* model `nilk`: nillable classes T (Text v : Optional[int], attribute x), P (element e : Optional[int], attribute x),
   L (Text v : token list of int, attribute x); R.p : list[P], R.t : Optional[T], R.l : Optional[L].
   Instance R(p=[P(x='1'), P(e=2), P()], t=T(x='2'), l=L(v=[3, 4])): the empty instances keep xsi:nil="true" and are
   built from their attributes all the same.  Instance R(l=L(v=[], x='3')): under xsi:nil ElementNode.bind_text
   stores None, the empty token list comes back as None (Text variant of known finding C01-F1) *)
'''
    txt += D("u_nilk", "universe", nilk["universe"])
    txt += D("root_nilk", "cls", nilk["root"])
    txt += D("o_nilk", "value", nilk["cases"][0]["value"])
    txt += "(* XmlEventWriter, indent  ->  LxmlEventHandler *)\n"
    txt += D("pevs_nilk", "list pevent", nilk["cases"][0]["pevents"])
    txt += D("o_nilk_tok", "value", nilk["cases"][1]["value"])
    txt += D("pevs_nilk_tok", "list pevent", nilk["cases"][1]["pevents"])
    return txt


def check_witness(ck):
    """the metadata / events the Examples and the refutation of Properties/C01.v speak about are still
    what the implementation produces"""
    out = run_impl("impl_c01.py", {"jobs": WITNESS_JOBS}, timeout=600)
    bad = [j.get("unsupported") for j in out["jobs"] if j.get("unsupported")] + \
          [c.get("skip") for j in out["jobs"] for c in j["cases"] if c.get("skip")]
    if bad:
        ck.failure("witness-drift", f"witness models can no longer be exported: {bad}", {"why": bad})
        return
    txt = witness_text(out)
    if os.environ.get("VERIF_C01_WRITE_WITNESS") == "1":
        with open(WITNESS_PATH, "w") as f:
            f.write(txt)
        ck.notes.append("witness file rewritten")
        return
    cur = open(WITNESS_PATH).read() if os.path.exists(WITNESS_PATH) else ""
    if cur != txt:
        ck.failure("witness-drift", "Proofs/RoundtripWitness.v no longer matches what the implementation exports "
                   "(metadata, instance or handler events of the witness models changed)",
                   {"hint": "VERIF_C01_WRITE_WITNESS=1 ./check C01 rewrites the file; the Examples are then re-proved",
                    "rich_equal": out["jobs"][0]["cases"][0].get("equal"), "nil_equal": out["jobs"][1]["cases"][0].get("equal")})
    # the real code on the witnesses: rich round-trips, nil does not (finding C01-F1)
    if not all(c.get("equal") for c in out["jobs"][0]["cases"]):
        ck.failure("guard-oracle", "the witness instance of model `rich` (inside the guards) does not round-trip on the real code",
                   {"cases": out["jobs"][0]["cases"]})
    if out["jobs"][1]["cases"][0].get("equal"):
        ck.notes.append("witness of finding C01-F1 (nil conflation) round-trips now: the nillable guard clause can go")
    if not all(c.get("equal") for c in out["jobs"][5]["cases"]):
        ck.failure("guard-oracle", "the witness instance of model `inh` (subclass instances, inside the guards) does not round-trip on the real code",
                   {"cases": out["jobs"][5]["cases"]})
    if out["jobs"][6]["cases"][0].get("equal"):
        ck.notes.append("witness of finding C01-F8 (xsi:type dropped) round-trips now: the clause of derived_ok can go")
    if not out["jobs"][4]["cases"][0].get("equal"):
        ck.failure("guard-oracle", "the witness instance of the recursive model `tree` (inside the guards) does not round-trip on the real code",
                   {"cases": out["jobs"][4]["cases"]})
    if not out["jobs"][3]["cases"][0].get("equal"):
        ck.failure("guard-oracle", "the witness instance of model `qn` (QName element values, inside the guards) does not round-trip on the real code",
                   {"cases": out["jobs"][3]["cases"]})
    if out["jobs"][7]["cases"][0].get("equal"):
        ck.notes.append("witness of finding C01-F9 (attribute-map value prefix:local expanded) round-trips now: clause map_value_ok can go")
    if out["jobs"][3]["cases"][1].get("equal"):
        ck.notes.append("witness of finding C01-F3 (QName 'local' under a user default namespace) round-trips now")
    if out["jobs"][2]["cases"][0].get("equal"):
        ck.notes.append("witness of finding C01-F7 (token list in a sequence group) round-trips now: the clause of seq_member can go")


# ------------------------------------------------------------------ guard / correspondence layer
def case_term(job_out, case, res):
    cfgd = case.get("config") or {}
    pcfg = res["pcfg"]
    cfg = f"(mk_pconfig {cbool(pcfg[0])} {cbool(pcfg[1])} {cbool(pcfg[2])} {job_out['nodefault']})"
    return (f"(mk_rt_case {cbool(bool(cfgd.get('ignore_default_attributes')))} {cfg} {job_out['table']} {job_out['universe']} "
            f"{job_out['root']} {res['value']} {res['gen']} {res['pevents']} {res['parse']} {cbool(res['equal'])} "
            f"{res['user']} {cbool(cfgd.get('xml_declaration', True))} {cbool(case.get('writer') == 'lxml')})")


GUARD_PREDS = {
    "in_guard": "fun k => negb (in_guard_w k)",           # "bad" = inside the guards (model + writer)
    "in_model_guard": "fun k => negb (in_guard k)",
    "wf_model": "fun k => negb (Spec.Fits.wf_model (rc_universe k) (rc_cls k))",
    "in_guard_sequence": "fun k => negb (in_guard_w k && uses_sequence (rc_universe k))",
    "uses_sequence": "fun k => negb (uses_sequence (rc_universe k))",
    "in_guard_qname": "fun k => negb (in_guard_w k && uses_qname k)",
    "in_guard_recursive": "fun k => negb (in_guard_w k && uses_recursion (rc_universe k))",
    "in_guard_xsi": "fun k => negb (in_guard_w k && uses_xsi_type k)",
    "in_guard_nillable": "fun k => negb (in_guard_w k && uses_nillable (rc_universe k))",
    "in_guard_nillable_seq": "fun k => negb (in_guard_w k && uses_nillable_in_sequence (rc_universe k))",
    "in_guard_generic_seq": "fun k => negb (in_guard_w k && uses_generic_in_sequence (rc_universe k))",
    "in_guard_nillable_class": "fun k => negb (in_guard_w k && uses_nillable_class (rc_universe k))",
    "in_guard_anytype": "fun k => negb (in_guard_w k && uses_anytype (rc_universe k) (rc_cls k))",
    "in_guard_maps": "fun k => negb (in_guard_w k && uses_maps (rc_universe k) (rc_cls k))",
    "in_guard_wild": "fun k => negb (in_guard_w k && uses_wildcard (rc_universe k) (rc_cls k))",
    "guard-oracle": "oracle_in_guard",
    "corr-generate-in-guard": "fun k => negb (in_guard_w k) || gen_agree k",
    "corr-parse-in-guard": "fun k => negb (in_guard_w k) || parse_agree k",
    "guard-theorem-instance": "theorem_in_guard",
    "corr-reads-in-guard": "reads_real",
    "corr-composition-in-guard": "composition_agrees",
}


def guard_layer(ck, jobs, stats):
    B = 15
    outs = []
    for i in range(0, len(jobs), B):
        outs.append(run_impl("impl_c01.py", {"jobs": jobs[i:i + B]}, timeout=1200))
    dt_table = outs[0]["dt_table"] if outs else "[]"
    terms, where = [], []
    skipped = {}
    k = 0
    for o in outs:
        for jo in o["jobs"]:
            job = jobs[k]
            k += 1
            if jo.get("unsupported") or not jo.get("universe"):
                skipped["universe"] = skipped.get("universe", 0) + len(job["cases"])
                continue
            for case, res in zip(job["cases"], jo["cases"]):
                if res.get("skip"):
                    key = res["skip"].split(":")[0]
                    skipped[key] = skipped.get(key, 0) + 1
                    continue
                terms.append(case_term(jo, case, res))
                where.append((job, case, res))
    defs = f"Definition dt_table : list (qname * option (ptype * option str * option ptype)) := {dt_table}."
    try:
        bad = coq_bad_matrix("c01g", IMPORTS, defs, "rt_case", GUARD_PREDS, terms, shard_chars=600000)
    except BuildError as e:
        ck.broken_obligation("correspondence:" + e.target, e.log)
        return
    inside = set(bad["in_guard"])
    stats["guard_cases"] = len(terms)
    stats["guard_inside"] = len(inside)
    stats["guard_inside_model_guard"] = len(bad["in_model_guard"])
    stats["guard_wf_model"] = len(bad["wf_model"])
    stats["guard_cases_with_sequence_group"] = len(bad["uses_sequence"])
    stats["guard_inside_with_sequence_group"] = len(bad["in_guard_sequence"])
    stats["guard_inside_with_qname_values"] = len(bad["in_guard_qname"])
    stats["guard_inside_with_recursive_class"] = len(bad["in_guard_recursive"])
    stats["guard_inside_with_subclass_instance"] = len(bad["in_guard_xsi"])
    stats["guard_inside_with_nillable_field"] = len(bad["in_guard_nillable"])
    stats["guard_inside_with_nillable_field_in_sequence_group"] = len(bad["in_guard_nillable_seq"])
    stats["guard_inside_with_anytype_or_wildcard_in_sequence_group"] = len(bad["in_guard_generic_seq"])
    stats["guard_inside_with_nillable_class"] = len(bad["in_guard_nillable_class"])
    stats["guard_inside_with_anytype_element"] = len(bad["in_guard_anytype"])
    stats["guard_inside_with_attribute_map"] = len(bad["in_guard_maps"])
    stats["guard_inside_with_wildcard"] = len(bad["in_guard_wild"])
    stats["guard_inside_share"] = round(len(inside) / max(1, len(terms)), 3)
    stats["guard_skipped"] = skipped
    for cls in ("guard-oracle", "corr-generate-in-guard", "corr-parse-in-guard", "guard-theorem-instance",
                "corr-reads-in-guard", "corr-composition-in-guard"):
        for i in bad[cls]:
            job, case, res = where[i]
            ck.failure(cls, f"{cls}: inside the guards of C01_roundtrip_S4 {'the REAL round trip fails' if cls == 'guard-oracle' else 'model and implementation disagree'}"
                            f" (equal={res.get('equal')} kind={res.get('kind')} exc={res.get('exc')} {res.get('msg')}): {res.get('xml', '')[:300]}",
                       {"model_src": job["src"], "instance": job["instances"][case["i"]], "case": case,
                        "result": {k2: v for k2, v in res.items() if k2 in ("equal", "kind", "exc", "msg", "xml", "pcfg")}})
    if terms and not inside:
        ck.failure("guard-vacuous", "no generated case is inside the guards of C01_roundtrip_S4", {"cases": len(terms)})
    if where:
        inside_samples = [where[i] for i in sorted(inside)[:3]]
        ck.cov["samples"] += [{"inside_guard": True, "case": c, "xml": r.get("xml", "")[:400]} for _, c, r in inside_samples]

CONFIGS = [
    {},
    {"indent": "  "},
    {"xml_declaration": False},
    {"ignore_default_attributes": True},
    {"indent": "\t", "xml_declaration": False, "ignore_default_attributes": True},
]
NS_MAPS = [None, None, {"p": "urn:a"}, {"q": "urn:unused"}, {"p": "urn:a", "p2": "urn:a"}, {"xsi": "http://www.w3.org/2001/XMLSchema-instance"},
           {"": "urn:a"}, {"ns0": "urn:b"}, {"ns1": "urn:a", "ns0": "http://example.com/c"}]


def widen_sequences(r, m):
    """genmodels only marks adjacent plain list elements as a sequence group; next_value also takes scalar
    fields, and xsdata's generator puts whatever sits in a repeated xs:sequence into one: mark runs of 2-4
    adjacent Element fields (token lists and wrapped lists rarely: known finding C01-F7 / outside the
    proved guards)"""
    for c in m["classes"]:
        fs = [f for f in c["fields"] if f["kind"] in ("Element", "Elements", "Wildcard")]
        if any(f.get("sequence") for f in fs) or r.random() >= 0.3:
            continue

        def elig(f):
            if f["kind"] != "Element" or f.get("mixed"):
                return False
            if f.get("tokens"):
                return r.random() < 0.1
            if f.get("wrapper"):
                return r.random() < 0.3
            return True
        for a in range(len(fs) - 1):
            if elig(fs[a]) and elig(fs[a + 1]):
                run = [fs[a], fs[a + 1]]
                for b in range(a + 2, min(a + 4, len(fs))):
                    if elig(fs[b]) and r.random() < 0.6:
                        run.append(fs[b])
                    else:
                        break
                num = r.choice([1, 1, 2])
                for f in run:
                    f["sequence"] = num
                break
    return m


def add_recursion(r, m, insts):
    """genmodels only refers to LATER classes (acyclic class graphs); real schemas have trees and linked lists: give
    one class a field of its own type (optional or list) and hang copies of each instance of it below itself"""
    if r.random() >= 0.15:
        return
    import copy
    cands = [c for c in m["classes"] if not c.get("twin") and not any(f["kind"] == "Text" or f.get("mixed") for f in G.all_fields(m, c))]
    if not cands:
        return
    c = r.choice(cands)
    lst = r.random() < 0.5
    name = "r%d" % len(c["fields"])
    f = {"name": name, "kind": "Element", "type": ("class", c["name"]), "list": lst, "optional": not lst}
    c["fields"].append(f)
    heirs = {c["name"]}
    changed = True
    while changed:
        changed = False
        for k in m["classes"]:
            if k.get("base") in heirs and k["name"] not in heirs:
                heirs.add(k["name"])
                changed = True
    empty = [] if lst else None

    def walk(x):
        if isinstance(x, list):
            for y in x:
                walk(y)
        elif isinstance(x, dict) and "__cls__" in x:
            for v in list(x["fields"].values()):
                walk(v)
            if x["__cls__"] in heirs and name not in x["fields"]:
                x["fields"][name] = empty
                if r.random() < 0.6:
                    cp = copy.deepcopy(x)
                    cp2 = copy.deepcopy(x)
                    x["fields"][name] = ([cp, cp2] if r.random() < 0.5 else [cp]) if lst else cp
    for inst in insts:
        walk(inst)
    # field order of subclasses: dataclass fields of the base come first, the recipes are keyed by name


def xsi_dropped_fields(m, inst):
    """(class, field) pairs of the instance that hold an instance of a SUBCLASS whose (local) type name equals the
    (local) element name of the field: EventGenerator.real_xsi_type drops xsi:type there (finding C01-F8)"""
    hits = []

    def local_type(c):
        return c["meta"].get("name") or c["name"]

    def walk(x):
        if isinstance(x, list):
            for y in x:
                walk(y)
        elif isinstance(x, dict) and "__cls__" in x:
            try:
                c = G.find_class(m, x["__cls__"])
                fs = G.all_fields(m, c)
            except Exception:  # noqa
                return
            for f in fs:
                v = x["fields"].get(f["name"])
                tp = f.get("type")
                if f["kind"] == "Element" and tp and tp[0] == "class":
                    for y in (v if isinstance(v, list) else [v]):
                        if isinstance(y, dict) and y.get("__cls__") not in (None, tp[1]):
                            try:
                                if local_type(G.find_class(m, y["__cls__"])) == (f.get("xml_name") or f["name"]):
                                    hits.append((c["name"], f["name"]))
                            except Exception:  # noqa
                                pass
                walk(v)
    walk(inst)
    return hits


def add_subclass(r, m, insts):
    """genmodels only derives classes in slice F4, next to union fields; give a class that some element field refers
    to a subclass (own attribute and element, sometimes its own namespace) and turn some instances into instances of
    it: they are written with xsi:type"""
    if r.random() >= 0.2:
        return
    refs = [f["type"][1] for c in m["classes"] for f in c["fields"]
            if f["kind"] == "Element" and f.get("type") and f["type"][0] == "class"]
    # (a wildcard of the base class would compete with the subclass's own element: an ambiguous model, not a defect)
    refs = [n for n in refs if not G.find_class(m, n).get("twin")
            and not any(f["kind"] in ("Text", "Wildcard", "Elements") for f in G.all_fields(m, G.find_class(m, n)))]
    if not refs:
        return
    base = r.choice(refs)
    name = "C%d" % (len(m["classes"]) + 10)
    sub = {"name": name, "base": base, "meta": {}, "fields": [
        {"name": "g0", "kind": "Attribute", "type": ("prim", "int"), "optional": True},
        {"name": "g1", "kind": "Element", "type": ("prim", "str"), "optional": True, "list": False}]}
    if r.random() < 0.4:
        sub["meta"]["namespace"] = r.choice(["urn:s", "urn:a"])
    m["classes"].append(sub)

    def conv(x):
        y = {"__cls__": name, "fields": dict(x["fields"])}
        y["fields"]["g0"] = {"__p__": "int", "v": r.choice([0, 7, -3])} if r.random() < 0.7 else None
        y["fields"]["g1"] = {"__p__": "str", "v": r.choice(["sub", "x y"])} if r.random() < 0.5 else None
        return y

    def walk(x):
        if isinstance(x, list):
            return [walk(y) for y in x]
        if isinstance(x, dict) and "__cls__" in x:
            x["fields"] = {k: walk(v) for k, v in x["fields"].items()}
            if x["__cls__"] == base and r.random() < 0.5:
                return conv(x)
        return x
    for i, inst in enumerate(insts):
        root_cls = inst["__cls__"]
        new = walk(inst)
        if new["__cls__"] != root_cls:      # the document root keeps its class
            new = inst
        insts[i] = new


def wildcard_class_candidate(r, m, host):
    """a class of the model whose instances can sit in a wildcard of `host` and are found again by the parser through
    their element name (XmlContext.find_type): attributes only (no content that could clash), a name of its own that
    is not an element name of the host, not part of an inheritance / union construction"""
    host_names = {f.get("xml_name") or f["name"] for f in G.all_fields(m, host)}
    cands = []
    for c in m["classes"]:
        if c is host or c.get("twin") or c.get("base") or G.subclasses_of(m, c["name"]) or c["meta"].get("nillable"):
            continue
        fs = G.all_fields(m, c)
        if not fs or any(f["kind"] != "Attribute" for f in fs):
            continue
        if (c["meta"].get("name") or c["name"]) in host_names:
            continue
        if sum(1 for d in m["classes"] if (d["meta"].get("name") or d["name"]) == (c["meta"].get("name") or c["name"])) > 1:
            continue
        cands.append(c["name"])
    return r.choice(cands) if cands else None


def group_scalar_wildcards(r, m, v):
    """a single-valued wildcard field binds a run of unknown elements to ONE name-less AnyElement container
    (ElementNode.bind_wild_var wraps the value bound first when the second one arrives): genmodels only puts one
    named element there, give some of them siblings (seeded breakage C01-r4m2)"""
    if isinstance(v, list):
        for x in v:
            group_scalar_wildcards(r, m, x)
        return
    if not isinstance(v, dict) or "fields" not in v:
        return
    c = G.find_class(m, v["__cls__"])
    for f in G.all_fields(m, c):
        x = v["fields"].get(f["name"])
        if f["kind"] == "Wildcard" and not f.get("list") and not f.get("mixed") and isinstance(x, dict) and "__any__" in x:
            if x["__any__"]["qname"] and r.random() < 0.4:
                cons, cns = f.get("namespace", "##any"), G.class_namespace(m, c)
                # siblings: named generic elements, some with a tail (text between the unknown elements)
                sibs = [G.gen_any(r, 0, cons, cns, tail_ok=r.random() < 0.3) for _ in range(r.choice([1, 1, 2]))]
                first = x
                if cons == "##any" and r.random() < 0.25:
                    # a model instance first: a class of the model without namespace trouble, found again through its element name
                    k = wildcard_class_candidate(r, m, c)
                    if k is not None:
                        first = G.gen_instance(r, m, k)
                v["fields"][f["name"]] = {"__any__": {"qname": None, "text": None, "tail": None, "attributes": {},
                                                       "children": [first] + sibs}}
        else:
            group_scalar_wildcards(r, m, x)


def nil_sequence_scalars(r, m, v):
    """nillable scalar fields inside a sequence group: None is written <f xsi:nil="true"/> in round 0 of the rolling loop
    (next_value: `values is not None or var.nillable`); genmodels rarely leaves them None (own mutation m13)"""
    if isinstance(v, list):
        for x in v:
            nil_sequence_scalars(r, m, x)
        return
    if not isinstance(v, dict) or "fields" not in v:
        return
    c = G.find_class(m, v["__cls__"])
    for f in G.all_fields(m, c):
        if f["kind"] == "Element" and f.get("nillable") and f.get("sequence") is not None and not f.get("list") \
                and not f.get("tokens") and v["fields"].get(f["name"]) is not None and r.random() < 0.5:
            v["fields"][f["name"]] = None
        else:
            nil_sequence_scalars(r, m, v["fields"].get(f["name"]))


def class_heirs(m, name):
    heirs, changed = {name}, True
    while changed:
        changed = False
        for k in m["classes"]:
            if k.get("base") in heirs and k["name"] not in heirs:
                heirs.add(k["name"])
                changed = True
    return heirs


# primitive choice types of a compound field whose Python classes / lexical spaces overlap: bool is a subclass of int,
# every int text is a float / Decimal text, everything is a str text.  The serializer must pick the choice by the EXACT
# type of the value (XmlVar.find_primitive_choice: `tp in element.types`), whatever the declaration order.
OVERLAPPING_PRIMS = ["int", "bool", "float", "Decimal", "str"]


def add_overlapping_choices(r, m, insts):
    """genmodels draws the 2-3 choices of a compound (Elements) field from five unrelated-looking primitives and classes, so
    two choices whose types are related by subclassing / convertibility in the critical ORDER (int before bool, float
    before int, str first ...) are rare: give one class a compound field with 2-5 of the overlapping primitives in a
    random order and put values of every declared choice type into it (seeded breakage C01-r5m2)"""
    cands = [c for c in m["classes"] if not c.get("twin") and not c.get("simple")
             and not any(f["kind"] == "Text" or f.get("mixed") for f in G.all_fields(m, c))]
    if not cands:
        return False
    c = r.choice(cands)
    tps = r.sample(OVERLAPPING_PRIMS, r.choice([2, 3, 3, 4, 5]))
    name = "pc%d" % len(c["fields"])
    lst = r.random() < 0.7
    f = {"name": name, "kind": "Elements", "list": lst,
         "choices": [{"name": f"{name}_{k}", "type": ("prim", tp)} for k, tp in enumerate(tps)]}
    c["fields"].append(f)
    heirs = class_heirs(m, c["name"])

    def one(tp):
        p = G.gen_prim(r, m, ("prim", tp))
        if tp == "str":
            p["v"] = "s-" + p["v"].strip()      # a text no other choice type accepts (as genmodels does)
        return p

    def walk(x):
        if isinstance(x, list):
            for y in x:
                walk(y)
        elif isinstance(x, dict) and "__any__" in x:
            walk(x["__any__"]["children"])
        elif isinstance(x, dict) and "__cls__" in x:
            for v in list(x["fields"].values()):
                walk(v)
            if x["__cls__"] in heirs and name not in x["fields"]:
                if lst:
                    vals = [one(tp) for tp in tps if r.random() < 0.8] + [one(r.choice(tps)) for _ in range(r.choice([0, 1, 2]))]
                    r.shuffle(vals)
                    x["fields"][name] = vals
                else:
                    x["fields"][name] = one(r.choice(tps)) if r.random() < 0.85 else None
    for inst in insts:
        walk(inst)
    return True


def nillable_sequence_lists(r, m):
    """genmodels marks 15 % of the element fields nillable and builds sequence groups independently: a nillable LIST inside a
    sequence group (the `value is not None or var.nillable` test of the rolling loop of next_value, list branch) is rare.
    Mark some plain list members of sequence groups nillable."""
    hit = False
    for c in m["classes"]:
        for f in c["fields"]:
            if f["kind"] == "Element" and f.get("list") and not f.get("tokens") and not f.get("wrapper") and not f.get("nillable") \
                    and r.random() < (0.5 if f.get("sequence") is not None else 0.1):   # (some plain lists outside groups too)
                f["nillable"] = True
                hit = True
    return hit


def nil_list_items(r, m, v):
    """None items of nillable list fields: every item is written on its own, None as <f xsi:nil="true"/>, by convert_list
    (plain fields) or by the rolling loop of next_value (members of a sequence group); genmodels never puts None into a
    list (seeded breakage C01-r5m1).  Returns the number of None items inserted."""
    if isinstance(v, list):
        return sum(nil_list_items(r, m, x) for x in v)
    if not isinstance(v, dict):
        return 0
    if "__any__" in v:
        return nil_list_items(r, m, v["__any__"]["children"])
    if "fields" not in v:
        return 0
    n = 0
    c = G.find_class(m, v["__cls__"])
    for f in G.all_fields(m, c):
        x = v["fields"].get(f["name"])
        n += nil_list_items(r, m, x)
        if f["kind"] == "Element" and f.get("nillable") and f.get("list") and not f.get("tokens") and isinstance(x, list) \
                and r.random() < 0.6:
            for _ in range(r.choice([1, 1, 2])):
                x.insert(r.randint(0, len(x)), None)
                n += 1
    return n


def none_items_at(inst, path):
    """number of None items of the list the diff path ends at (0 if the path does not end at a list of the recipe)"""
    cur = inst
    for name, idx in re.findall(r"\.(\w+)|\[(\d+)\]", path):
        if name:
            if not (isinstance(cur, dict) and "fields" in cur):
                return 0
            cur = cur["fields"].get(name)
        else:
            if not (isinstance(cur, list) and int(idx) < len(cur)):
                return 0
            cur = cur[int(idx)]
    return sum(1 for x in cur if x is None) if isinstance(cur, list) else 0


def pad_any_text(r, v):
    """generic elements without children keep their text as it is: give some of them surrounding white space
    (genmodels only writes trimmed texts there)"""
    if isinstance(v, list):
        for x in v:
            pad_any_text(r, x)
    elif isinstance(v, dict):
        if "__any__" in v:
            a = v["__any__"]
            if not a["children"] and a["text"] and r.random() < 0.35:
                a["text"] = r.choice([" ", "  ", "\n "]) + a["text"] + r.choice([" ", "\t"])
            elif not a["children"] and r.random() < 0.2:
                a["text"] = r.choice([" ", "  ", "\n", "\t "])       # white space only: kept as it is
            for ch in a["children"]:
                pad_any_text(r, ch)
        elif "fields" in v:
            for x in v["fields"].values():
                pad_any_text(r, x)


def span_members(fields):
    """names of the element fields next_value renders through the rolling loop: everything from a field with a
    `sequence` number to the last field with the same number"""
    ev = [f for f in fields if f["kind"] in ("Element", "Elements", "Wildcard", "Text")]
    out, i = set(), 0
    while i < len(ev):
        sq = ev[i].get("sequence")
        if not sq:
            i += 1
            continue
        end = max(j for j in range(i, len(ev)) if ev[j].get("sequence") == sq) + 1
        out.update(f["name"] for f in ev[i:end])
        i = end
    return out


def seq_token_fields(m, inst):
    """(class, field) pairs of the instance whose value is a non-empty token list inside a sequence group"""
    hits = []

    def walk(x):
        if isinstance(x, list):
            for y in x:
                walk(y)
        elif isinstance(x, dict) and "__cls__" in x:
            try:
                c = G.find_class(m, x["__cls__"])
                fs = G.all_fields(m, c)
            except Exception:  # noqa
                return
            inside = span_members(fs)
            for f in fs:
                v = x["fields"].get(f["name"])
                if f.get("tokens") and f["name"] in inside and v:
                    hits.append((c["name"], f["name"]))
                walk(v)
    walk(inst)
    return hits


def has_subclass_instance(m, inst):
    """some class-typed element field holds an instance of another class than the declared one (written with xsi:type)"""
    def walk(x):
        if isinstance(x, list):
            return any(walk(y) for y in x)
        if isinstance(x, dict) and "__cls__" in x:
            try:
                fs = G.all_fields(m, G.find_class(m, x["__cls__"]))
            except Exception:  # noqa
                return False
            for f in fs:
                v = x["fields"].get(f["name"])
                tp = f.get("type")
                if f["kind"] == "Element" and tp and tp[0] == "class":
                    for y in (v if isinstance(v, list) else [v]):
                        if isinstance(y, dict) and y.get("__cls__") not in (None, tp[1]):
                            return True
                if walk(v):
                    return True
        return False
    return walk(inst)


def has_qname_type(tp):
    if not tp:
        return False
    if tp[0] == "prim":
        return tp[1] in ("QName", "object")
    if tp[0] == "punion":
        return "QName" in tp[1]
    return False


def fields_along(m, inst, path):
    """walk the instance recipe along a diff path like .f1[2].f0; return [(class desc, field desc)] of every field crossed"""
    cur = inst
    out = []
    for name, idx in re.findall(r"\.(\w+)|\[(\d+)\]", path):
        if cur is None:
            break
        if name:
            if not (isinstance(cur, dict) and "__cls__" in cur):
                break
            c = G.find_class(m, cur["__cls__"])
            fs = {f["name"]: f for f in G.all_fields(m, c)}
            if name not in fs:
                break
            out.append((c, fs[name]))
            cur = cur["fields"].get(name)
        else:
            if isinstance(cur, list) and int(idx) < len(cur):
                cur = cur[int(idx)]
            else:
                break
    return out


def xsi_marked_owner(m, inst, path):
    """the object that owns the last field of the diff path was written with an xsi:type / xsi:nil attribute: it sits in
    a nillable field, its class is nillable, or its class is not the declared class of the field"""
    def mark(f, obj):
        tp = f.get("type") if f else None
        declared = tp[1] if tp and tp[0] == "class" else None
        return bool((f or {}).get("nillable") or G.find_class(m, obj["__cls__"])["meta"].get("nillable")
                    or declared is None or obj["__cls__"] != declared)

    def is_obj(x):
        return isinstance(x, dict) and "__cls__" in x
    cur = inst
    marked = bool(is_obj(cur) and G.find_class(m, cur["__cls__"])["meta"].get("nillable"))
    last, pending = False, None
    for name, idx in re.findall(r"\.(\w+)|\[(\d+)\]", path):
        if name:
            if not is_obj(cur):
                break
            fs = {f["name"]: f for f in G.all_fields(m, G.find_class(m, cur["__cls__"]))}
            if name not in fs:
                break
            last, pending = marked, fs[name]
            cur = cur["fields"].get(name)
        else:
            if isinstance(cur, list) and int(idx) < len(cur):
                cur = cur[int(idx)]
            else:
                break
        if is_obj(cur):
            marked = mark(pending, cur)
    return last


def norm_msg(msg):
    """exception text without generated module names / prefixes that differ between reruns"""
    return re.sub(r"gm_\d+_\d+(_v)?", "gm", msg)[:80]


def variants(case):
    """config deltas used to attribute a failure to a narrow cause"""
    v = {}
    if case.get("ns_map") and "" in case["ns_map"]:
        nm = {k: u for k, u in case["ns_map"].items() if k != ""}
        v["no_default_ns"] = dict(case, ns_map=nm or None)
    if case.get("ns_map"):
        v["no_ns_map"] = dict(case, ns_map=None)
    if (case.get("config") or {}).get("indent"):
        v["no_indent"] = dict(case, config={k: x for k, x in case["config"].items() if k != "indent"})
    if case.get("writer") == "native":
        v["lxml_writer"] = dict(case, writer="lxml")
    if case.get("handler") == "native":
        v["lxml_handler"] = dict(case, handler="lxml")
    return v


def classify(m, inst, case, res, vres):
    """Narrow class of a failing round trip.  A class is defined by WHERE the objects first differ
    (metadata of the field at the first differing path) and by WHICH configuration delta removes
    that first difference (vres: variant name -> None if the variant passes, else its first
    difference / exception)."""
    path = res.get("diff") or ""
    here = path or ("exc:" + res.get("exc", "") + ":" + norm_msg(res.get("msg", "")))

    def explains(v):
        return v in vres and vres[v] != here

    if explains("no_default_ns"):
        # open finding C01-F3 is about QName VALUES only; anything else that breaks under a user default namespace
        # (e.g. an attribute written unprefixed: repaired finding C01-F6) is a different class
        last = fields_along(m, inst, path)[-1:]
        if any(has_qname_type(f.get("type")) for _, f in last) or "<type " in path or ("exc" in res and has_subclass_instance(m, inst)):
            # a QName value, or the QName value of xsi:type ("C4" for a class without namespace: the declared class is
            # built instead and rejects the subclass's own attributes / elements)
            return "user-default-namespace"
        return "user-default-namespace-attribute"
    if explains("no_ns_map"):
        return "user-prefix-map"
    if explains("no_indent") and (".text" in path or ".tail" in path or "[" in path):
        return "indent-alters-mixed-text"
    if seq_token_fields(m, inst) and ("exc" in res or any(f.get("tokens") for _, f in fields_along(m, inst, path))):
        return "sequence-tokens-split"             # C01-F7: next_value yields the tokens one by one
    if xsi_dropped_fields(m, inst) and ("exc" in res or "<type " in path or "<keys>" in path):
        return "xsi-type-dropped"                  # C01-F8: the subclass's type name equals the element name
    if res.get("exc") == "ParserError" and "Failed to parse union node" in res.get("msg", ""):
        node = res["msg"].rsplit(":", 1)[-1].strip().rsplit("}", 1)[-1]
        if node in nillable_union_nones(m, inst):
            return "nillable-union-none"           # C01-F10: UnionNode.bind has no case for xsi:nil
    if "exc" in res:
        return "exception-" + res["exc"]
    if path.endswith("<keys>") and ("XMLSchema-instance}" in res.get("back", "") or xsi_marked_owner(m, inst, path)):
        # C01-F2 (the repr of the parsed object is cut at 1500 characters: the owner of the map is looked up in the recipe)
        return "xsi-attr-captured-by-attributes-map"
    if prefixed_any_values(inst) and along_any_attribute(m, inst, path):
        return "any-attribute-prefixed-value"     # C01-F9: 'prefix:local' in an attribute map / generic attribute is expanded
    along = fields_along(m, inst, path)
    if not along:
        return "root"
    if explains("lxml_handler"):
        return "native-handler-only"
    for c, f in along:
        tp = f.get("type")
        if c["meta"].get("nillable") and "NoneType" in path and f is along[-1][1]:
            return "nil-conflation"      # the owning element itself carries xsi:nil (nillable class)
        if f["kind"] == "Element":
            target_nillable = bool(tp and tp[0] == "class" and G.find_class(m, tp[1])["meta"].get("nillable"))
            if (f.get("nillable") or target_nillable) and "<len " in path and f is along[-1][1] and none_items_at(inst, path):
                # a None ITEM of a nillable list was dropped or multiplied: every item is written on its own, None as an
                # xsi:nil element, and read back as None - not the conflation of empty values with nil (C01-F1)
                return "nillable-list-none-item"
            if (f.get("nillable") or target_nillable) and ("NoneType" in path or "<len " in path):
                return "nil-conflation"     # one side is None: xsi:nil written for / read as an empty value
    c, f = along[-1]
    return "other-" + f["kind"]


def nillable_union_nones(m, inst):
    """local element names of the nillable element fields of a union-of-classes type that hold None (scalar), a None
    item (list) or an instance without content somewhere in the instance: written <u ... xsi:nil="true"/>, which
    UnionNode.bind cannot read (finding C01-F10)"""
    names = set()

    def contentless(y):
        # an instance without element / text content in a nillable field is written with xsi:nil="true" as well (C01-F1)
        if not (isinstance(y, dict) and "__cls__" in y):
            return False
        try:
            fs = G.all_fields(m, G.find_class(m, y["__cls__"]))
        except Exception:  # noqa
            return False
        return all(y["fields"].get(f["name"]) in (None, []) for f in fs if f["kind"] not in ("Attribute", "Attributes"))

    def walk(x):
        if isinstance(x, list):
            for y in x:
                walk(y)
        elif isinstance(x, dict) and "__cls__" in x:
            try:
                fs = G.all_fields(m, G.find_class(m, x["__cls__"]))
            except Exception:  # noqa
                return
            for f in fs:
                v = x["fields"].get(f["name"])
                tp = f.get("type")
                if f["kind"] == "Element" and f.get("nillable") and tp and tp[0] == "union" \
                        and any(y is None or contentless(y) for y in (v if isinstance(v, list) else [v])):
                    names.add(f.get("xml_name") or f["name"])
                walk(v)
    walk(inst)
    return names


def prefixed_any_values(v):
    """the instance holds an attribute-map value or a generic-element attribute value of the form prefix:local"""
    if isinstance(v, list):
        return any(prefixed_any_values(x) for x in v)
    if isinstance(v, dict):
        if "__map__" in v:
            return any(isinstance(x, str) and re.match(r"^[^:/ ]+:[^/]", x) for x in v["__map__"].values())
        if "__any__" in v:
            a = v["__any__"]
            return any(isinstance(x, str) and re.match(r"^[^:/ ]+:[^/]", x) for x in a["attributes"].values()) \
                or prefixed_any_values(a["children"])
        if "fields" in v:
            return any(prefixed_any_values(x) for x in v["fields"].values())
    return False


def along_any_attribute(m, inst, path):
    """the first difference sits in an attribute map or below a wildcard field"""
    along = fields_along(m, inst, path)
    return any(f["kind"] in ("Attributes", "Wildcard") for _, f in along)


def corpus_jobs():
    """regression / witness cases kept in corpus/C01 (known findings and repaired ones)"""
    jobs, names = [], []
    for path in sorted(glob.glob(os.path.join(ROOT, "corpus", "C01", "*.json"))):
        try:
            rp = json.load(open(path))["replay"]
            jobs.append({"src": rp["model_src"], "name": "corpus_" + re.sub(r"\W", "_", os.path.basename(path)), "root": "C0",
                         "instances": [rp["instance"]], "cases": [dict(rp["case"], i=0)]})
            names.append(os.path.basename(path))
        except Exception as e:  # noqa
            names.append(None)
    return jobs, names


def model_of_source(src):
    """the classification needs the description the model was generated from; corpus replays only keep the
    source: a minimal description (class names, Meta.nillable, fields by name) is re-read from it"""
    classes = []
    for m in re.finditer(r"@dataclass\nclass (\w+)(?:\((\w+)\))?:\n((?:    .*\n|\n)*)", src):
        body = m.group(3)
        meta = {}
        if re.search(r"nillable = True", body):
            meta["nillable"] = True
        fields = []
        for f in re.finditer(r"    (\w+): ([^=\n]+) = field\((.*)\)\n", body):
            md = f.group(3)
            kind = re.search(r"'type': '(\w+)'", md)
            tp = re.search(r'"(C\d+)"', f.group(2))
            fields.append({"name": f.group(1), "kind": kind.group(1) if kind else "Element",
                           "type": ("class", tp.group(1)) if tp else ("prim", "QName" if "QName" in f.group(2) else "str"),
                           "nillable": "'nillable': True" in md, "tokens": "'tokens': True" in md,
                           "sequence": (re.search(r"'sequence': (\d+)", md) or [None, None])[1]})
        classes.append({"name": m.group(1), "base": m.group(2), "meta": meta, "fields": fields})
    return {"classes": classes, "enums": [], "root": "C0"}


def run(ck: Check):
    ck.level = "proof"
    r = ck.rng
    obligations, discharged, axioms = 0, 0, []
    if os.path.exists(os.path.join(ROOT, "coq", "Properties", "C01.v")):
        obligations, discharged, axioms = standard_proof_step(ck, extra_targets=["Model/RoundtripCorr.vo"])
    stats = {}
    check_witness(ck)
    n_models = ck.n(200, 3000)
    n_guard = ck.n(70, 900)
    jobs, metas = [], []
    for k in range(n_models):
        slices = r.choice([("F1",), ("F1",), ("F1",), ("F1", "F2"), ("F1", "F2", "F3"), ("F1", "F4"), ("F1", "F2", "F3", "F4")])
        m = widen_sequences(r, G.gen_model(r, slices=slices))
        name = f"gm_{ck.seed}_{k}"
        insts = [G.gen_instance(r, m, m["root"]) for _ in range(4)]
        add_recursion(r, m, insts)
        add_subclass(r, m, insts)
        r2 = random.Random(f"nilseq-{ck.seed}-{k}")      # own stream: the main one keeps generating the same models
        for inst in insts:
            group_scalar_wildcards(r, m, inst)
            pad_any_text(r, inst)
            nil_sequence_scalars(r2, m, inst)
        if k >= n_guard:
            # families that are outside the guards of the theorems altogether (compound fields, None items of nillable
            # lists): only in the models the guard layer does not use, so that its share of inside cases stays what it was
            r3 = random.Random(f"round5-{ck.seed}-{k}")   # own stream again
            if r3.random() < 0.3 and add_overlapping_choices(r3, m, insts):
                stats["models_with_overlapping_primitive_choices"] = stats.get("models_with_overlapping_primitive_choices", 0) + 1
            nillable_sequence_lists(r3, m)
            nn = sum(nil_list_items(r3, m, inst) for inst in insts)
            if nn:
                stats["models_with_none_items_in_nillable_lists"] = stats.get("models_with_none_items_in_nillable_lists", 0) + 1
                if any(f.get("nillable") and f.get("list") and f.get("sequence") is not None for c in m["classes"] for f in c["fields"]):
                    stats["models_with_none_items_and_nillable_list_in_sequence_group"] = \
                        stats.get("models_with_none_items_and_nillable_list_in_sequence_group", 0) + 1
        cases = []
        for i in range(len(insts)):
            for _ in range(3):
                cases.append({"i": i, "op": "roundtrip", "writer": r.choice(["native", "lxml"]), "handler": r.choice(["native", "lxml"]),
                              "config": r.choice(CONFIGS), "ns_map": r.choice(NS_MAPS), "strict": r.random() < 0.6})
        jobs.append({"src": G.render_source(m), "name": name, "root": m["root"], "instances": insts, "cases": cases})
        metas.append(m)
    # corpus first
    cjobs, cnames = corpus_jobs()
    jobs = cjobs + jobs
    metas = [model_of_source(j["src"]) for j in cjobs] + metas
    # ---- layer 2: guards and correspondence, judged in Coq, on a subset (one case per instance)
    gjobs = []
    for job in jobs[len(cjobs):len(cjobs) + n_guard]:
        seen, cs = set(), []
        for c in job["cases"]:
            if c["i"] not in seen:
                seen.add(c["i"])
                cs.append(c)
        gjobs.append(dict(job, cases=cs))
    guard_layer(ck, gjobs, stats)
    # ---- layer 3: end-to-end oracle + classification
    out = []
    B = 20
    for i in range(0, len(jobs), B):
        out += run_impl("impl_binding.py", jobs[i:i + B], timeout=1200)
    n = 0
    failing = []
    for ji, (job, m, o) in enumerate(zip(jobs, metas, out)):
        if "load_error" in o:
            ck.failure("harness-model-load", f"generated model does not load: {o['load_error']}", {"src": job["src"], "tb": o.get("tb")})
            continue
        for case, res in zip(job["cases"], o["results"]):
            n += 1
            if res.get("equal"):
                stats["ok"] = stats.get("ok", 0) + 1
            else:
                failing.append((ji, case, res))
    # attribute each failure to a configuration delta: rerun the same case with one aspect removed
    rjobs, rmap = [], []
    for ji, case, res in failing:
        vs = variants(case)
        job = jobs[ji]
        rjobs.append({"src": job["src"], "name": job["name"] + "_v", "root": job["root"], "instances": job["instances"],
                      "cases": list(vs.values())})
        rmap.append(list(vs.keys()))
    rout = []
    for i in range(0, len(rjobs), B):
        rout += run_impl("impl_binding.py", rjobs[i:i + B], timeout=1200)
    for (ji, case, res), names, ro in zip(failing, rmap, rout):
        vres = {nm: (None if r.get("equal") else (r.get("diff") or ("exc:" + r.get("exc", "") + ":" + norm_msg(r.get("msg", "")))))
                for nm, r in zip(names, ro.get("results", []))}
        cls = classify(metas[ji], jobs[ji]["instances"][case["i"]], case, res, vres)
        stats[cls] = stats.get(cls, 0) + 1
        ck.failure(cls, f"round trip fails ({cls}) at {res.get('diff')} exc={res.get('exc')} {res.get('msg', '')}: {res.get('xml', '')[:300]}",
                   {"model_src": jobs[ji]["src"], "instance": jobs[ji]["instances"][case["i"]], "case": case, "result": res, "variants": vres})
    ck.cov["evaluations"] = n + stats.get("guard_cases", 0)
    ck.cov["distinct_nontrivial"] = n
    ck.cov["rule"] = ("generated (model, instance, writer, handler, config, ns_map) cases on the real code, counts by outcome class in "
                      "input_distribution; guard_cases of them (one per instance of the first models) are also exported and judged in Coq: "
                      "guard_inside = inside wf_model/fits/writer_guard, where oracle, stage correspondences and the composition "
                      "parse(pump(itree_of_events(generate))) are all required")
    ck.cov["input_distribution"] = stats
    ck.cov["samples"] = ck.cov["samples"] + [{"case": jobs[-1]["cases"][0], "instance": jobs[-1]["instances"][0]}]
    ck.cov["proved_slice"] = ("C01_roundtrip_S4 / C01_roundtrip_ordered_S5_partial: Attribute / Element / Text fields of primitive, enum or exact class type, optional, default, list, "
                              "tokens, list of token lists, nested classes (recursive class graphs, subclass instances with xsi:type), wrappers, sequence groups, "
                              "QName values, nillable fields (simple type: None or non-empty values; class type: None, instances with content, or empty instances of a nillable class), nillable classes "
                              "(instances with content, or empty instances whose Text field holds None: the element keeps xsi:nil), xs:anyType elements holding a str, attribute maps and wildcard fields holding generic elements (readings that keep the attribute order), namespaces; infoset "
                              "level, every reading (attribute order, prefix maps, indentation) and, through C03, the printed document; everything else "
                              "(wrapped lists inside a sequence group, empty texts and instances without content in nillable positions, wildcards, compound fields, unions, below the "
                              "infoset) is covered by correspondence + oracle only")
    return ck.finish(obligations=obligations, discharged=discharged, checker_cmd="coqc", trusted_base=TRUSTED_COMMON,
                     assumptions=axioms)
