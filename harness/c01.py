"""C01 — XML round trip: parse(render(obj)) == obj for every model, instance, writer, handler, config.

Status: end-to-end oracle on the real code + classification of failures; the deciding
theorem composes Model/EventGen.v, Model/Writer.v, Model/Parser.v (see Properties/C01.v).
"""
import json
import os
import re

from common import Check, run_impl, standard_proof_step, TRUSTED_COMMON, ROOT
import genmodels as G

CONFIGS = [
    {},
    {"indent": "  "},
    {"xml_declaration": False},
    {"ignore_default_attributes": True},
    {"indent": "\t", "xml_declaration": False, "ignore_default_attributes": True},
]
NS_MAPS = [None, None, {"p": "urn:a"}, {"q": "urn:unused"}, {"p": "urn:a", "p2": "urn:a"}, {"xsi": "http://www.w3.org/2001/XMLSchema-instance"},
           {"": "urn:a"}, {"ns0": "urn:b"}, {"ns1": "urn:a", "ns0": "http://example.com/c"}]


def fields_along(m, inst, path):
    """walk the instance recipe along a diff path like .f1[2].f0; return [(class desc, field desc)] of every field crossed"""
    cur = inst
    out = []
    for name, idx in re.findall(r"\.(\w+)|\[(\d+)\]", path):
        if cur is None:
            break
        if name:
            if not (isinstance(cur, dict) and "__cls__" in cur):
                break
            c = G.find_class(m, cur["__cls__"])
            fs = {f["name"]: f for f in G.all_fields(m, c)}
            if name not in fs:
                break
            out.append((c, fs[name]))
            cur = cur["fields"].get(name)
        else:
            if isinstance(cur, list) and int(idx) < len(cur):
                cur = cur[int(idx)]
            else:
                break
    return out


def norm_msg(msg):
    """exception text without generated module names / prefixes that differ between reruns"""
    return re.sub(r"gm_\d+_\d+(_v)?", "gm", msg)[:80]


def variants(case):
    """config deltas used to attribute a failure to a narrow cause"""
    v = {}
    if case.get("ns_map") and "" in case["ns_map"]:
        nm = {k: u for k, u in case["ns_map"].items() if k != ""}
        v["no_default_ns"] = dict(case, ns_map=nm or None)
    if case.get("ns_map"):
        v["no_ns_map"] = dict(case, ns_map=None)
    if (case.get("config") or {}).get("indent"):
        v["no_indent"] = dict(case, config={k: x for k, x in case["config"].items() if k != "indent"})
    if case.get("writer") == "native":
        v["lxml_writer"] = dict(case, writer="lxml")
    if case.get("handler") == "native":
        v["lxml_handler"] = dict(case, handler="lxml")
    return v


def classify(m, inst, case, res, vres):
    """Narrow class of a failing round trip.  A class is defined by WHERE the objects first differ
    (metadata of the field at the first differing path) and by WHICH configuration delta removes
    that first difference (vres: variant name -> None if the variant passes, else its first
    difference / exception)."""
    path = res.get("diff") or ""
    here = path or ("exc:" + res.get("exc", "") + ":" + norm_msg(res.get("msg", "")))

    def explains(v):
        return v in vres and vres[v] != here

    if explains("no_default_ns"):
        return "user-default-namespace"            # C03: attribute / QName value under a user default namespace
    if explains("no_ns_map"):
        return "user-prefix-map"
    if explains("no_indent") and (".text" in path or ".tail" in path or "[" in path):
        return "indent-alters-mixed-text"
    if "exc" in res:
        return "exception-" + res["exc"]
    if path.endswith("<keys>") and "XMLSchema-instance}" in res.get("back", ""):
        return "xsi-attr-captured-by-attributes-map"
    along = fields_along(m, inst, path)
    if not along:
        return "root"
    if explains("lxml_handler"):
        return "native-handler-only"
    for c, f in along:
        tp = f.get("type")
        if c["meta"].get("nillable") and "NoneType" in path and f is along[-1][1]:
            return "nil-conflation"      # the owning element itself carries xsi:nil (nillable class)
        if f["kind"] == "Element":
            target_nillable = bool(tp and tp[0] == "class" and G.find_class(m, tp[1])["meta"].get("nillable"))
            if (f.get("nillable") or target_nillable) and ("NoneType" in path or "<len " in path):
                return "nil-conflation"     # one side is None: xsi:nil written for / read as an empty value
    c, f = along[-1]
    return "other-" + f["kind"]


def run(ck: Check):
    ck.level = "proof"
    r = ck.rng
    obligations, discharged, axioms = 0, 0, []
    if os.path.exists(os.path.join(ROOT, "coq", "Properties", "C01.v")):
        obligations, discharged, axioms = standard_proof_step(ck)
    n_models = ck.n(200, 3000)
    jobs, metas = [], []
    for k in range(n_models):
        slices = r.choice([("F1",), ("F1",), ("F1", "F2"), ("F1", "F2", "F3"), ("F1", "F4"), ("F1", "F2", "F3", "F4")])
        m = G.gen_model(r, slices=slices)
        name = f"gm_{ck.seed}_{k}"
        insts = [G.gen_instance(r, m, m["root"]) for _ in range(4)]
        cases = []
        for i in range(len(insts)):
            for _ in range(3):
                cases.append({"i": i, "op": "roundtrip", "writer": r.choice(["native", "lxml"]), "handler": r.choice(["native", "lxml"]),
                              "config": r.choice(CONFIGS), "ns_map": r.choice(NS_MAPS), "strict": r.random() < 0.6})
        jobs.append({"src": G.render_source(m), "name": name, "root": m["root"], "instances": insts, "cases": cases})
        metas.append(m)
    out = []
    B = 20
    for i in range(0, len(jobs), B):
        out += run_impl("impl_binding.py", jobs[i:i + B], timeout=1200)
    stats = {}
    n = 0
    failing = []
    for ji, (job, m, o) in enumerate(zip(jobs, metas, out)):
        if "load_error" in o:
            ck.failure("harness-model-load", f"generated model does not load: {o['load_error']}", {"src": job["src"], "tb": o.get("tb")})
            continue
        for case, res in zip(job["cases"], o["results"]):
            n += 1
            if res.get("equal"):
                stats["ok"] = stats.get("ok", 0) + 1
            else:
                failing.append((ji, case, res))
    # attribute each failure to a configuration delta: rerun the same case with one aspect removed
    rjobs, rmap = [], []
    for ji, case, res in failing:
        vs = variants(case)
        job = jobs[ji]
        rjobs.append({"src": job["src"], "name": job["name"] + "_v", "root": job["root"], "instances": job["instances"],
                      "cases": list(vs.values())})
        rmap.append(list(vs.keys()))
    rout = []
    for i in range(0, len(rjobs), B):
        rout += run_impl("impl_binding.py", rjobs[i:i + B], timeout=1200)
    for (ji, case, res), names, ro in zip(failing, rmap, rout):
        vres = {nm: (None if r.get("equal") else (r.get("diff") or ("exc:" + r.get("exc", "") + ":" + norm_msg(r.get("msg", "")))))
                for nm, r in zip(names, ro.get("results", []))}
        cls = classify(metas[ji], jobs[ji]["instances"][case["i"]], case, res, vres)
        stats[cls] = stats.get(cls, 0) + 1
        ck.failure(cls, f"round trip fails ({cls}) at {res.get('diff')} exc={res.get('exc')} {res.get('msg', '')}: {res.get('xml', '')[:300]}",
                   {"model_src": jobs[ji]["src"], "instance": jobs[ji]["instances"][case["i"]], "case": case, "result": res, "variants": vres})
    ck.cov["evaluations"] = n
    ck.cov["distinct_nontrivial"] = n
    ck.cov["rule"] = "generated (model, instance, writer, handler, config, ns_map) cases; counts by outcome class in input_distribution"
    ck.cov["input_distribution"] = stats
    ck.cov["samples"] = [{"case": jobs[0]["cases"][0], "instance": jobs[0]["instances"][0]}]
    return ck.finish(obligations=obligations, discharged=discharged, checker_cmd="coqc", trusted_base=TRUSTED_COMMON)
