"""Export the REAL binding metadata / objects / event streams of xsdata as Gallina terms
of coq/Model/Bind.v.  Runs inside the implementation interpreter (PYTHONPATH=/repo).

    ex = Exporter(context, classes, enums)      # classes: list of dataclass types (the universe)
    ex.universe_term()   -> "mk_universe ..."   (metadata exactly as XmlContext.build produced it)
    ex.value_term(obj)   -> "VObj ..."          ex.wevents_term(events)   ex.pevents_term(events)

Anything the Coq types cannot express raises Unsupported (callers skip or flag the case).
"""
import dataclasses
import enum
import sys
from decimal import Decimal
from xml.etree.ElementTree import QName

from xsdata.formats.dataclass.models.generics import AnyElement, DerivedElement
from xsdata.models.datatype import XmlDate, XmlDateTime, XmlDuration, XmlPeriod, XmlTime


class Unsupported(Exception):
    pass


def cstr(s):
    if s is None:
        raise Unsupported("None where str expected")
    if not s:
        return "(@nil N)"
    return "[" + ";".join(str(ord(c)) for c in s) + "]%N"


def copt(x, pr):
    return "None" if x is None else f"(Some {pr(x)})"


def clist(xs, pr, ty=None):
    xs = list(xs)
    if not xs:
        return f"(@nil ({ty}))" if ty else "[]"
    return "[" + "; ".join(pr(x) for x in xs) + "]"


def cbool(b):
    return "true" if b else "false"


def cN(n):
    return f"{int(n)}%N"


def cZ(z):
    return f"({int(z)})%Z"


PRIM_TYPES = {str: "TStr", int: "TInt", bool: "TBool", float: "TFloat", Decimal: "TDecimal", bytes: "TBytes",
              QName: "TQName", XmlDate: "TXmlDate", XmlTime: "TXmlTime", XmlDateTime: "TXmlDateTime",
              XmlDuration: "TXmlDuration", XmlPeriod: "TXmlPeriod", object: "TObject"}


class Exporter:
    def __init__(self, context, classes, enums=()):
        self.context = context
        self.classes = list(classes)
        self.cid = {c: i + 1 for i, c in enumerate(self.classes)}
        self.enums = list(enums)
        self.eid = {e: i + 1 for i, e in enumerate(self.enums)}

    # ------------------------------------------------------------ types / prims
    def ptype(self, tp):
        if tp in PRIM_TYPES:
            return PRIM_TYPES[tp]
        if isinstance(tp, type) and issubclass(tp, enum.Enum):
            if tp not in self.eid:
                raise Unsupported(f"enum {tp} not in universe")
            return f"(TEnum {cN(self.eid[tp])})"
        if tp in self.cid:
            return f"(TClass {cN(self.cid[tp])})"
        raise Unsupported(f"type {tp!r}")

    def prim(self, v):
        if isinstance(v, enum.Enum):
            tp = type(v)
            if tp not in self.eid:
                raise Unsupported(f"enum {tp}")
            return f"(PEnum {cN(self.eid[tp])} {cN(list(tp).index(v))})"
        if isinstance(v, bool):
            return f"(PBool {cbool(v)})"
        if isinstance(v, QName):
            return f"(PQName {cstr(v.text)})"
        if isinstance(v, str) and type(v) is str:
            return f"(PStr {cstr(v)})"
        if isinstance(v, int):
            return f"(PInt {cZ(v)})"
        if isinstance(v, float):
            return f"(PFloat {cstr(repr(v))})"
        if isinstance(v, Decimal):
            return f"(PDecimal {cstr(str(v))})"
        if isinstance(v, bytes):
            return "(PBytes " + ("(@nil N)" if not v else "[" + ";".join(str(b) for b in v) + "]%N") + ")"
        for tp in (XmlDateTime, XmlDate, XmlTime, XmlDuration, XmlPeriod):
            if isinstance(v, tp):
                return f"(PXml {PRIM_TYPES[tp]} {cstr(str(v))})"
        raise Unsupported(f"primitive {type(v)}")

    def is_model(self, v):
        return dataclasses.is_dataclass(v) and not isinstance(v, type) and type(v) in self.cid

    # ------------------------------------------------------------ values
    def value_term(self, v):
        if v is None:
            return "VNone"
        if isinstance(v, AnyElement):
            return (f"(VAny {copt(v.qname, cstr)} {copt(v.text, cstr)} {copt(v.tail, cstr)} "
                    f"{clist(v.attributes.items(), lambda kv: f'({cstr(kv[0])}, {cstr(kv[1])})', 'qname * str')} "
                    f"{clist(v.children, self.value_term, 'value')})")
        if isinstance(v, DerivedElement):
            return f"(VDerived {cstr(v.qname)} {self.value_term(v.value)} {copt(v.type, cstr)})"
        if self.is_model(v):
            fs = [(f.name, getattr(v, f.name)) for f in dataclasses.fields(v)]
            return (f"(VObj {cN(self.cid[type(v)])} "
                    f"{clist(fs, lambda kv: f'({cstr(kv[0])}, {self.value_term(kv[1])})', 'str * value')})")
        if dataclasses.is_dataclass(v) and not isinstance(v, type):
            raise Unsupported(f"dataclass {type(v)} not in universe")
        if isinstance(v, tuple) and hasattr(v, "_fields"):      # XmlDate & co are NamedTuples
            return f"(VP {self.prim(v)})"
        if isinstance(v, (list, tuple)):
            return f"(VList {cbool(isinstance(v, tuple))} {clist(v, self.value_term, 'value')})"
        if isinstance(v, dict):
            for k, x in v.items():
                if not isinstance(k, str) or not isinstance(x, str):
                    raise Unsupported("non-str attribute map")
            return f"(VMap {clist(v.items(), lambda kv: f'({cstr(kv[0])}, {cstr(kv[1])})', 'qname * str')})"
        return f"(VP {self.prim(v)})"

    # ------------------------------------------------------------ metadata
    def factory(self, f):
        if f is None:
            return "None"
        if f is list:
            return "(Some FList)"
        if f is tuple:
            return "(Some FTuple)"
        raise Unsupported(f"factory {f!r}")

    def default(self, d):
        if d is None:
            return "DNone"
        if d is list:
            return "DFactoryList"
        if d is tuple:
            return "DFactoryTuple"
        if d is dict:
            return "DFactoryDict"
        if callable(d):
            try:
                val = d()
            except Exception as e:  # noqa
                raise Unsupported(f"default factory {d!r}")
            return f"(DValue {self.value_term(val)})"
        return f"(DValue {self.value_term(d)})"

    def kind(self, var):
        for k, a in (("KText", "is_text"), ("KElement", "is_element"), ("KElements", "is_elements"),
                     ("KWildcard", "is_wildcard"), ("KAttribute", "is_attribute"), ("KAttributes", "is_attributes")):
            if getattr(var, a):
                return k
        raise Unsupported("var kind")

    def xvar(self, var):
        return ("(mk_xvar " + " ".join([
            cN(var.index), cstr(var.name), cstr(var.local_name), cstr(var.qname), copt(var.wrapper_qname, cstr),
            self.kind(var), clist(var.types, self.ptype, "ptype"),
            copt(var.clazz, lambda c: cN(self._cid(c))), cbool(var.init), cbool(var.mixed),
            self.factory(var.factory if var.list_element else None), self.factory(var.tokens_factory),
            copt(var.format, cstr), cbool(var.any_type), cstr(var.process_contents), cbool(var.required),
            cbool(var.nillable), copt(var.sequence, cN), self.default(var.default),
            clist(var.namespaces, cstr, "str"),
            clist(var.elements.items(), lambda kv: f"({cstr(kv[0])}, {self.xvar(kv[1])})", "qname * xvar"),
            clist(var.wildcards, self.xvar, "xvar")]) + ")")

    def _cid(self, c):
        if c not in self.cid:
            raise Unsupported(f"class {c} not in universe")
        return self.cid[c]

    def xmeta(self, meta):
        return ("(mk_xmeta " + " ".join([
            cN(self._cid(meta.clazz)), cstr(meta.qname), copt(meta.target_qname, cstr), cbool(meta.nillable),
            copt(meta.text, self.xvar), clist(meta.choices, self.xvar, "xvar"),
            clist(meta.elements.items(), lambda kv: f"({cstr(kv[0])}, {clist(kv[1], self.xvar, 'xvar')})", "qname * list xvar"),
            clist(meta.wildcards, self.xvar, "xvar"),
            clist(meta.attributes.items(), lambda kv: f"({cstr(kv[0])}, {self.xvar(kv[1])})", "qname * xvar"),
            clist(meta.any_attributes, self.xvar, "xvar"),
            clist(meta.wrappers.items(), lambda kv: f"({cstr(kv[0])}, {cstr(kv[1])})", "qname * qname"),
            copt(meta.namespace, cstr), cbool(meta.mixed_content)]) + ")")

    def universe_term(self):
        ctx = self.context
        metas = []
        for c in self.classes:
            metas.append(f"({cN(self.cid[c])}, {self.xmeta(ctx.build(c))})")
        mro = [f"({cN(self.cid[c])}, {clist([self.cid[x] for x in c.__mro__ if x in self.cid], cN, 'N')})" for c in self.classes]
        bases = [f"({cN(self.cid[c])}, {clist([self.cid[x] for x in c.__bases__ if x in self.cid], cN, 'N')})" for c in self.classes]
        ctx.build_xsi_cache()
        xsi = []
        for q, types in ctx.xsi_cache.items():
            ts = [self.cid[t] for t in types if t in self.cid]
            if ts:
                xsi.append(f"({cstr(q)}, {clist(ts, cN, 'N')})")
        enums = []
        for e in self.enums:
            members = [f"({cstr(m.name)}, {self.prim(m.value) if not isinstance(m.value, (list, tuple)) else self._unsup('token enum')})" for m in e]
            enums.append(f"(mk_enum {cN(self.eid[e])} {clist(members, str, 'str * prim')})")
        names = [f"({cN(self.cid[c])}, {cstr(c.__qualname__)})" for c in self.classes]
        return ("(mk_universe " + " ".join([
            clist(metas, str, "cls * xmeta"), clist(mro, str, "cls * list cls"), clist(bases, str, "cls * list cls"),
            clist(xsi, str, "qname * list cls"), clist(enums, str, "enum_def"), clist(names, str, "cls * str")]) + ")")

    def _unsup(self, what):
        raise Unsupported(what)

    # ------------------------------------------------------------ events
    def wval(self, v):
        if v is None:
            return "WNone"
        if isinstance(v, tuple) and hasattr(v, "_fields"):
            return f"(WP {self.prim(v)})"
        if isinstance(v, (list, tuple)):
            return f"(WL {clist(v, self.wval, 'wval')})"
        return f"(WP {self.prim(v)})"

    def wevents_term(self, events):
        out = []
        for ev in events:
            k = ev[0]
            if k == "start":
                out.append(f"WStart {cstr(ev[1])}")
            elif k == "end":
                out.append(f"WEnd {cstr(ev[1])}")
            elif k == "attr":
                out.append(f"WAttr {cstr(ev[1])} {self.wval(ev[2])}")
            elif k == "data":
                out.append(f"WData {self.wval(ev[1])}")
            else:
                raise Unsupported(f"writer event {k}")
        return clist(out, str, "wevent")

    @staticmethod
    def nsmap(m):
        return clist(m.items(), lambda kv: f"({copt(kv[0], cstr)}, {cstr(kv[1])})", "option str * str")

    def pevents_term(self, events):
        """events as recorded by RecordParser: (EventType.START, qname, attrs, ns_map) / (END, qname, text, tail) / (START_NS, prefix, uri)"""
        out = []
        for ev in events:
            k = str(ev[0].value if hasattr(ev[0], "value") else ev[0])
            if k == "start":
                out.append(f"PStart {cstr(ev[1])} "
                           f"{clist(ev[2].items(), lambda kv: f'({cstr(kv[0])}, {cstr(kv[1])})', 'qname * str')} {self.nsmap(ev[3])}")
            elif k == "end":
                out.append(f"PEnd {cstr(ev[1])} {copt(ev[2], cstr)} {copt(ev[3], cstr)}")
            elif k == "start-ns":
                out.append(f"PStartNs {copt(ev[1] or None, cstr)} {cstr(ev[2])}")
            else:
                raise Unsupported(f"parser event {k}")
        return clist(out, str, "pevent")
