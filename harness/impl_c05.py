"""Runs xsdata's converters on a batch of operations (JSON stdin -> JSON stdout).

Values travel as {"t": <python class name>, "v": ...}:
  int  -> hex string (no int<->str digit limit involved), bool -> bool, str -> str,
  bytes/XmlHexBinary/XmlBase64Binary -> list of ints, float -> float.hex(),
  Decimal -> [sign, digits-as-string, exponent | "n" | "N" | "F"], QName -> text,
  enum member -> {"t": "Enum", "v": [enum index, member name]},
  XmlDate/XmlTime/XmlDateTime -> list of fields, XmlPeriod/XmlDuration -> str(value),
  date/time/datetime -> isoformat().
"""
import datetime
import enum
import json
import sys
from decimal import Decimal
from xml.etree.ElementTree import QName

from xsdata.exceptions import ConverterError
from xsdata.formats.converter import converter, ConverterFactory
from xsdata.models.datatype import (XmlBase64Binary, XmlDate, XmlDateTime, XmlDuration, XmlHexBinary, XmlPeriod,
                                    XmlTime)
from xsdata.models.enums import DataType


class Unreg0:
    pass


class Unreg1:
    pass


TYPES = {
    "int": int, "bool": bool, "float": float, "Decimal": Decimal, "str": str, "bytes": bytes, "QName": QName,
    "object": object, "XmlDate": XmlDate, "XmlTime": XmlTime, "XmlDateTime": XmlDateTime,
    "XmlDuration": XmlDuration, "XmlPeriod": XmlPeriod, "date": datetime.date, "time": datetime.time,
    "datetime": datetime.datetime, "Unreg0": Unreg0, "Unreg1": Unreg1, "XmlHexBinary": XmlHexBinary,
    "XmlBase64Binary": XmlBase64Binary,
}


def dec_value(v):
    if isinstance(v, dict):
        t, x = v["t"], v["v"]
    else:
        raise ValueError(v)
    if t == "int":
        return int(x, 16)
    if t == "bool":
        return bool(x)
    if t == "str":
        return x
    if t == "bytes":
        return bytes(x)
    if t == "XmlHexBinary":
        return XmlHexBinary(bytes(x))
    if t == "XmlBase64Binary":
        return XmlBase64Binary(bytes(x))
    if t == "float":
        return float.fromhex(x) if x not in ("nan", "inf", "-inf") else float(x)
    if t == "Decimal":
        sign, digits, exp = x
        return Decimal((sign, tuple(int(c) for c in digits), exp))
    if t == "QName":
        return QName(x)
    if t == "list":
        return [dec_value(i) for i in x]
    if t == "tuple":
        return tuple(dec_value(i) for i in x)
    if t in ("date", "time", "datetime"):
        return getattr(datetime, t).fromisoformat(x)
    if t in ("XmlPeriod", "XmlDuration"):
        return {"XmlPeriod": XmlPeriod, "XmlDuration": XmlDuration}[t](x)
    if t in ("XmlDate", "XmlTime", "XmlDateTime"):
        return {"XmlDate": XmlDate, "XmlTime": XmlTime, "XmlDateTime": XmlDateTime}[t].from_string(x)
    if t == "Unreg0":
        return Unreg0()
    raise ValueError(t)


def enc_value(v, enums=()):
    if isinstance(v, enum.Enum):
        for k, e in enumerate(enums):
            if isinstance(v, e):
                return {"t": "Enum", "v": [k, v.name]}
        return {"t": "Enum", "v": [-1, v.name]}
    if isinstance(v, bool):
        return {"t": "bool", "v": v}
    if isinstance(v, int):
        return {"t": "int", "v": hex(v)}
    if isinstance(v, float):
        return {"t": "float", "v": v.hex() if v == v and abs(v) != float("inf") else repr(v)}
    if isinstance(v, Decimal):
        s, d, e = v.as_tuple()
        return {"t": "Decimal", "v": [s, "".join(map(str, d)), e]}
    if isinstance(v, QName):
        return {"t": "QName", "v": v.text}
    if isinstance(v, (XmlDate, XmlTime, XmlDateTime)):
        return {"t": type(v).__name__, "v": list(v)}
    if isinstance(v, (XmlPeriod, XmlDuration)):
        return {"t": type(v).__name__, "v": str(v)}
    if isinstance(v, (bytes,)):
        return {"t": type(v).__name__, "v": list(v)}
    if isinstance(v, str):
        return {"t": "str", "v": v}
    if isinstance(v, (datetime.datetime, datetime.date, datetime.time)):
        return {"t": type(v).__name__, "v": v.isoformat()}
    return {"t": type(v).__name__, "v": repr(v)}


def mk_enums(specs):
    out = []
    for k, members in enumerate(specs or []):
        out.append(enum.Enum(f"E{k}", [(n, dec_value(v)) for n, v in members]))
    return out


def kwargs_of(op):
    kw = {}
    if "format" in op and op["format"] is not None:
        kw["format"] = op["format"]
    if "ns_map" in op:
        kw["ns_map"] = None if op["ns_map"] is None else {k: v for k, v in op["ns_map"]}
    return kw


def ty(name, enums):
    if name.startswith("Enum:"):
        return enums[int(name[5:])]
    return TYPES[name]


def run(op):
    k = op["op"]
    enums = mk_enums(op.get("enums"))
    kw = kwargs_of(op)
    try:
        if k == "deser":
            v = converter.deserialize(op["s"], [ty(t, enums) for t in op["types"]], **kw)
            return {"ok": enc_value(v, enums)}
        if k == "ser":
            v = dec_value(op["v"]) if op["v"]["t"] != "Enum" else list(enums[op["v"]["v"][0]])[op["v"]["v"][1]]
            s = converter.serialize(v, **kw)
            out = {"ok": s}
            if kw.get("ns_map") is not None:
                out["ns_map"] = [[p, u] for p, u in kw["ns_map"].items()]
            return out
        if k == "roundtrip":
            # serialize then deserialize with the same type and keyword arguments
            v = dec_value(op["v"]) if op["v"]["t"] != "Enum" else list(enums[op["v"]["v"][0]])[op["v"]["v"][1]]
            s = converter.serialize(v, **kw)
            try:
                back = converter.deserialize(s, [ty(op["type"], enums)], **kw)
            except ConverterError:
                return {"ok": s, "back_err": "ConverterError", "same": False, "eq": False}
            try:
                eq = bool(back == v)
            except Exception:  # comparing signaling NaNs raises
                eq = False
            same = eq and type(back) is type(v)
            if isinstance(v, float) and v != v:
                same = isinstance(back, float) and back != back
            if isinstance(v, Decimal) and v.is_nan():
                same = isinstance(back, Decimal) and back.as_tuple() == v.as_tuple()
            return {"ok": s, "back": enc_value(back, enums), "same": bool(same), "eq": eq}
        if k == "sort_types":
            names = {id(ty(t, enums)): t for t in op["types"]}
            return {"ok": [names[id(t)] for t in ConverterFactory.sort_types([ty(t, enums) for t in op["types"]])]}
        if k == "test":
            return {"ok": bool(converter.test(op["s"], [ty(t, enums) for t in op["types"]], strict=op.get("strict", False), **kw))}
        if k == "from_value":
            v = dec_value(op["v"])
            out = {"ok": DataType.from_value(v).name}
            if isinstance(v, XmlPeriod):
                out["ymd"] = [v.year, v.month, v.day]
            if not isinstance(v, (bytes, Unreg0, datetime.date, datetime.time)):
                try:
                    out["ser"] = converter.serialize(v)
                except ValueError:  # str(int) beyond the interpreter's digit limit
                    pass
            return out
        if k == "float_facts":
            # the CPythonFloat hypotheses, sampled
            x = float.fromhex(op["x"]) if op["x"] not in ("nan", "inf", "-inf") else float(op["x"])
            r = repr(x)
            norm = r.upper().replace("E+", "E")
            return {"ok": {"repr": r, "back": float(r).hex() if x == x else "nan",
                           "norm_back": float(norm).hex() if x == x else "nan"}}
        raise KeyError(k)
    except ConverterError:
        return {"err": "ConverterError"}
    except Exception as e:  # noqa
        return {"err": type(e).__name__, "msg": str(e)[:80]}


def main():
    ops = json.load(sys.stdin)
    json.dump([run(op) for op in ops], sys.stdout)


main()
