"""Smoke test / usage example of the shared code-generation harness.
    /venv/bin/python /verif/harness/test_codegen_run.py
"""
import json
import os
import sys
import time

sys.path.insert(0, os.path.dirname(os.path.abspath(__file__)))
from codegen_run import run_jobs, validate_standin  # noqa: E402

XSD = """<xs:schema xmlns:xs="http://www.w3.org/2001/XMLSchema" targetNamespace="urn:t" xmlns="urn:t" elementFormDefault="qualified">
  <xs:element name="root"><xs:complexType><xs:sequence>
    <xs:element name="class" type="xs:string"/>
    <xs:element name="a" type="xs:int" minOccurs="0" maxOccurs="unbounded"/>
    <xs:element name="kind" type="Kind"/>
  </xs:sequence><xs:attribute name="a" type="xs:string"/></xs:complexType></xs:element>
  <xs:simpleType name="Kind"><xs:restriction base="xs:string"><xs:enumeration value="1a"/><xs:enumeration value="None"/></xs:restriction></xs:simpleType>
</xs:schema>"""
DTD = "<!ELEMENT post (title, tag*)>\n<!ELEMENT title (#PCDATA)>\n<!ELEMENT tag (#PCDATA)>\n<!ATTLIST post id CDATA #REQUIRED>\n"
XML = "<doc><item id='1'>x</item><item id='2'><sub/></item></doc>"
JSON = '{"name": "x", "items": [{"id": 1}, {"id": 2, "class": "k"}]}'
BAD = "<xs:schema xmlns:xs='http://www.w3.org/2001/XMLSchema'><xs:element name='a' type='missing'/></xs:schema>"


def main():
    t0 = time.time()
    jobs = [
        {"id": "xsd", "sources": {"t.xsd": XSD}, "options": {}},
        {"id": "xsd-opts", "sources": {"t.xsd": XSD},
         "options": {"structure_style": "clusters", "compound_fields": True, "frozen": True, "slots": True,
                     "docstring_style": "Google", "relative_imports": True, "unnest_classes": True,
                     "conventions": {"field_name": {"case": "mixedCase", "safe_prefix": "f"}}}},
        {"id": "dtd", "sources": {"p.dtd": DTD}, "options": {"structure_style": "single-package"}},
        {"id": "xml", "sources": {"d.xml": XML}, "options": {"package": "pkg.sub"}},
        {"id": "json", "sources": {"d.json": JSON}, "options": {"generic_collections": True}},
        {"id": "lenient", "sources": {"b.xsd": BAD}, "options": {}},
        {"id": "bad", "sources": {"t.xsd": XSD},
         "options": {"extensions": [{"type": "class", "class_name": ".*", "import_string": "nodot"}]}},
    ]
    res = run_jobs(jobs)
    for r in res:
        b = r.get("bind") or {}
        print(r["id"], r["status"], r["stage"], (r["error"] or {}).get("type"), (r["error"] or {}).get("message", "")[:80],
              "files:", r["files"], "classes:", len(b.get("classes", [])), "errors:", b.get("errors"),
              "dups:", b.get("dup_fields"), b.get("dup_classes"))
    assert [r["status"] for r in res] == ["ok", "ok", "ok", "ok", "ok", "ok", "codegen_error"], [r["status"] for r in res]
    enum_plan = res[0]["modules"][0]["classes"][0]
    assert enum_plan["kind"] == "enum" and [a["constant_name"] for a in enum_plan["attrs"]] == ["VALUE_1A", "NONE"], enum_plan
    print(json.dumps(res[0]["modules"][0]["classes"][0], indent=1)[:700])
    print("jobs wall %.1fs" % (time.time() - t0))
    t0 = time.time()
    d = validate_standin()
    print("validate_standin:", len(d), "differences; wall %.1fs" % (time.time() - t0))
    for x in d[:10]:
        print("  -", x[:300])
    assert not d


main()
