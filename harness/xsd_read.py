"""Independent reader of XML Schema documents for C02 (lxml on the XSD text; xsdata's SchemaParser
is NOT used).  Produces the abstract the Coq validator works on (Spec/XsdCm.v):

  {"types": [tdef...], "elements": {Clark qname of a global element: type id},
   "nillable_globals": [qname...], "abstract_globals": [...]}
  tdef = {"id", "name": Clark qname|None, "abstract": bool,
          "content": ["empty"] | ["simple", stype] | ["elems", cm] | ["mixed", cm],
          "attrs":  [{"qname", "use": "REQUIRED"|"IMPLIED"|"FIXED"|"DEFAULT", "value", "stype"}],
          "anyattr": wns | None,
          "decls":  [{"qname", "type": id, "nillable", "default", "fixed"}]   one per element name of the content model
          "derived": [[Clark type qname, id]...]   what xsi:type may name here (the type itself included when named)}
  cm     = ["el", qname] | ["seq", [cm...]] | ["choice", [cm...]] | ["all", [cm...]] | ["any", wns] | ["occ", min, max|None, cm]
  wns    = ["any"] | ["other", tns|None] | ["in", [uri|None...]]
  stype  = ["atom", builtin local name, enum list|None, whitespace "preserve"|"replace"|"collapse"]
         | ["list", stype] | ["union", [stype...]]

Supported fragment: what this file reads (anything else raises Unsupported, which the check
reports as a generator bug, never as a verdict): targetNamespace / elementFormDefault /
attributeFormDefault / form; include, import (schemaLocation relative to the including file);
global and local element declarations, ref, substitutionGroup, abstract, nillable, default,
fixed; named and anonymous complexType with sequence / choice / all / group ref and occurrence
ranges, mixed, abstract, complexContent extension, simpleContent extension; attribute (local,
ref, use, default, fixed), attributeGroup, anyAttribute; any with namespace constraint;
simpleType restriction (enumeration and the whiteSpace facet are interpreted, the other facets
only constrain which values are valid), list, union.
"""
import posixpath

from lxml import etree

XS = "http://www.w3.org/2001/XMLSchema"
XSD = "{%s}" % XS

WS_OF_BUILTIN = {"string": "preserve", "normalizedString": "replace"}
LIST_BUILTINS = {"NMTOKENS": "NMTOKEN", "IDREFS": "IDREF", "ENTITIES": "ENTITY"}
# builtin derivation (only what is needed to find the primitive behaviour of a derived builtin)
KNOWN_BUILTINS = {
    "string", "normalizedString", "token", "language", "NMTOKEN", "Name", "NCName", "ID", "IDREF", "ENTITY", "anyURI",
    "boolean", "decimal", "integer", "int", "long", "short", "byte", "nonNegativeInteger", "positiveInteger",
    "nonPositiveInteger", "negativeInteger", "unsignedInt", "unsignedLong", "unsignedShort", "unsignedByte", "float",
    "double", "date", "dateTime", "time", "duration", "gYear", "gYearMonth", "gMonthDay", "gDay", "gMonth", "hexBinary",
    "base64Binary", "QName", "anySimpleType"}


class Unsupported(Exception):
    pass


def clark(ns, local):
    return ("{%s}%s" % (ns, local)) if ns else local


class Doc:
    def __init__(self, name, root):
        self.name = name
        self.root = root
        self.tns = root.get("targetNamespace")
        self.efd = root.get("elementFormDefault") == "qualified"
        self.afd = root.get("attributeFormDefault") == "qualified"


class Reader:
    def __init__(self, sources, entry="main.xsd"):
        self.sources = sources
        self.docs = {}
        self.comp = {"element": {}, "complexType": {}, "simpleType": {}, "group": {}, "attributeGroup": {}, "attribute": {}}
        self.types = []
        self.memo = {}
        self.load(entry, None)
        self.subst = {}
        for q, (node, doc) in self.comp["element"].items():
            h = node.get("substitutionGroup")
            if h:
                self.subst.setdefault(self.qname(node, h, doc), []).append(q)

    # ---------------------------------------------------------------- loading
    def load(self, name, chameleon_ns):
        name = posixpath.normpath(name)
        if name in self.docs:
            return
        if name not in self.sources:
            raise Unsupported("schema document not found: " + name)
        root = etree.fromstring(self.sources[name].encode())
        if root.tag != XSD + "schema":
            raise Unsupported("not a schema document: " + name)
        doc = Doc(name, root)
        if doc.tns is None and chameleon_ns:
            raise Unsupported("chameleon include")
        self.docs[name] = doc
        for ch in root:
            if not isinstance(ch.tag, str):
                continue
            k = ch.tag[len(XSD):] if ch.tag.startswith(XSD) else None
            if k in ("include", "import"):
                loc = ch.get("schemaLocation")
                if loc is None:
                    continue
                self.load(posixpath.join(posixpath.dirname(name), loc), None)
            elif k in self.comp:
                q = clark(doc.tns, ch.get("name"))
                if q in self.comp[k]:
                    raise Unsupported("duplicate component " + q)
                self.comp[k][q] = (ch, doc)
            elif k in ("annotation",):
                pass
            else:
                raise Unsupported("top-level " + str(ch.tag))

    def qname(self, node, text, doc):
        """Resolve a QName attribute value in the scope of `node`."""
        if ":" in text:
            p, l = text.split(":")
            if p not in node.nsmap:
                raise Unsupported("undeclared prefix " + p)
            return clark(node.nsmap[p], l)
        return clark(node.nsmap.get(None), text)

    @staticmethod
    def kids(node, *names):
        return [c for c in node if isinstance(c.tag, str) and c.tag.startswith(XSD) and c.tag[len(XSD):] in names]

    @staticmethod
    def others(node, *allowed):
        for c in node:
            if isinstance(c.tag, str) and (not c.tag.startswith(XSD) or c.tag[len(XSD):] not in allowed + ("annotation",)):
                raise Unsupported("unexpected %s in %s" % (c.tag, node.tag))

    # ---------------------------------------------------------------- simple types
    def builtin_stype(self, local):
        if local in LIST_BUILTINS:
            return ["list", ["atom", LIST_BUILTINS[local], None, "collapse"]]
        if local not in KNOWN_BUILTINS:
            raise Unsupported("builtin " + local)
        return ["atom", local, None, WS_OF_BUILTIN.get(local, "collapse")]

    def stype_ref(self, q):
        if q.startswith(XSD):
            return self.builtin_stype(q[len(XSD):])
        if q not in self.comp["simpleType"]:
            raise Unsupported("unknown simple type " + q)
        node, doc = self.comp["simpleType"][q]
        return self.stype_def(node, doc)

    def stype_def(self, node, doc):
        self.others(node, "restriction", "list", "union")
        r = self.kids(node, "restriction")
        if r:
            r = r[0]
            if r.get("base"):
                base = self.stype_ref(self.qname(r, r.get("base"), doc))
            else:
                base = self.stype_def(self.kids(r, "simpleType")[0], doc)
            enums = [e.get("value") for e in self.kids(r, "enumeration")]
            ws = [e.get("value") for e in self.kids(r, "whiteSpace")]
            if base[0] == "atom":
                out = list(base)
                if enums:
                    out[2] = enums
                if ws:
                    out[3] = ws[0]
                return out
            if enums:
                raise Unsupported("enumeration on a list/union")
            return base
        li = self.kids(node, "list")
        if li:
            li = li[0]
            if li.get("itemType"):
                return ["list", self.stype_ref(self.qname(li, li.get("itemType"), doc))]
            return ["list", self.stype_def(self.kids(li, "simpleType")[0], doc)]
        u = self.kids(node, "union")[0]
        members = [self.stype_ref(self.qname(u, t, doc)) for t in (u.get("memberTypes") or "").split()]
        members += [self.stype_def(s, doc) for s in self.kids(u, "simpleType")]
        if members and all(m == members[0] for m in members):
            return members[0]                       # a union of one type with itself is that type
        return ["union", members]

    # ---------------------------------------------------------------- types
    def new_type(self, key, name=None):
        t = {"id": len(self.types), "name": name, "abstract": False, "content": ["empty"], "attrs": [], "anyattr": None,
             "decls": [], "derived": []}
        self.types.append(t)
        if key is not None:
            self.memo[key] = t["id"]
        return t

    def simple_type_id(self, st):
        key = ("simple", repr(st))
        if key in self.memo:
            return self.memo[key]
        t = self.new_type(key)
        t["content"] = ["simple", st]
        return t["id"]

    def type_ref(self, q):
        """type id of the named type q"""
        if q.startswith(XSD) or q in self.comp["simpleType"]:
            if q == XSD + "anyType":
                raise Unsupported("anyType")
            return self.simple_type_id(self.stype_ref(q))
        if q not in self.comp["complexType"]:
            raise Unsupported("unknown type " + q)
        key = ("complex", q)
        if key in self.memo:
            return self.memo[key]
        node, doc = self.comp["complexType"][q]
        t = self.new_type(key, q)
        self.fill_complex(t, node, doc)
        return t["id"]

    def element_type(self, node, doc):
        """type id of an element declaration node"""
        if node.get("type"):
            return self.type_ref(self.qname(node, node.get("type"), doc))
        ct = self.kids(node, "complexType")
        if ct:
            key = ("anon", id(ct[0]))
            if key in self.memo:
                return self.memo[key]
            t = self.new_type(key)
            self._keep = getattr(self, "_keep", []) + [ct[0]]
            self.fill_complex(t, ct[0], doc)
            return t["id"]
        st = self.kids(node, "simpleType")
        if st:
            return self.simple_type_id(self.stype_def(st[0], doc))
        sg = node.get("substitutionGroup")
        if sg:
            h, hd = self.comp["element"][self.qname(node, sg, doc)]
            return self.element_type(h, hd)
        raise Unsupported("element without a type (anyType)")

    def complex_parts(self, node, doc):
        """(content kind, particle cm | None, simple stype | None, attrs, anyattr, mixed) with the base merged in"""
        self.others(node, "sequence", "choice", "all", "group", "attribute", "attributeGroup", "anyAttribute",
                    "complexContent", "simpleContent")
        mixed = node.get("mixed") == "true"
        cc = self.kids(node, "complexContent")
        sc = self.kids(node, "simpleContent")
        decls = {}
        if cc:
            if cc[0].get("mixed") is not None:
                mixed = cc[0].get("mixed") == "true"
            self.others(cc[0], "extension")
            ext = self.kids(cc[0], "extension")
            if not ext:
                raise Unsupported("complexContent restriction")
            ext = ext[0]
            bq = self.qname(ext, ext.get("base"), doc)
            if bq not in self.comp["complexType"]:
                raise Unsupported("extension of " + bq)
            bnode, bdoc = self.comp["complexType"][bq]
            bcm, bsimple, battrs, bany, bmixed, bdecls = self.complex_parts(bnode, bdoc)
            if bsimple is not None:
                raise Unsupported("complexContent extension of simple content")
            cm, attrs, anyattr = self.own_parts(ext, doc, decls)
            parts = [c for c in (bcm, cm) if c is not None]
            cm = None if not parts else parts[0] if len(parts) == 1 else ["seq", parts]
            for k, v in bdecls.items():
                self.add_decl(decls, v)
            return cm, None, battrs + attrs, anyattr or bany, mixed or bmixed, decls
        if sc:
            self.others(sc[0], "extension")
            ext = self.kids(sc[0], "extension")
            if not ext:
                raise Unsupported("simpleContent restriction")
            ext = ext[0]
            bq = self.qname(ext, ext.get("base"), doc)
            _, attrs, anyattr = self.own_parts(ext, doc, decls)
            if bq in self.comp["complexType"]:
                bnode, bdoc = self.comp["complexType"][bq]
                bcm, bsimple, battrs, bany, _, _ = self.complex_parts(bnode, bdoc)
                if bsimple is None:
                    raise Unsupported("simpleContent extension of element content")
                return None, bsimple, battrs + attrs, anyattr or bany, False, {}
            return None, self.stype_ref(bq), attrs, anyattr, False, {}
        cm, attrs, anyattr = self.own_parts(node, doc, decls)
        return cm, None, attrs, anyattr, mixed, decls

    def simple_base_named(self, node, doc):
        """Is the simple content of this complex type (through its chain of complex bases) a NAMED simple type?"""
        for sc in self.kids(node, "simpleContent"):
            for ext in self.kids(sc, "extension"):
                bq = self.qname(ext, ext.get("base"), doc)
                if bq in self.comp["complexType"]:
                    return self.simple_base_named(*self.comp["complexType"][bq])
                return bq in self.comp["simpleType"]
        return False

    def own_parts(self, node, doc, decls):
        cm = None
        for p in self.kids(node, "sequence", "choice", "all", "group"):
            if cm is not None:
                raise Unsupported("two particles")
            cm = self.particle(p, doc, decls)
        attrs, anyattr = self.attr_uses(node, doc)
        return cm, attrs, anyattr

    def fill_complex(self, t, node, doc):
        cm, simple, attrs, anyattr, mixed, decls = self.complex_parts(node, doc)
        t["abstract"] = node.get("abstract") == "true"
        if simple is not None:
            t["content"] = ["simple", simple]
        elif mixed:
            t["content"] = ["mixed", cm if cm is not None else ["seq", []]]
        elif cm is not None:
            t["content"] = ["elems", cm]
        t["attrs"], t["anyattr"] = attrs, anyattr
        t["simple_base_named"] = self.simple_base_named(node, doc)
        t["decls"] = list(decls.values())
        names = [a["qname"] for a in attrs]
        if len(set(names)) != len(names):
            raise Unsupported("duplicate attribute")

    # ---------------------------------------------------------------- particles
    def occ(self, node, cm):
        mn = int(node.get("minOccurs", "1"))
        mx = node.get("maxOccurs", "1")
        mx = None if mx == "unbounded" else int(mx)
        if (mn, mx) == (1, 1):
            return cm
        return ["occ", mn, mx, cm]

    def add_decl(self, decls, d):
        old = decls.get(d["qname"])
        if old is not None and (old["type"] != d["type"] or old["nillable"] != d["nillable"]):
            raise Unsupported("element declarations not consistent for " + d["qname"])
        if old is None:
            decls[d["qname"]] = d

    def global_decl(self, q):
        node, doc = self.comp["element"][q]
        return {"qname": q, "type": self.element_type(node, doc), "nillable": node.get("nillable") == "true",
                "default": node.get("default"), "fixed": node.get("fixed"),
                "named_simple": bool(node.get("type")) and self.qname(node, node.get("type"), doc) in self.comp["simpleType"]}

    def members(self, q, seen=None):
        """q and every element that may substitute for it (transitively), abstract ones excluded"""
        seen = seen if seen is not None else []
        if q in seen:
            return seen
        seen.append(q)
        for m in self.subst.get(q, []):
            self.members(m, seen)
        return seen

    def particle(self, p, doc, decls):
        k = p.tag[len(XSD):]
        if k == "element":
            if p.get("ref"):
                q = self.qname(p, p.get("ref"), doc)
                if q not in self.comp["element"]:
                    raise Unsupported("unknown element " + q)
                alts = []
                for m in self.members(q):
                    mnode, _ = self.comp["element"][m]
                    if mnode.get("abstract") == "true":
                        continue
                    self.add_decl(decls, self.global_decl(m))
                    alts.append(["el", m])
                if not alts:
                    raise Unsupported("abstract element without substitutes")
                return self.occ(p, alts[0] if len(alts) == 1 else ["choice", alts])
            form = p.get("form")
            qualified = (form == "qualified") if form is not None else doc.efd
            q = clark(doc.tns if qualified else None, p.get("name"))
            self.add_decl(decls, {"qname": q, "type": self.element_type(p, doc), "nillable": p.get("nillable") == "true",
                                  "default": p.get("default"), "fixed": p.get("fixed"),
                                  "named_simple": bool(p.get("type")) and self.qname(p, p.get("type"), doc) in self.comp["simpleType"]})
            return self.occ(p, ["el", q])
        if k == "any":
            return self.occ(p, ["any", self.wns(p.get("namespace", "##any"), doc)])
        if k == "group":
            q = self.qname(p, p.get("ref"), doc)
            if q not in self.comp["group"]:
                raise Unsupported("unknown group " + q)
            g, gdoc = self.comp["group"][q]
            inner = self.kids(g, "sequence", "choice", "all")
            if len(inner) != 1:
                raise Unsupported("group shape")
            return self.occ(p, self.particle(inner[0], gdoc, decls))
        if k in ("sequence", "choice", "all"):
            self.others(p, "element", "any", "group", "sequence", "choice")
            items = [self.particle(c, doc, decls) for c in self.kids(p, "element", "any", "group", "sequence", "choice")]
            return self.occ(p, [{"sequence": "seq", "choice": "choice", "all": "all"}[k], items])
        raise Unsupported("particle " + k)

    def wns(self, text, doc):
        if text == "##any":
            return ["any"]
        if text == "##other":
            return ["other", doc.tns]
        out = []
        for tok in text.split():
            out.append(None if tok == "##local" else doc.tns if tok == "##targetNamespace" else tok)
        return ["in", out]

    # ---------------------------------------------------------------- attributes
    def attr_uses(self, node, doc):
        out, anyattr = [], None
        for a in self.kids(node, "attribute"):
            if a.get("use") == "prohibited":
                continue
            out.append(self.attr_use(a, doc))
        for g in self.kids(node, "attributeGroup"):
            q = self.qname(g, g.get("ref"), doc)
            if q not in self.comp["attributeGroup"]:
                raise Unsupported("unknown attribute group " + q)
            gn, gdoc = self.comp["attributeGroup"][q]
            o, aa = self.attr_uses(gn, gdoc)
            out += o
            anyattr = anyattr or aa
        for a in self.kids(node, "anyAttribute"):
            anyattr = self.wns(a.get("namespace", "##any"), doc)
        return out, anyattr

    def attr_use(self, a, doc):
        default, fixed = a.get("default"), a.get("fixed")
        if a.get("ref"):
            q = self.qname(a, a.get("ref"), doc)
            if q not in self.comp["attribute"]:
                raise Unsupported("unknown attribute " + q)
            g, gdoc = self.comp["attribute"][q]
            st = self.attr_stype(g, gdoc)
            default = default if default is not None else g.get("default")
            fixed = fixed if fixed is not None else g.get("fixed")
        else:
            form = a.get("form")
            qualified = (form == "qualified") if form is not None else doc.afd
            q = clark(doc.tns if qualified else None, a.get("name"))
            st = self.attr_stype(a, doc)
        use = "REQUIRED" if a.get("use") == "required" else "FIXED" if fixed is not None else \
            "DEFAULT" if default is not None else "IMPLIED"
        if a.get("use") == "required" and fixed is not None:
            use = "REQFIXED"
        return {"qname": q, "use": use, "value": fixed if fixed is not None else default, "stype": st}

    def attr_stype(self, a, doc):
        if a.get("type"):
            return self.stype_ref(self.qname(a, a.get("type"), doc))
        st = self.kids(a, "simpleType")
        if st:
            return self.stype_def(st[0], doc)
        return ["atom", "anySimpleType", None, "preserve"]

    # ---------------------------------------------------------------- result
    def derived_of(self, q):
        """named complex types derived by extension from q (q first)"""
        out = [q]
        changed = True
        while changed:
            changed = False
            for n, (node, doc) in self.comp["complexType"].items():
                if n in out:
                    continue
                for tag in ("complexContent", "simpleContent"):
                    for c in self.kids(node, tag):
                        for e in self.kids(c, "extension"):
                            if self.qname(e, e.get("base"), doc) in out:
                                out.append(n)
                                changed = True
        return out

    def result(self):
        elements = {}
        for q in self.comp["element"]:
            elements[q] = self.global_decl(q)
        # every named complex type is a possible xsi:type
        for q in self.comp["complexType"]:
            self.type_ref(q)
        for t in list(self.types):
            if t["name"] is not None:
                t["derived"] = [[d, self.type_ref(d)] for d in self.derived_of(t["name"])]
        return {"types": self.types, "elements": elements}


def read_schema(sources, entry="main.xsd"):
    return Reader(sources, entry).result()
