"""Printing Python values as Gallina terms (shared by tools/ and harness/)."""


def cN(n: int) -> str:
    assert n >= 0
    return f"{n}%N"


def cnat(n: int) -> str:
    assert 0 <= n < 5000, n
    return f"{n}%nat"


def cZ(z: int) -> str:
    return f"({z})%Z"


def cbool(b) -> str:
    return "true" if b else "false"


def cstr(s: str) -> str:
    """Python str -> list N of code points."""
    if not s:
        return "(@nil N)"
    return "[" + ";".join(str(ord(c)) for c in s) + "]%N"


def cbytes(b: bytes) -> str:
    if not b:
        return "(@nil N)"
    return "[" + ";".join(str(x) for x in b) + "]%N"


def copt(x, pr) -> str:
    return "None" if x is None else f"(Some {pr(x)})"


def clist(xs, pr, ty=None) -> str:
    xs = list(xs)
    if not xs:
        return f"(@nil {ty})" if ty else "[]"
    return "[" + "; ".join(pr(x) for x in xs) + "]"


def cpair(a, b) -> str:
    return f"({a}, {b})"


def cfloat_hex(x: float) -> str:
    """binary64 -> PrimFloat literal (exact, via hex)."""
    import math

    if math.isnan(x):
        return "nan%float"
    if math.isinf(x):
        return "infinity%float" if x > 0 else "neg_infinity%float"
    h = x.hex()  # e.g. -0x1.8000000000000p+1
    neg = h.startswith("-")
    h = h.lstrip("-")
    mant, exp = h.split("p")
    if "." in mant:
        mant = mant.rstrip("0").rstrip(".")
    lit = f"{mant}p{int(exp):+d}"
    return f"(-{lit})%float" if neg else f"({lit})%float"


def write_if_changed(path: str, text: str) -> bool:
    import os

    try:
        with open(path, encoding="utf-8") as f:
            if f.read() == text:
                return False
    except FileNotFoundError:
        pass
    os.makedirs(os.path.dirname(path), exist_ok=True)
    tmp = path + ".tmp"
    with open(tmp, "w", encoding="utf-8") as f:
        f.write(text)
    os.replace(tmp, path)
    return True
