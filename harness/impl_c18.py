"""C18: runs xsdata's PycodeSerializer on generated binding models (JSON stdin -> JSON stdout).

Input:  {"batches": [{"pkg": name, "modules": {dotted: source}, "cases": [recipe, ...]}, ...]}
Output: [{"world": [class descriptions by introspection], "cases": [result, ...]}, ...]

The generated modules are written to a temporary package directory outside /repo and
/verif, imported, and the directory is removed afterwards.  Everything the check
compares is obtained from the *real* objects by introspection: the class table
(dataclasses.fields through xsdata's own ClassType), the instance, the rendered text,
CPython's parse of that text, and the object `exec` binds in a fresh namespace.
"""
import ast
import dataclasses
import datetime
import enum
import importlib
import json
import math
import os
import shutil
import struct
import sys
import tempfile
import warnings
from decimal import Decimal
from xml.etree.ElementTree import QName

from xsdata.formats.dataclass.compat import class_types
from xsdata.formats.dataclass.models.generics import AnyElement, DerivedElement
from xsdata.formats.dataclass.serializers.code import PycodeSerializer
from xsdata.models.datatype import (XmlBase64Binary, XmlDate, XmlDateTime, XmlDuration, XmlHexBinary, XmlPeriod,
                                    XmlTime)

warnings.simplefilter("ignore")
CT = class_types.get_type("dataclasses")
UNSET = object()
NAN_BITS = 0x7FF8000000000000


def cps(s):
    return [ord(c) for c in s]


def fbits(x):
    if math.isnan(x):
        return NAN_BITS
    return struct.unpack("<Q", struct.pack("<d", x))[0]


def cref(cls):
    return [cls.__module__, cls.__qualname__.split(".")]


class Undescribable(Exception):
    pass


def to_spec(o):
    """Describe a Python object at the observation level of Spec/PyEval.v."""
    t = type(o)
    if o is None:
        return {"t": "none"}
    if isinstance(o, enum.Enum):
        # an Enum member first — also when it is an int/str/float/bytes at the same time (IntEnum,
        # IntFlag, StrEnum, (str, Enum), ...): repr_object tests isinstance(obj, Enum) before it falls
        # back to literal_value, and the model's VEnum case mirrors exactly that order
        if o.name is None or t.__members__.get(o.name) is not o:
            # a value of a Flag class that is not a named member: P.R | P.W, P(0)
            if not isinstance(o, enum.Flag) or type(o.value) is not int:
                raise Undescribable("unnamed enum value that is not an int flag")
            return {"t": "flag", "c": cref(t), "v": str(o.value)}
        return {"t": "enum", "c": cref(t), "m": o.name}
    if t is bool:
        return {"t": "bool", "v": o}
    if t is int:
        return {"t": "int", "v": str(o)}
    if t is float:
        return {"t": "float", "v": str(fbits(o))}
    if t is str:
        return {"t": "str", "v": cps(o)}
    if t is bytes:
        return {"t": "bytes", "k": "plain", "v": list(o)}
    if t is XmlHexBinary:
        return {"t": "bytes", "k": "hex", "v": list(o)}
    if t is XmlBase64Binary:
        return {"t": "bytes", "k": "b64", "v": list(o)}
    if t is Decimal:
        return {"t": "dec", "v": cps(str(o))}
    if t is QName:
        if type(o.text) is not str:
            raise Undescribable("QName text")
        return {"t": "qname", "v": cps(o.text)}
    if t is XmlDate:
        return {"t": "xml", "k": "date", "args": [str(o.year), str(o.month), str(o.day)],
                "off": None if o.offset is None else str(o.offset)}
    if t is XmlTime:
        return {"t": "xml", "k": "time", "args": [str(o.hour), str(o.minute), str(o.second), str(o.fractional_second)],
                "off": None if o.offset is None else str(o.offset)}
    if t is XmlDateTime:
        return {"t": "xml", "k": "datetime",
                "args": [str(x) for x in (o.year, o.month, o.day, o.hour, o.minute, o.second, o.fractional_second)],
                "off": None if o.offset is None else str(o.offset)}
    if t is datetime.date:
        return {"t": "std", "k": "date", "args": [str(o.year), str(o.month), str(o.day)]}
    if t is datetime.time or t is datetime.datetime:
        if o.tzinfo is not None or o.fold:
            raise Undescribable("aware / folded datetime")
        if t is datetime.time:
            return {"t": "std", "k": "time", "args": [str(x) for x in (o.hour, o.minute, o.second, o.microsecond)]}
        return {"t": "std", "k": "datetime",
                "args": [str(x) for x in (o.year, o.month, o.day, o.hour, o.minute, o.second, o.microsecond)]}
    if t is XmlDuration:
        return {"t": "dur", "v": cps(o.data)}
    if t is XmlPeriod:
        return {"t": "period", "v": cps(o.data)}
    if t is list:
        return {"t": "list", "v": [to_spec(x) for x in o]}
    if t is tuple:
        return {"t": "tuple", "v": [to_spec(x) for x in o]}
    if t is set or t is frozenset:
        return {"t": "set", "frozen": t is frozenset, "v": [to_spec(x) for x in o]}
    if t is dict:
        return {"t": "dict", "v": [[to_spec(k), to_spec(v)] for k, v in o.items()]}
    if dataclasses.is_dataclass(o) and not isinstance(o, type):
        return {"t": "obj", "c": cref(t), "f": [[f.name, to_spec(getattr(o, f.name))] for f in dataclasses.fields(o)]}
    raise Undescribable(repr(t))


def describe_class(cls):
    if isinstance(cls, type) and issubclass(cls, enum.Enum):
        names = list(cls.__members__)
        flags = None
        if issubclass(cls, enum.Flag):
            flags = [cls.__members__[n].value for n in names]
            if not all(type(v) is int for v in flags):
                raise Undescribable("Flag class with non-int values")
            flags = [str(v) for v in flags]
        return {"c": cref(cls), "kind": "enum", "members": names, "flags": flags}
    fds = []
    for f in CT.get_fields(cls):
        d = CT.default_value(f, default=UNSET)
        if d is UNSET:
            dd = None
        elif callable(d):
            dd = {"factory": to_spec(d())}
        else:
            dd = {"value": to_spec(d)}
        fds.append({"name": f.name, "init": bool(f.init), "default": dd})
    return {"c": cref(cls), "kind": "data", "frozen": bool(cls.__dataclass_params__.frozen), "fields": fds}


def classes_of(ns):
    """All dataclasses / enums defined in a namespace, inner ones included."""
    out = []
    for v in ns.values():
        if isinstance(v, type) and (dataclasses.is_dataclass(v) or issubclass(v, enum.Enum)) and v is not enum.Enum:
            out.append(v)
            out.extend(classes_of(vars(v)))
    return out


# ------------------------------------------------------------------ building instances
def lookup_class(c):
    mod = importlib.import_module(c[0])
    o = mod
    for part in c[1]:
        o = getattr(o, part)
    return o


def ffrom(bits):
    return struct.unpack("<d", struct.pack("<Q", int(bits)))[0]


def sfrom(cp):
    return "".join(chr(c) for c in cp)


def build(r):
    t = r["t"]
    if t == "none":
        return None
    if t == "bool":
        return bool(r["v"])
    if t == "int":
        return int(r["v"])
    if t == "float":
        return ffrom(r["v"])
    if t == "str":
        return sfrom(r["v"])
    if t == "bytes":
        b = bytes(r["v"])
        return {"plain": bytes, "hex": XmlHexBinary, "b64": XmlBase64Binary}[r["k"]](b)
    if t == "dec":
        return Decimal(sfrom(r["v"]))
    if t == "qname":
        return QName(sfrom(r["v"]))
    if t == "xml":
        args = [int(x) for x in r["args"]] + ([] if r["off"] is None else [int(r["off"])])
        return {"date": XmlDate, "time": XmlTime, "datetime": XmlDateTime}[r["k"]](*args)
    if t == "std":
        return {"date": datetime.date, "time": datetime.time, "datetime": datetime.datetime}[r["k"]](
            *[int(x) for x in r["args"]])
    if t == "dur":
        return XmlDuration(sfrom(r["v"]))
    if t == "period":
        return XmlPeriod(sfrom(r["v"]))
    if t == "enum":
        return lookup_class(r["c"])[r["m"]]
    if t == "flag":
        return lookup_class(r["c"])(int(r["v"]))
    if t == "list":
        return [build(x) for x in r["v"]]
    if t == "tuple":
        return tuple(build(x) for x in r["v"])
    if t == "set":
        return (frozenset if r["frozen"] else set)(build(x) for x in r["v"])
    if t == "dict":
        return {build(k): build(v) for k, v in r["v"]}
    if t == "obj":
        cls = lookup_class(r["c"])
        o = cls(**{k: build(v) for k, v in r["kw"]})
        for k, v in r.get("set", []):
            object.__setattr__(o, k, build(v))
        return o
    raise KeyError(t)


# ------------------------------------------------------------------ NaN-tolerant ==
def same(a, b):
    """Python's == made NaN-tolerant (the equality the property speaks about)."""
    if type(a) is float and type(b) is float and math.isnan(a) and math.isnan(b):
        return True
    if type(a) is Decimal and type(b) is Decimal and a.is_nan() and b.is_nan():
        return True
    if isinstance(a, enum.Enum) and isinstance(b, enum.Enum) and type(a) is not type(b):
        # class-strict for enum members, as for dataclass instances and list/tuple: members of two
        # different IntFlag/IntEnum/StrEnum classes are == in Python when their values are, but a member
        # of another class (import-name collision) is not the original
        return False
    if isinstance(a, (list, tuple)) and type(a) is type(b):
        return len(a) == len(b) and all(same(x, y) for x, y in zip(a, b))
    if type(a) is dict and type(b) is dict:
        if len(a) != len(b):
            return False
        for (k, v), (k2, v2) in zip(a.items(), b.items()):
            if not (same(k, k2) and same(v, v2)):
                # order-insensitive fallback = Python's dict ==
                return all(k in b and same(v, b[k]) for k, v in a.items())
        return True
    if dataclasses.is_dataclass(a) and not isinstance(a, type):
        if type(a) is not type(b):
            return False
        return all(same(getattr(a, f.name), getattr(b, f.name)) for f in dataclasses.fields(a) if f.compare)
    try:
        return bool(a == b)
    except Exception:
        return False


# ------------------------------------------------------------------ CPython's reading of the text
def path_of(node):
    if isinstance(node, ast.Name):
        return [node.id]
    if isinstance(node, ast.Attribute):
        p = path_of(node.value)
        return None if p is None else p + [node.attr]
    return None


def expr_json(n):
    if isinstance(n, ast.Constant):
        v = n.value
        if v is None:
            return {"e": "none"}
        if v is True or v is False:
            return {"e": "bool", "v": v}
        if type(v) is int:
            return {"e": "int", "v": str(v)}
        if type(v) is float:
            return {"e": "float", "v": str(fbits(v))}
        if type(v) is str:
            return {"e": "str", "v": cps(v)}
        if type(v) is bytes:
            return {"e": "bytes", "v": list(v)}
        return {"e": "other", "v": ast.dump(n)}
    if isinstance(n, ast.UnaryOp) and isinstance(n.op, ast.USub) and isinstance(n.operand, ast.Constant):
        v = n.operand.value
        if type(v) is int:
            return {"e": "int", "v": str(-v)}
        if type(v) is float:
            return {"e": "float", "v": str(fbits(-v))}
    if isinstance(n, (ast.Name, ast.Attribute)):
        p = path_of(n)
        if p is not None:
            return {"e": "name", "p": p}
    if isinstance(n, ast.Call):
        p = path_of(n.func)
        if p is not None and all(k.arg is not None for k in n.keywords) and not any(
                isinstance(a, ast.Starred) for a in n.args):
            return {"e": "call", "f": p, "args": [expr_json(a) for a in n.args],
                    "kws": [[k.arg, expr_json(k.value)] for k in n.keywords]}
    if isinstance(n, ast.List):
        return {"e": "list", "v": [expr_json(x) for x in n.elts]}
    if isinstance(n, ast.Tuple):
        return {"e": "tuple", "v": [expr_json(x) for x in n.elts]}
    if isinstance(n, ast.Set):
        return {"e": "set", "v": [expr_json(x) for x in n.elts]}
    if isinstance(n, ast.Dict) and all(k is not None for k in n.keys):
        return {"e": "dict", "v": [[expr_json(k), expr_json(v)] for k, v in zip(n.keys, n.values)]}
    return {"e": "other", "v": ast.dump(n)[:200]}


def read_text(text, var):
    """-> (imports, expr) or (None, None) when the text is not of the expected shape."""
    try:
        mod = ast.parse(text)
    except (SyntaxError, ValueError, UnicodeError):
        return None, None
    imports = []
    body = list(mod.body)
    while body and isinstance(body[0], (ast.ImportFrom, ast.Import)):
        n = body.pop(0)
        if len(n.names) != 1 or n.names[0].asname is not None:
            return None, None
        if isinstance(n, ast.Import):
            if "." in n.names[0].name:
                return None, None
            imports.append([n.names[0].name, None])       # import m
        elif n.level != 0:
            return None, None
        else:
            imports.append([n.module, n.names[0].name])   # from m import n
    if len(body) != 1 or not isinstance(body[0], ast.Assign) or len(body[0].targets) != 1:
        return None, None
    tgt = body[0].targets[0]
    if not isinstance(tgt, ast.Name) or tgt.id != var:
        return None, None
    return imports, expr_json(body[0].value)


def import_lines_textual(text):
    """The import lines as they are written, even if the rest does not parse."""
    out = []
    for line in text.split("\n"):
        if line.startswith("from ") and " import " in line:
            m, n = line[5:].split(" import ", 1)
            out.append([m, n])
        elif line.startswith("import "):
            out.append([line[7:], None])
        else:
            break
    return out


# ------------------------------------------------------------------ one case
def run_case(recipe, var="obj"):
    res = {}
    try:
        o = build(recipe)
    except Exception as e:  # the generator asked for an object that cannot exist
        return {"build_exc": f"{type(e).__name__}: {e}"}
    try:
        res["spec"] = to_spec(o)
    except Undescribable as e:
        return {"build_exc": f"undescribable: {e}"}
    try:
        text = PycodeSerializer().render(o, var_name=var)
    except Exception as e:
        res["render_exc"] = f"{type(e).__name__}: {e}"
        return res
    res["text"] = [ord(c) for c in text]
    imports, expr = read_text(text, var)
    res["imports"] = imports if imports is not None else import_lines_textual(text)
    res["expr"] = expr
    ns = {}
    try:
        exec(text, ns)
        new = ns[var]
    except BaseException as e:
        res["exec"] = None
        res["exc"] = type(e).__name__
        res["equal"] = False
        return res
    try:
        res["exec"] = to_spec(new)
    except Undescribable as e:
        res["exec"] = None
        res["exc"] = "Undescribable"
        res["equal"] = False
        return res
    res["equal"] = bool(same(new, o))
    return res


def run_batch(batch):
    root = tempfile.mkdtemp(prefix="c18_")
    assert not root.startswith("/repo") and not root.startswith("/verif")
    try:
        mods = batch["modules"]
        dirs = {""}
        for dotted in mods:
            parts = dotted.split(".")
            for i in range(1, len(parts)):
                dirs.add("/".join(parts[:i]))
        for d in sorted(dirs):
            if d:
                os.makedirs(os.path.join(root, d), exist_ok=True)
                with open(os.path.join(root, d, "__init__.py"), "w") as f:
                    f.write("")
        for dotted, src in mods.items():
            with open(os.path.join(root, *dotted.split(".")) + ".py", "w", encoding="utf-8") as f:
                f.write(src)
        sys.path.insert(0, root)
        importlib.invalidate_caches()
        classes = [AnyElement, DerivedElement]
        for dotted in mods:
            m = importlib.import_module(dotted)
            classes += [c for c in classes_of(vars(m)) if c.__module__ == dotted]
        seen, world = set(), []
        for c in classes:
            if id(c) not in seen:
                seen.add(id(c))
                world.append(describe_class(c))
        cases = [run_case(r) for r in batch["cases"]]
        return {"world": world, "cases": cases}
    finally:
        if root in sys.path:
            sys.path.remove(root)
        for name in [n for n in sys.modules if n == batch["pkg"] or n.startswith(batch["pkg"] + ".")]:
            del sys.modules[name]
        shutil.rmtree(root, ignore_errors=True)


def main():
    payload = json.load(sys.stdin)
    json.dump([run_batch(b) for b in payload["batches"]], sys.stdout)


main()
