"""C04 — JSON and dictionary round trip.

Deciding artefact: theorems of coq/Properties/C04.v over Model/DictCodec.v (DictEncoder /
DictDecoder).  Ties and search, every run:
  corr-encode / corr-decode   the model against the REAL DictEncoder / DictDecoder, on the REAL
                              metadata (exported universe) and recorded converter calls
  oracle                      on the implementation: decode(encode(o)) == o (dict factory) /
                              == fill_defaults o (None-filtering factory) for DictEncoder/DictDecoder
                              and JsonSerializer/JsonParser, single and list-of-models documents,
                              json.loads(render(o)) == encode(o), json.dumps(encode(o)) succeeds;
                              equality and the guard clauses are computed in Coq
"""
import concurrent.futures as cf

import genmodels
from c03b import F, chunks, coq_multi, coq_show, gen_models as _unused  # noqa: F401
from common import Check, run_impl, standard_proof_step, TRUSTED_COMMON

IMPORTS = "From XV Require Import Base.Str Base.Eqb Model.Bind Model.EventGen Model.DictCodec Model.DictCodecCorr."
SLICE_MIX = [("F1",), ("F1",), ("F1", "F2"), ("F1", "F2", "F3"), ("F1", "F2", "F3")]
CHECKS = ["agree_json_decode", "in_proved_slice", "theorem_instance", "negb_ambiguous", "agree_encode", "agree_decode", "oracle_roundtrip", "oracle_strict_json", "is_typed", "in_guard",
          "not_class 0", "not_class 1", "not_class 2", "not_class 4", "not_class 7", "not_class 10", "not_class 12", "roundtrip_ok",
          "not_class 98"]
CLASS_NAMES = {"not_class 1": "json-key-collision", "not_class 2": "null-decodes-to-default",
               "not_class 4": "compound-choice-shadowed-in-json", "not_class 10": "best-match-tie",
               "not_class 7": "generic-keys-filtered",
               "not_class 12": "best-match-guess"}


def gen_cases(ck, n_models, per_model):
    r = ck.rng
    models = []
    for _ in range(n_models):
        slices = r.choice(SLICE_MIX)
        desc = genmodels.gen_model(r, slices=slices)
        cases = []
        for _ in range(per_model):
            root = desc["root"] if r.random() < 0.7 else r.choice(desc["classes"])["name"]
            try:
                if r.random() < 0.2:
                    recs = [genmodels.gen_instance(r, desc, root) for _ in range(r.choice([0, 1, 2, 3]))]
                    base = {"recipes": recs, "root": root}
                else:
                    base = {"recipe": genmodels.gen_instance(r, desc, root), "root": root}
            except RecursionError:
                continue
            for fac in ("dict", "filter_none"):
                cases.append(dict(base, factory=fac, ignore=False))
            if r.random() < 0.15:
                cases.append(dict(base, factory=r.choice(["dict", "filter_none"]), ignore=True))
            if "recipe" in base and base["recipe"]["fields"] and r.random() < 0.3:
                # ill-typed stream (correspondence only): a None where a list / map / value is expected
                import copy
                hostile = copy.deepcopy(base)
                n = r.choice(list(hostile["recipe"]["fields"]))
                hostile["recipe"]["fields"][n] = r.choice([None, None, [], {"__p__": "str", "v": "x"}, {"__p__": "int", "v": 3}])
                cases.append(dict(hostile, factory="dict", ignore=False))
        models.append({"desc": desc, "src": genmodels.render_source(desc), "classes": [c["name"] for c in desc["classes"]],
                       "enums": [e["name"] for e in desc["enums"]], "cases": cases})
    return models


SPECIAL_ENUMS = HEADER_SPECIAL = """from dataclasses import dataclass, field
from decimal import Decimal
from enum import Enum
from typing import Optional, Union
from xml.etree.ElementTree import QName
from xsdata.models.datatype import XmlDate, XmlDateTime, XmlDuration, XmlPeriod, XmlTime

class ED(Enum):
    A = Decimal("1.5")
    B = Decimal("-20")

class EQ(Enum):
    A = QName("{urn:a}x")
    B = QName("y")

class EX(Enum):
    A = XmlDate(2001, 2, 28)
    B = XmlDate(1999, 12, 31)

class EF(Enum):
    A = 1.5
    B = -0.25

@dataclass
class R:
    class Meta:
        namespace = "urn:r"
    d: Optional[ED] = field(default=None, metadata={"type": "Element"})
    q: list[EQ] = field(default_factory=list, metadata={"type": "Element"})
    x: Optional[EX] = field(default=None, metadata={"type": "Attribute"})
    t: list[ED] = field(default_factory=list, metadata={"type": "Element", "tokens": True})
    f: Optional[EF] = field(default=None, metadata={"type": "Element"})
"""


SPECIAL_TUPLES = """from dataclasses import dataclass, field
from decimal import Decimal
from typing import Optional
from xsdata.models.datatype import XmlDate

@dataclass(frozen=True)
class K:
    v: Optional[Decimal] = field(default=None, metadata={"type": "Text"})
    n: tuple[int, ...] = field(default_factory=tuple, metadata={"type": "Attribute", "tokens": True})

@dataclass(frozen=True)
class T:
    class Meta:
        namespace = "urn:t"
    a: tuple[int, ...] = field(default_factory=tuple, metadata={"type": "Element"})
    s: tuple[str, ...] = field(default_factory=tuple, metadata={"type": "Element"})
    d: tuple[XmlDate, ...] = field(default_factory=tuple, metadata={"type": "Element", "tokens": True})
    kids: tuple[K, ...] = field(default_factory=tuple, metadata={"type": "Element", "name": "kid"})
    g: tuple[tuple[int, ...], ...] = field(default_factory=tuple, metadata={"type": "Element", "tokens": True})
    one: Optional[K] = field(default=None, metadata={"type": "Element"})

@dataclass
class L:
    a: list[int] = field(default_factory=list, metadata={"type": "Element"})
    t: tuple[str, ...] = field(default_factory=tuple, metadata={"type": "Element"})
"""


def tuple_models(r):
    """immutable models: repeating fields typed tuple[T, ...] (factory = tuple).  JSON text gives arrays,
    JsonParser has to rebuild tuples through var.factory / var.tokens_factory."""
    P = lambda t, v: {"__p__": t, "v": v}   # noqa: E731
    TU = lambda xs: {"__tuple__": xs}       # noqa: E731
    cases = []
    for _ in range(5):
        ints = lambda: TU([P("int", r.randint(-5, 99)) for _ in range(r.choice([0, 1, 2, 3]))])   # noqa: E731
        kid = lambda: {"__cls__": "K", "fields": {"v": r.choice([None, P("Decimal", "1.50")]), "n": ints()}}   # noqa: E731
        rec = {"__cls__": "T", "fields": {
            "a": ints(), "s": TU([P("str", r.choice(["x", "", "a b"])) for _ in range(r.choice([0, 1, 2]))]),
            "d": TU([P("XmlDate", "2001-02-28") for _ in range(r.choice([0, 1, 2]))]),
            "kids": TU([kid() for _ in range(r.choice([0, 1, 2]))]),
            "g": TU([ints() for _ in range(r.choice([0, 1, 2]))]), "one": r.choice([None, kid()])}}
        rec2 = {"__cls__": "L", "fields": {"a": [P("int", 1)] * r.choice([0, 1, 2]), "t": TU([P("str", "q")] * r.choice([0, 1, 2]))}}
        for fac in ("dict", "filter_none"):
            cases.append({"recipe": rec, "root": "T", "factory": fac, "ignore": False})
            cases.append({"recipe": rec2, "root": "L", "factory": fac, "ignore": False})
    desc = {"slices": ["special-tuples"], "classes": [{"name": "K"}, {"name": "T"}, {"name": "L"}], "enums": []}
    return [{"desc": desc, "src": SPECIAL_TUPLES, "classes": ["K", "T", "L"], "enums": [], "cases": cases}]


def special_models(r):
    """hand-written models the description language of genmodels cannot express"""
    E = lambda e, m: {"__p__": "enum", "enum": e, "member": m}   # noqa: E731
    cases = []
    for _ in range(4):
        rec = {"__cls__": "R", "fields": {
            "d": r.choice([None, E("ED", "A"), E("ED", "B")]), "q": [E("EQ", r.choice("AB")) for _ in range(r.choice([0, 1, 2]))],
            "x": r.choice([None, E("EX", "A"), E("EX", "B")]), "t": [E("ED", r.choice("AB")) for _ in range(r.choice([0, 1, 3]))],
            "f": r.choice([None, E("EF", "A"), E("EF", "B")])}}
        for fac in ("dict", "filter_none"):
            cases.append({"recipe": rec, "root": "R", "factory": fac, "ignore": False})
    desc = {"slices": ["special-enums"], "classes": [{"name": "R"}], "enums": []}
    return [{"desc": desc, "src": SPECIAL_ENUMS, "classes": ["R"], "enums": ["ED", "EQ", "EX", "EF"], "cases": cases}]


STRICT_TYPES = [("int", lambda r: r.choice(["5", "-17", "0"])), ("float", lambda r: r.choice(["1.5", "2e3"])),
                ("bool", lambda r: r.choice(["true", "false"])), ("XmlDate", lambda r: "2001-02-28")]


def best_match_models(r, n):
    """sibling classes with the same field names: one with strict primitive types, one with str;
    the decoder has to guess the class from the keys and values (bind_best_dataclass)"""
    out = []
    for _ in range(n):
        nf = r.randint(2, 3)
        kinds = [r.choice(STRICT_TYPES) for _ in range(nf)]
        a = {"name": "A", "meta": {}, "base": None,
             "fields": [F(f"k{i}", "Element", ("prim", kinds[i][0]), optional=True) for i in range(nf)]}
        b = {"name": "B", "meta": {}, "base": None,
             "fields": [F(f"k{i}", "Element", ("prim", "str"), optional=True) for i in range(nf)]}
        style = r.choice(["compound", "compound-scalar"])
        root = {"name": "R", "meta": {}, "base": None, "fields": [
            {"name": "item", "kind": "Elements", "list": style == "compound",
             "choices": [{"name": "a", "type": ("class", "A")}, {"name": "b", "type": ("class", "B")}]}]}
        if r.random() < 0.5:
            root["fields"][0]["choices"].reverse()
        desc = {"module_ns": None, "enums": [], "root": "R", "slices": ["best-match"], "classes": [root, a, b]}
        cases = []
        for _ in range(3):
            def inst():
                if r.random() < 0.4:
                    return {"__cls__": "A", "fields": {f"k{i}": {"__p__": kinds[i][0], "v": _val(kinds[i][0], kinds[i][1](r))} for i in range(nf)}}
                # a B whose values are a mix of texts the strict sibling accepts and texts it does not
                vals = {}
                bad = r.randrange(nf)
                for i in range(nf):
                    vals[f"k{i}"] = {"__p__": "str", "v": "n/a" if i == bad else kinds[i][1](r)}
                return {"__cls__": "B", "fields": vals}
            item = [inst() for _ in range(r.choice([1, 2, 3]))] if style == "compound" else inst()
            rec = {"__cls__": "R", "fields": {"item": item}}
            for fac in ("dict", "filter_none"):
                cases.append({"recipe": rec, "root": "R", "factory": fac, "ignore": False})
        out.append({"desc": desc, "src": genmodels.render_source(desc), "classes": ["R", "A", "B"], "enums": [], "cases": cases})
    return out


def derived_models(r, n):
    """DerivedElement values (with their real `type`) in fields typed with a BASE class whose sibling
    subclasses have overlapping key sets: the decoder must follow `type`, not guess by score."""
    out = []
    for _ in range(n):
        mns = r.choice([None, None, "urn:m"])
        node = {"name": "Node", "meta": {}, "base": None, "fields": [F("id", "Attribute", ("prim", "str"), optional=True)]}
        label = {"name": "Label", "meta": {}, "base": "Node", "fields": [F("text", "Element", ("prim", "str"), optional=True)]}
        counter = {"name": "Counter", "meta": {}, "base": "Node", "fields": [F("text", "Element", ("prim", "int"), optional=True)]}
        wide = {"name": "Wide", "meta": {}, "base": "Node", "fields": [F("text", "Element", ("prim", "str"), optional=True),
                                                                      F("extra", "Element", ("prim", "float"), optional=True)]}
        subs = [label, counter, wide]
        r.shuffle(subs)
        holder = {"name": "Holder", "meta": r.choice([{}, {"namespace": "urn:h"}]), "base": None,
                  "fields": [F("one", "Element", ("class", "Node"), optional=True), F("many", "Element", ("class", "Node"), list=True)]}
        desc = {"module_ns": mns, "enums": [], "root": "Holder", "slices": ["derived"], "classes": [holder, node] + subs}
        tq = lambda cn: ("{%s}%s" % (mns, cn)) if mns else cn   # noqa: E731

        def val(cn):
            if cn == "Label":
                fs = {"id": r.choice([None, {"__p__": "str", "v": "i"}]), "text": {"__p__": "str", "v": r.choice(["42", "abc", "7", "1.5"])}}
            elif cn == "Counter":
                fs = {"id": None, "text": {"__p__": "int", "v": r.randint(0, 99)}}
            else:
                fs = {"id": None, "text": {"__p__": "str", "v": r.choice(["42", "w"])}, "extra": r.choice([None, {"__p__": "float", "v": "1.5"}])}
            return {"__cls__": cn, "fields": fs}

        def der(q, cn):
            return {"__derived__": {"qname": q, "value": val(cn), "type": tq(cn)}}
        cases = []
        for _ in range(4):
            rec = {"__cls__": "Holder", "fields": {
                "one": r.choice([None, der("one", r.choice(["Label", "Counter", "Wide"])), der("one", "Label")]),
                "many": [der("many", r.choice(["Label", "Counter", "Wide"])) for _ in range(r.choice([0, 1, 2, 3]))]}}
            for fac in ("dict", "filter_none"):
                cases.append({"recipe": rec, "root": "Holder", "factory": fac, "ignore": False})
        out.append({"desc": desc, "src": genmodels.render_source(desc), "classes": [c["name"] for c in desc["classes"]], "enums": [], "cases": cases})
    return out


def allnone_models(r, n):
    """instances whose fields are all None, and instances of field-less classes, under compound / base-typed
    fields where exactly one candidate class fits the keys: it binds with score 0 and must be selected."""
    out = []
    for _ in range(n):
        style = r.choice(["compound", "base", "empty"])
        if style == "compound":
            a = {"name": "A", "meta": {}, "base": None, "fields": [F("k0", "Element", ("prim", "int"), optional=True), F("k1", "Element", ("prim", "str"), optional=True)]}
            b = {"name": "B", "meta": {}, "base": None, "fields": [F("m0", "Element", ("prim", "str"), optional=True)]}
            lst = r.random() < 0.5
            root = {"name": "R", "meta": {}, "base": None, "fields": [{"name": "item", "kind": "Elements", "list": lst,
                    "choices": [{"name": "a", "type": ("class", "A")}, {"name": "b", "type": ("class", "B")}]}]}
            classes = [root, a, b]
            mk = lambda: r.choice([{"__cls__": "A", "fields": {"k0": None, "k1": None}}, {"__cls__": "B", "fields": {"m0": None}},   # noqa: E731
                                   {"__cls__": "A", "fields": {"k0": {"__p__": "int", "v": 0}, "k1": None}}])
            val = [mk() for _ in range(r.choice([1, 2]))] if lst else mk()
            rec = {"__cls__": "R", "fields": {"item": val}}
        elif style == "base":
            nn = {"name": "N", "meta": {}, "base": None, "fields": [F("x", "Element", ("prim", "str"), optional=True)]}
            ss = {"name": "S", "meta": {}, "base": "N", "fields": [F("y", "Element", ("prim", "int"), optional=True)]}
            root = {"name": "R", "meta": {}, "base": None, "fields": [F("f", "Element", ("class", "N"), optional=True), F("g", "Element", ("class", "N"), list=True)]}
            classes = [root, nn, ss]
            sv = {"__cls__": "S", "fields": {"x": None, "y": None}}
            rec = {"__cls__": "R", "fields": {"f": sv, "g": [sv] * r.choice([0, 1, 2])}}
        else:
            e = {"name": "E", "meta": {}, "base": None, "fields": []}
            root = {"name": "R", "meta": {}, "base": None, "fields": [{"name": "v", "kind": "Elements", "list": True,
                    "choices": [{"name": "e", "type": ("class", "E")}, {"name": "i", "type": ("prim", "int")}]}]}
            classes = [root, e]
            rec = {"__cls__": "R", "fields": {"v": [r.choice([{"__cls__": "E", "fields": {}}, {"__p__": "int", "v": 3}]) for _ in range(r.choice([1, 2, 3]))]}}
        desc = {"module_ns": None, "enums": [], "root": "R", "slices": ["all-none"], "classes": classes}
        cases = [{"recipe": rec, "root": "R", "factory": fac, "ignore": False} for fac in ("dict", "filter_none")]
        out.append({"desc": desc, "src": genmodels.render_source(desc), "classes": [c["name"] for c in classes], "enums": [], "cases": cases})
    return out


def prim_choice_cases(r, n):
    """the compound-over-primitives models of the C03b check, encode -> decode and through JSON text"""
    import c03b
    out = []
    for m in c03b.prim_choice_models(r, n):
        cases = []
        for c in m["cases"]:
            for fac in ("dict", "filter_none"):
                cases.append({"recipe": c["recipe"], "root": "P", "factory": fac, "ignore": False})
        out.append(dict(m, cases=cases))
    return out


def _val(tp, text):
    if tp == "int":
        return int(text)
    if tp == "bool":
        return text == "true"
    return text


def witness_models():
    """(finding class, description, instance recipe, factory)"""
    out = []
    P = lambda t, v: {"__p__": t, "v": v}   # noqa: E731
    one = lambda name, fields, meta=None, base=None: {"name": name, "meta": meta or {}, "base": base, "fields": fields}  # noqa: E731
    mk = lambda classes: {"module_ns": None, "enums": [], "root": classes[0]["name"], "slices": ["F1"], "classes": classes}  # noqa: E731
    # 1. an attribute and an element with the same local name share one JSON key
    d = mk([one("K", [F("a", "Attribute", ("prim", "str"), optional=True, xml_name="id"),
                      F("b", "Element", ("prim", "str"), optional=True, xml_name="id")])])
    out.append(("json-key-collision", d, {"__cls__": "K", "fields": {"a": P("str", "x"), "b": P("str", "y")}}, "dict"))
    # 2. null decodes to the field default
    d = mk([one("N", [F("d", "Attribute", ("prim", "int"), default=7, optional=False)])])
    out.append(("null-decodes-to-default", d, {"__cls__": "N", "fields": {"d": None}}, "dict"))
    # 3. a base-class instance where a subclass also fits: equal scores, set order decides
    d = mk([one("Q", [F("b", "Element", ("class", "B"), optional=True)]),
            one("B", [F("x", "Element", ("prim", "str"), optional=True)]),
            one("S", [F("y", "Element", ("prim", "int"), optional=True)], base="B")])
    out.append(("best-match-tie", d, {"__cls__": "Q", "fields": {"b": {"__cls__": "B", "fields": {"x": P("str", "v")}}}}, "filter_none"))
    # 4. compound field: str choice before XmlDate choice
    d = mk([one("E", [{"name": "v", "kind": "Elements", "list": True,
                       "choices": [{"name": "s", "type": ("prim", "str")}, {"name": "d", "type": ("prim", "XmlDate")}]}])])
    out.append(("compound-choice-shadowed-in-json", d, {"__cls__": "E", "fields": {"v": [P("XmlDate", "2001-02-28")]}}, "dict"))
    # 5. a class with a wrapper field where the decoder guesses the class from the keys
    d = mk([one("P", [F("w", "Element", ("class", "W"), optional=True)]),
            one("W", [F("items", "Element", ("prim", "str"), list=True, wrapper="wrap", xml_name="it")]),
            one("W2", [F("extra", "Element", ("prim", "int"), optional=True)], base="W")])
    out.append(("fixed:wrapper-under-best-match", d,
                {"__cls__": "P", "fields": {"w": {"__cls__": "W2", "fields": {"items": [P("str", "a")], "extra": P("int", 1)}}}}, "dict"))
    # 6. filter_none drops the None-valued keys of an AnyElement dictionary: no longer recognised
    d = mk([one("A", [{"name": "w", "kind": "Wildcard", "list": False, "namespace": "##any"}])])
    out.append(("generic-keys-filtered", d,
                {"__cls__": "A", "fields": {"w": {"__any__": {"qname": "k", "text": "t", "tail": None, "attributes": {}, "children": []}}}},
                "filter_none"))
    # 7. sibling classes with the same keys: the class is guessed from the values
    d = mk([one("R", [{"name": "item", "kind": "Elements", "list": False,
                       "choices": [{"name": "a", "type": ("class", "A")}, {"name": "b", "type": ("class", "B")}]}]),
            one("A", [F("k0", "Element", ("prim", "int"), optional=True), F("k1", "Element", ("prim", "int"), optional=True)]),
            one("B", [F("k0", "Element", ("prim", "str"), optional=True), F("k1", "Element", ("prim", "str"), optional=True)])])
    out.append(("best-match-guess", d,
                {"__cls__": "R", "fields": {"item": {"__cls__": "B", "fields": {"k0": P("str", "5"), "k1": P("str", "7")}}}}, "dict"))
    return out


def evaluate(models, res, tag=None):
    import os
    tag = tag or f"c04_{os.getpid()}"    # concurrent runs must not share case files
    mids = [i for i, m in enumerate(res["models"]) if m["universe"]]
    parts = chunks(mids, 16)

    def one(gi_part):
        gi, part = gi_part
        defs, cases, idx = [], [], []
        for mi in part:
            rm = res["models"][mi]
            defs.append(f"Definition u_{mi} : universe := {rm['universe']}.")
            defs.append(f"Definition g_{mi} : generics := {rm['generics']}.")
            for ci, c in enumerate(rm["cases"]):
                if c.get("skip") or not c.get("case"):
                    continue
                cases.append(f"(u_{mi}, {c['case'].replace('mk_dc_case G ', f'mk_dc_case g_{mi} ', 1)})")
                idx.append((mi, ci))
        out = coq_multi(f"{tag}_{gi}", IMPORTS, "\n".join(defs), [("universe * dc_case", cases, CHECKS)])
        return idx, out[0]

    verdict = {k: [] for k in CHECKS}
    n = 0
    with cf.ThreadPoolExecutor(max_workers=16) as ex:
        for idx, out in ex.map(one, enumerate(parts)):
            n += len(idx)
            for name, bad in zip(CHECKS, out):
                verdict[name] += [idx[i] for i in bad]
    return n, verdict


def describe(models, res, mi, ci, tag, with_model=True):
    rm, c = res["models"][mi], res["models"][mi]["cases"][ci]
    rep = {"src": models[mi]["src"], "case": models[mi]["cases"][ci], "impl": {k: c.get(k) for k in ("enc", "enc_error", "dec_error", "jdec_error", "json_error", "dumps_error")}}
    term = c["case"].replace("mk_dc_case G ", "mk_dc_case g0 ", 1)
    defs = f"Definition u0 : universe := {rm['universe']}.\nDefinition g0 : generics := {rm['generics']}.\nDefinition k0 : dc_case := {term}."
    rep["coq_defs"] = defs
    if with_model:
        rep["model_encode"] = coq_show(tag + "e", "model_encode u0 k0", defs).replace("From XV", "")[:3000]
        rep["impl_encode"] = coq_show(tag + "f", "dc_encoded k0", defs)[:3000]
        rep["model_decode"] = coq_show(tag + "d", "match dc_encoded k0 with Ok j => model_decode u0 k0 j | Err e => Err e end", defs)[:3000]
        rep["impl_decode"] = coq_show(tag + "g", "(dc_decoded k0, dc_json_decoded k0, dc_json_same_tree k0, dc_dumps_ok k0)", defs)[:3000]
        rep["clauses_failing"] = coq_show(tag + "c", "(clauses_failing (u0, k0), failure_class (u0, k0))", defs)
    return rep


def run(ck: Check):
    obligations, discharged, axioms = standard_proof_step(ck, extra_targets=["Model/DictCodecCorr.vo"])
    import c03b
    c03b.IMPORTS_SAVED = c03b.IMPORTS
    n_models = ck.n(110, 2500)
    per_model = ck.n(3, 5)
    wit = witness_models()
    models = []
    for cls, desc, rec, fac in wit:
        models.append({"desc": desc, "src": genmodels.render_source(desc), "classes": [c["name"] for c in desc["classes"]],
                       "enums": [], "cases": [{"recipe": rec, "root": desc["root"], "factory": fac, "ignore": False}], "witness": cls})
    models += special_models(ck.rng) + tuple_models(ck.rng) + best_match_models(ck.rng, ck.n(12, 200))
    models += derived_models(ck.rng, ck.n(12, 200)) + allnone_models(ck.rng, ck.n(18, 300)) + prim_choice_cases(ck.rng, ck.n(20, 300))
    models += gen_cases(ck, n_models, per_model)
    res = run_impl("impl_c04.py", {"models": [{k: m[k] for k in ("src", "classes", "enums", "cases")} for m in models]}, timeout=1500)
    unsupported = [(i, m["unsupported"]) for i, m in enumerate(res["models"]) if m["unsupported"]]
    skipped = [(mi, c["skip"]) for mi, m in enumerate(res["models"]) for c in m["cases"] if c.get("skip")]
    c03b_imports = c03b.IMPORTS
    c03b.IMPORTS = IMPORTS          # coq_show uses the module-level import line
    try:
        n_eval, v = evaluate(models, res)
        nw = len(wit)
        for mi, rm in enumerate(res["models"]):
            for ci, c in enumerate(rm["cases"]):
                if c.get("not_native"):
                    ck.failure("encoded-not-json-native", "DictEncoder.encode left a value that is not JSON native: " + c["not_native"],
                               {"src": models[mi]["src"], "case": models[mi]["cases"][ci], "enc": c.get("enc")})
        for mi, ci in v["agree_encode"][:3]:
            ck.failure("corr-encode", "DictCodec.encode and DictEncoder.encode disagree", describe(models, res, mi, ci, f"c04_e{mi}_{ci}"))
        for mi, ci in v["agree_decode"][:3]:
            ck.failure("corr-decode", "DictCodec.decode and DictDecoder.decode disagree", describe(models, res, mi, ci, f"c04_d{mi}_{ci}"))
        for mi, ci in v["agree_json_decode"][:3]:
            ck.failure("corr-json-decode", "DictCodec.decode on the JSON form and JsonParser disagree", describe(models, res, mi, ci, f"c04_j{mi}_{ci}"))
        for mi, ci in v["theorem_instance"][:3]:
            ck.failure("theorem-instance", "the model's decode(encode(o)) differs from the promised object inside the proved slice",
                       describe(models, res, mi, ci, f"c04_t{mi}_{ci}"))
        for mi, ci in v["not_class 98"][:3]:
            ck.failure("roundtrip-differs", "decode(encode(o)) differs from the promised object inside the theorem's guard",
                       describe(models, res, mi, ci, f"c04_r{mi}_{ci}"))
        for mi, ci in v["not_class 0"][:3]:
            ck.failure("roundtrip-differs-unexplained", "decode(encode(o)) differs outside the guard and no known defect class explains it",
                       describe(models, res, mi, ci, f"c04_u{mi}_{ci}"))
        for chk, cls in CLASS_NAMES.items():
            for mi, ci in v[chk][:1]:
                ck.failure(cls, "round trip fails" + (" (witness)" if mi < nw else " (generated case)"),
                           describe(models, res, mi, ci, f"c04_k{mi}_{ci}", with_model=False))
        for mi, ci in v["oracle_strict_json"][:1]:
            ck.failure("nonfinite-float-not-json", "a finite-float instance encodes to a non-finite JSON number",
                       describe(models, res, mi, ci, f"c04_s{mi}_{ci}"))
        # the tie is decided by set order: the witness is reproduced when the MODEL reports the tie
        for mi, (cls, *_r) in enumerate(wit):
            if cls == "best-match-tie" and (mi, 0) in v["negb_ambiguous"]:
                ck.failure(cls, "witness: two candidate classes reach the same best score (set order decides)",
                           describe(models, res, mi, 0, f"c04_k{mi}_0", with_model=False))
        # witnesses must be attributed to their own class
        for mi, (cls, *_rest) in enumerate(wit):
            if cls.startswith("fixed:"):
                # witness of a repaired finding: the round trip must hold now
                if (mi, 0) in v["roundtrip_ok"] or not res["models"][mi]["cases"] or not res["models"][mi]["cases"][0].get("case"):
                    ck.failure("regression-" + cls[6:], "the witness of a repaired finding fails again",
                               describe(models, res, mi, 0, f"c04_w{mi}_0"))
                continue
            chk = [k for k, n in CLASS_NAMES.items() if n == cls][0]
            if res["models"][mi]["unsupported"] or not res["models"][mi]["cases"] or res["models"][mi]["cases"][0].get("skip"):
                ck.failure("harness-witness", f"the witness of {cls} could not be run", {"why": str(res["models"][mi])[:500]})
            elif (mi, 0) not in v[chk] and cls != "best-match-tie":
                ck.notes.append(f"witness of {cls}: not reproduced (round trip holds or attributed elsewhere)")
    finally:
        c03b.IMPORTS = c03b_imports
    gen = [(mi, ci) for mi, rm in enumerate(res["models"]) if mi >= nw for ci, c in enumerate(rm["cases"]) if c.get("case")]
    typed = [x for x in gen if x not in set(v["is_typed"])]
    inguard = [x for x in gen if x not in set(v["in_guard"])]
    by_slice, by_fac = {}, {}
    distinct = set()
    for mi, ci in gen:
        s = "+".join(models[mi]["desc"]["slices"])
        by_slice[s] = by_slice.get(s, 0) + 1
        c = models[mi]["cases"][ci]
        k = c["factory"] + ("/list" if "recipes" in c else "")
        by_fac[k] = by_fac.get(k, 0) + 1
        distinct.add(hash(res["models"][mi]["cases"][ci].get("enc")))
    ck.cov["evaluations"] = n_eval
    ck.cov["distinct_nontrivial"] = len(distinct)
    ck.cov["rule"] = "distinct encoded dictionaries (repr)"
    ck.cov["typed_cases"] = len(typed)
    ck.cov["cases_inside_guard"] = len(inguard)
    ck.cov["cases_inside_proved_slice"] = len([x for x in gen if x not in set(v["in_proved_slice"])])
    ck.cov["decode_set_order_dependent"] = len(v["not_class 10"])
    ck.cov["input_distribution"] = {"models": n_models, "by_slices": by_slice, "by_factory_and_document": by_fac,
                                    "models_unsupported": len(unsupported), "cases_skipped": len(skipped),
                                    "skip_samples": [s[1][:120] for s in skipped[:4]],
                                    "unsupported_samples": [u[1][:160] for u in unsupported[:4]]}
    ck.cov["samples"] = [res["models"][nw]["cases"][0].get("enc", "")[:300]] if len(res["models"]) > nw and res["models"][nw]["cases"] else []
    return ck.finish(obligations=obligations, discharged=discharged,
                     checker_cmd="make Properties/C04.vo Model/DictCodecCorr.vo; coqc Corr/cases_c04_*.v",
                     trusted_base=TRUSTED_COMMON + ["harness/bind_export.py (real XmlMeta/objects -> Gallina)",
                                                    "json.dump / json.load (text <-> tree; sampled: json.loads(render(o)) == encode(o))",
                                                    "recorded converter table (ConverterFactory wrapped in the impl process)"],
                     assumptions=axioms)


# ------------------------------------------------------------------ witness file for Properties/C04.v
def write_witness_file(path=None):
    """Run the witnesses of the known findings on the implementation and write their exported
    universe / instance / recorded conversions as Gallina definitions (coq/Proofs/DictCodecWitness.v).
    Regenerate with:  cd /verif && /venv/bin/python harness/c04.py"""
    import os
    from common import COQ
    wit = witness_models()
    # plus a plain instance inside the proved slice (non-vacuity of the guards)
    P = lambda t, v: {"__p__": t, "v": v}   # noqa: E731
    d = {"module_ns": None, "enums": [], "root": "R", "slices": ["F1"], "classes": [
        {"name": "R", "meta": {"namespace": "urn:r"}, "base": None, "fields": [
            F("id", "Attribute", ("prim", "int"), optional=True),
            F("tags", "Element", ("prim", "int"), tokens=True, optional=False),
            F("kid", "Element", ("class", "K"), list=True),
            F("note", "Element", ("prim", "str"), optional=True)]},
        {"name": "K", "meta": {}, "base": None, "fields": [F("v", "Text", ("prim", "Decimal"), optional=True)]}]}
    rec = {"__cls__": "R", "fields": {"id": P("int", 7), "tags": [P("int", 1), P("int", -2)],
                                      "kid": [{"__cls__": "K", "fields": {"v": P("Decimal", "1.50")}}, {"__cls__": "K", "fields": {"v": None}}],
                                      "note": None}}
    wit = wit + [("inside-slice", d, rec, "dict"), ("inside-slice-filter-none", d, rec, "filter_none")]
    models = [{"src": genmodels.render_source(dd), "classes": [c["name"] for c in dd["classes"]], "enums": [],
               "cases": [{"recipe": r, "root": dd["root"], "factory": fac, "ignore": False}]} for _, dd, r, fac in wit]
    res = run_impl("impl_c04.py", {"models": models})
    out = ["(* Proofs/DictCodecWitness.v — GENERATED by harness/c04.py (write_witness_file): the witnesses of the",
           "   C04 findings as exported from the implementation (real XmlContext metadata, instance,",
           "   recorded converter calls and observed outcomes).  Used by the refutation lemmas. *)",
           "From Coq Require Import NArith ZArith List Bool.",
           "From XV Require Import Base.Str Base.Eqb Model.Bind Model.EventGen Model.DictCodec Model.DictCodecCorr.",
           "Import ListNotations.", ""]
    for i, ((cls, _d, _r, _f), rm) in enumerate(zip(wit, res["models"])):
        name = "w_" + cls.replace("fixed:", "").replace("-", "_")
        assert rm["universe"] and rm["cases"][0]["case"], (cls, rm)
        out.append(f"(* {cls} *)")
        out.append(f"Definition {name}_u : universe := {rm['universe']}.")
        out.append(f"Definition {name}_g : generics := {rm['generics']}.")
        out.append(f"Definition {name}_k : dc_case := {rm['cases'][0]['case'].replace('mk_dc_case G ', f'mk_dc_case {name}_g ', 1)}.")
        out.append("")
    path = path or os.path.join(COQ, "Proofs", "DictCodecWitness.v")
    with open(path, "w") as fh:
        fh.write("\n".join(out))
    return path


if __name__ == "__main__":
    print(write_witness_file())
