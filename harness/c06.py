"""C06 — XML Schema date, time, dateTime, duration and g* period types are exact.

Deciding artefact: theorems of coq/Properties/C06.v over Model/Dates.v.
Tie: regenerated tables (Gen/DatesTables.v, Gen/PyUnicode.v) + differential
correspondence model <-> implementation on generated strings/values/pairs.
Search: the specification (Spec/XsdDates.v) evaluated in Coq on the
implementation's answers.
"""
import json
import os

from common import (Check, coq_bad_indices, run_impl, standard_proof_step, TRUSTED_COMMON, ROOT)
from coqterm import cZ, cstr, cbool, copt, clist, cfloat_hex

IMPORTS = "From XV Require Import Base.Str Model.Dates Model.DatesCorr Spec.XsdDates.\nFrom Coq Require Import PrimFloat."
LAX = "+-_ .:TZ0159١٢² \t\n\x1c"
WS = " \t\n\r"


# ------------------------------------------------------------------ generators
def g_year(r):
    k = r.random()
    if k < 0.45:
        v = r.randint(1, 9999)
        ds = "%04d" % v
    elif k < 0.55:
        ds = "0000"
    elif k < 0.65:
        ds = "%04d" % r.choice([1, 4, 100, 400, 1900, 2000, 2004, 2100, 9999])
    elif k < 0.85:
        ds = str(r.randint(10000, 10 ** r.randint(5, 30)))
    else:
        ds = "%04d" % r.choice([4, 8, 96, 104, 1600, 2400])
    neg = r.random() < 0.25
    return {"neg": neg, "ds": ds}


def year_val(y):
    return -int(y["ds"]) if y["neg"] else int(y["ds"])


def isleap(y):
    return (y % 4 == 0 and y % 100 != 0) or y % 400 == 0


def mlen(y, m):
    return [31, 29 if isleap(y) else 28, 31, 30, 31, 30, 31, 31, 30, 31, 30, 31][m - 1]


def g_md(r, y):
    m = r.randint(1, 12)
    k = r.random()
    if k < 0.3:
        d = mlen(y, m)
    elif k < 0.4:
        m, d = 2, mlen(y, 2)
    else:
        d = r.randint(1, mlen(y, m))
    return m, d


def g_tz(r):
    k = r.random()
    if k < 0.35:
        return None
    if k < 0.5:
        return ("Z",)
    if k < 0.6:
        return (r.random() < 0.5, 14, 0)
    if k < 0.7:
        return (r.random() < 0.5, 0, 0)
    return (r.random() < 0.5, r.randint(0, 13), r.randint(0, 59))


def tz_lex(t):
    if t is None:
        return ""
    if t == ("Z",):
        return "Z"
    return ("-" if t[0] else "+") + "%02d:%02d" % (t[1], t[2])


def tz_term(t):
    if t is None:
        return "TzNone"
    if t == ("Z",):
        return "TzZ"
    return f"(TzOff {cbool(t[0])} {cZ(t[1])} {cZ(t[2])})"


def g_hmsf(r):
    k = r.random()
    if k < 0.08:
        return 24, 0, 0, r.choice(["", "0", "000", "000000000"])
    h, mi, s = r.randint(0, 23), r.randint(0, 59), r.randint(0, 59)
    if k < 0.2:
        h, mi, s = r.choice([(0, 0, 0), (23, 59, 59), (12, 0, 0)])
    n = r.choice([0, 0, 1, 2, 3, 4, 5, 6, 7, 8, 9, 9])
    fs = "".join(r.choice("0123456789") for _ in range(n))
    return h, mi, s, fs


def year_term(y):
    return f"(mk_year_sp {cbool(y['neg'])} {cstr(y['ds'])})"


def g_date_sp(r):
    y = g_year(r)
    m, d = g_md(r, year_val(y))
    t = g_tz(r)
    lex = ("-" if y["neg"] else "") + y["ds"] + "-%02d-%02d" % (m, d) + tz_lex(t)
    term = f"(mk_date_sp {year_term(y)} {cZ(m)} {cZ(d)} {tz_term(t)})"
    return lex, term


def g_time_sp(r):
    h, mi, s, fs = g_hmsf(r)
    t = g_tz(r)
    lex = "%02d:%02d:%02d" % (h, mi, s) + ("." + fs if fs else "") + tz_lex(t)
    term = f"(mk_time_sp {cZ(h)} {cZ(mi)} {cZ(s)} {cstr(fs)} {tz_term(t)})"
    return lex, term


def g_datetime_sp(r):
    y = g_year(r)
    m, d = g_md(r, year_val(y))
    h, mi, s, fs = g_hmsf(r)
    t = g_tz(r)
    lex = (("-" if y["neg"] else "") + y["ds"] + "-%02d-%02dT" % (m, d) + "%02d:%02d:%02d" % (h, mi, s)
           + ("." + fs if fs else "") + tz_lex(t))
    term = (f"(mk_datetime_sp {year_term(y)} {cZ(m)} {cZ(d)} {cZ(h)} {cZ(mi)} {cZ(s)} {cstr(fs)} {tz_term(t)})")
    return lex, term


def ws(r):
    return "".join(r.choice(WS) for _ in range(r.choice([0, 0, 0, 1, 2])))


def mutate(r, s):
    k = r.random()
    if not s:
        return r.choice(LAX)
    i = r.randrange(len(s))
    if k < 0.3:
        return s[:i] + s[i + 1:]
    if k < 0.6:
        return s[:i] + r.choice(LAX) + s[i:]
    if k < 0.85:
        return s[:i] + r.choice(LAX) + s[i + 1:]
    if k < 0.95:
        # digit tweak: the most likely way to leave the calendar
        ds = [j for j, c in enumerate(s) if c.isdigit()]
        if ds:
            j = r.choice(ds)
            return s[:j] + r.choice("0123456789") + s[j + 1:]
    return s[:i]


UNREAL_DATES = ["2002-13-45", "2002-02-30", "2001-02-29", "1900-02-29", "2000-02-30", "2004-04-31", "2002-00-10",
                "2002-10-00", "2002-12-32", "-0001-02-29", "2100-02-29", "0000-02-30", "2002-06-31", "2002-99-99"]
UNREAL_TIMES = ["24:00:01", "24:01:00", "24:00:00.000000001", "25:00:00", "12:60:00", "12:00:60", "99:99:99",
                "23:59:59.9999999999"]


def g_value_date(r):
    y = r.choice([r.randint(-9999, 9999), r.randint(-10 ** 12, 10 ** 12), 0, 1, -1, 4, 2000, 1900])
    m, d = g_md(r, y)
    off = r.choice([None, None, 0, 840, -840, r.randint(-840, 840)])
    return [y, m, d, off]


def g_value_time(r):
    h, mi, s, fs = g_hmsf(r)
    f = int((fs or "0").ljust(9, "0"))
    if r.random() < 0.3:
        f = r.choice([0, 1, 1000, 1000000, 999999999, 120000000, 123000, 500])
    if h == 24:
        f = 0
    off = r.choice([None, None, 0, 840, -840, r.randint(-840, 840)])
    return [h, mi, s, f, off]


def g_value_datetime(r, small=False):
    d = g_value_date(r)
    if small:
        d[0] = r.randint(-3000, 3000)
        d[1], d[2] = g_md(r, d[0])
    t = g_value_time(r)
    return d[:3] + t


def near_pairs(r, a):
    """a value and a close-by variant: where ordering errors hide"""
    b = list(a)
    i = r.randrange(len(a) - 1)
    b[i] = a[i] + r.choice([-1, 1])
    return b


def g_period_sp(r):
    """a valid g* spelling: (text, Gallina period_sp term)"""
    t = g_tz(r)
    k = r.randrange(5)
    y = g_year(r)
    ys = ("-" if y["neg"] else "") + y["ds"]
    if k == 0:
        d = r.randint(1, 31)
        return "---%02d" % d + tz_lex(t), f"(GDay {cZ(d)} {tz_term(t)})"
    if k == 1:
        m = r.randint(1, 12)
        return "--%02d" % m + tz_lex(t), f"(GMonth {cZ(m)} {tz_term(t)})"
    if k == 2:
        m = r.randint(1, 12)
        d = r.choice([mlen(2000, m), r.randint(1, mlen(2000, m))])
        return "--%02d-%02d" % (m, d) + tz_lex(t), f"(GMonthDay {cZ(m)} {cZ(d)} {tz_term(t)})"
    if k == 3:
        return ys + tz_lex(t), f"(GYear {year_term(y)} {tz_term(t)})"
    m = r.randint(1, 12)
    return ys + "-%02d" % m + tz_lex(t), f"(GYearMonth {year_term(y)} {cZ(m)} {tz_term(t)})"


def g_period(r):
    t = tz_lex(g_tz(r))
    k = r.randrange(7)
    y = g_year(r)
    ys = ("-" if y["neg"] else "") + y["ds"]
    if k == 0:
        s = "---%02d" % r.randint(1, 31) + t
    elif k == 1:
        s = "--%02d" % r.randint(1, 12) + t
    elif k == 2:
        s = "--%02d--" % r.randint(1, 12) + t
    elif k == 3:
        m = r.randint(1, 12)
        s = "--%02d-%02d" % (m, r.randint(1, mlen(0, m))) + t
    elif k == 4:
        s = ys + t
    elif k == 5:
        s = ys + "-%02d" % r.randint(1, 12) + t
    else:
        s = r.choice(["--02-30", "--13", "---32", "---00", "--00", "2001-13", "--04-31", "1-05", "20011-05",
                      "-2001-05", "--1-05", "--05-5", "2001-05:", "+:", "--05--Z", "--02-29"])
    if r.random() < 0.3:
        s = mutate(r, s)
    if r.random() < 0.2:
        s = ws(r) + s + ws(r)
    return s


def g_duration_sp(r):
    """a valid xs:duration spelling: (text, Gallina duration_sp term)"""
    def n():
        return str(r.choice([0, 1, 7, 12, 365, 10 ** 9, r.randint(0, 10 ** 12)])).zfill(r.choice([1, 1, 2, 5]))
    comp = [n() if r.random() < 0.5 else None for _ in range(5)]
    sec = (n(), n() if r.random() < 0.5 else "") if r.random() < 0.5 else None
    if not any(comp) and sec is None:
        comp[r.randrange(5)] = n()
    neg = r.random() < 0.2
    date = "".join(c + l for c, l in zip(comp[:3], "YMD") if c is not None)
    time = "".join(c + l for c, l in zip(comp[3:], "HM") if c is not None)
    if sec is not None:
        time += sec[0] + ("." + sec[1] if sec[1] else "") + "S"
    text = ("-" if neg else "") + "P" + date + ("T" + time if time else "")
    oc = lambda x: copt(x, cstr)
    term = (f"(mk_duration_sp {cbool(neg)} {oc(comp[0])} {oc(comp[1])} {oc(comp[2])} {oc(comp[3])} {oc(comp[4])} "
            + ("None" if sec is None else f"(Some ({cstr(sec[0])}, {cstr(sec[1])}))") + ")")
    return text, term


def g_duration(r):
    def n():
        return str(r.choice([0, 1, 7, 12, 365, 10 ** 9, r.randint(0, 10 ** 12)]))

    date = "".join(n() + c for c in "YMD" if r.random() < 0.5)
    time = "".join(n() + c for c in "HM" if r.random() < 0.5)
    if r.random() < 0.5:
        time += n() + ("." + n() if r.random() < 0.5 else "") + "S"
    s = ("-" if r.random() < 0.2 else "") + "P" + date + ("T" + time if time or r.random() < 0.1 else "")
    k = r.random()
    if k < 0.35:
        s = mutate(r, s)
    elif k < 0.45:
        s = r.choice(["PT\n", "P1YT\n", "PT1X2S", "PT1M2M3S", "PT1H2S", "P", "PT", "-P", "P1Y\n", "P1Y\n\n",
                      "PT1.5S", "PT.5S", "PT5.S", "P١Y", "PT1\n2S", "PT1S2S", "P1M1Y", "P1DT", "PT1e5S",
                      "PT1_0S", "P1_0Y", " P1Y", "P1Y ", "PT1.2.3S", "P-1Y", "PT12345678901234567890.5S"])
    return s


# ------------------------------------------------------------------ term printers
def tup(v):
    return clist(v, lambda x: copt(x, cZ))


def obs_tuple(res):
    return "None" if "err" in res else f"(Some {tup(res['ok'])})"


def fhex(h):
    return cfloat_hex(float.fromhex(h))


def run(ck: Check):
    ck.level = "proof"
    obligations, discharged, axioms = standard_proof_step(ck, extra_targets=["Model/DatesCorr.vo"])
    r = ck.rng
    N = ck.n(1, 25)

    # ---------------- build the operation list
    ops, meta = [], []

    def add(op, **m):
        ops.append(op)
        meta.append(m)

    for kind, gen, unreal in (("date", g_date_sp, UNREAL_DATES), ("time", g_time_sp, UNREAL_TIMES),
                              ("datetime", g_datetime_sp, [d + "T" + "12:00:00" for d in UNREAL_DATES]
                               + ["2002-01-01T" + t for t in UNREAL_TIMES])):
        for s in unreal:
            add({"op": kind + "_from_string", "s": s}, kind=kind, sp=None)
        for _ in range(350 * N):
            lex, term = gen(r)
            a, b = ws(r), ws(r)
            add({"op": kind + "_from_string", "s": a + lex + b}, kind=kind, sp=(term, a, b))
            if r.random() < 0.8:
                m = mutate(r, lex)
                if r.random() < 0.2:
                    m = mutate(r, m)
                add({"op": kind + "_from_string", "s": m}, kind=kind, sp=None)
    # replace(): any subset of the keywords (0 included: a falsy new value must still replace), the offset keyword
    # absent (sentinel True = keep), None (remove the zone) or a number (incl. 0 and 1, which must not be taken for True)
    for _ in range(120 * N):
        for kind2, gv, nf in (("date", g_value_date, 3), ("time", g_value_time, 4), ("datetime", g_value_datetime, 7)):
            v = gv(r)
            other = gv(r)
            args = [None if r.random() < 0.55 else (r.choice([0, 0, 1, other[i]]) if r.random() < 0.5 else other[i]) for i in range(nf)]
            k = r.random()
            off = ["keep"] if k < 0.4 else [None] if k < 0.6 else [r.choice([0, 1, -1, other[nf] or 0, r.randint(-840, 840)])]
            add({"op": kind2 + "_replace", "v": v, "args": args, "off": off}, kind=kind2 + "_replace")
    for _ in range(200 * N):
        add({"op": "date_str", "v": g_value_date(r)}, kind="date_str")
        add({"op": "time_str", "v": g_value_time(r)}, kind="time_str")
        add({"op": "datetime_str", "v": g_value_datetime(r)}, kind="datetime_str")
    for _ in range(300 * N):
        a = g_value_time(r)
        b = near_pairs(r, a) if r.random() < 0.5 else g_value_time(r)
        if b[0] == 24 or b[0] > 24 or min(b[:4]) < 0:
            b = g_value_time(r)
        add({"op": "time_cmp", "a": a, "b": b}, kind="time_cmp")
        # one instant written with two offsets
        h, mi, se = r.randint(1, 22), r.randint(0, 59), r.randint(0, 59)
        off = r.choice([60, -60, 30, 45, 120, -330])
        tot = h * 3600 + mi * 60 + se - off * 60
        if 0 <= tot < 86400:
            f = r.choice([0, 1, 500000000, r.randint(1, 999999999)])
            add({"op": "time_cmp", "a": [h, mi, se, f, off], "b": [tot // 3600, tot % 3600 // 60, tot % 60, f, r.choice([0, None])]}, kind="time_cmp")
        small = r.random() < 0.7          # the rest: any year (more than four digits, far negative)
        a = g_value_datetime(r, small=small)
        b = near_pairs(r, a) if r.random() < 0.6 else g_value_datetime(r, small=small)
        add({"op": "datetime_cmp", "a": a, "b": b}, kind="datetime_cmp")
        if r.random() < 0.3:
            # one instant written with two offsets, possibly on two calendar days / months / years
            y = r.choice([-4, -1, 0, 1, 4, 100, 400, 1999, 2000, r.randint(-5000, 5000)])
            m = r.randint(1, 12)
            d = r.choice([1, mlen(y, m)])
            h, mi = r.choice([0, 23, r.randint(0, 23)]), r.randint(0, 59)
            off = r.choice([840, -840, 60, -60, 30, -330, r.randint(-840, 840)])
            tot = h * 60 + mi - off                      # minutes of the UTC day, may leave [0, 1440)
            y2, m2, d2 = y, m, d
            while tot < 0:
                tot += 1440
                d2 -= 1
                if d2 < 1:
                    m2 -= 1
                    if m2 < 1:
                        m2, y2 = 12, y2 - 1
                    d2 = mlen(y2, m2)
            while tot >= 1440:
                tot -= 1440
                d2 += 1
                if d2 > mlen(y2, m2):
                    d2, m2 = 1, m2 + 1
                    if m2 > 12:
                        m2, y2 = 1, y2 + 1
            se, f = r.randint(0, 59), r.choice([0, 1, 999999999, r.randint(0, 999999999)])
            add({"op": "datetime_cmp", "a": [y, m, d, h, mi, se, f, off],
                 "b": [y2, m2, d2, tot // 60, tot % 60, se, f, r.choice([0, None])]}, kind="datetime_cmp")
    # the witnesses of the former refutation lemmas (regressions of the repaired C06-F2 / F3)
    add({"op": "datetime_cmp", "a": [2001, 2, 28, 23, 0, 0, 0, 0], "b": [2001, 3, 1, 0, 30, 0, 0, 120]}, kind="datetime_cmp")
    add({"op": "datetime_cmp", "a": [2001, 1, 1, 0, 0, 0, 1, None], "b": [2001, 1, 1, 0, 0, 0, 2, None]}, kind="datetime_cmp")
    add({"op": "datetime_cmp", "a": [2001, 1, 1, 24, 0, 0, 0, None], "b": [2001, 1, 2, 0, 0, 0, 0, None]}, kind="datetime_cmp")
    add({"op": "time_cmp", "a": [9, 7, 31, 817077202, 45], "b": [8, 22, 31, 817077202, 0]}, kind="time_cmp")
    for _ in range(150 * N):
        v = g_value_datetime(r, small=True)
        v[0] = r.choice([1, 9999, r.randint(1, 9999)])
        v[1], v[2] = g_md(r, v[0])
        v[6] = r.choice([0, 1000, 123456000, 999999000, v[6] - v[6] % 1000])
        if v[3] == 24:
            v[3] = 23
        add({"op": "datetime_std", "v": v}, kind="datetime_std")
        t = g_value_time(r)
        t[3] = r.choice([0, 1000, 500000000, t[3] - t[3] % 1000])
        if t[0] == 24:
            t[0] = 0
        add({"op": "time_std", "v": t}, kind="time_std")
    # standard-library conversions on ANY value (also outside what the stdlib types hold: year 0 / 10000 /
    # negative, 24:00:00, nanoseconds), model = implementation incl. which values raise
    for _ in range(120 * N):
        v = g_value_datetime(r, small=r.random() < 0.8)
        if r.random() < 0.7:
            v[0] = r.choice([0, 1, 2, 9998, 9999, 10000, -1, r.randint(1, 9999)])
            v[1], v[2] = g_md(r, v[0])
        add({"op": "std_any", "t": "datetime", "v": v}, kind="std_any_datetime")
        add({"op": "std_any", "t": "time", "v": g_value_time(r)}, kind="std_any_time")
        d = v[:3] + [v[7]]
        add({"op": "std_any", "t": "date", "v": d}, kind="std_any_date")
    for tzm in [None, 0, 60, -60, 120, 330, -480, 840, -840, 765]:
        add({"op": "now", "tz": tzm, "utc": False}, kind="now")
    add({"op": "now", "tz": 0, "utc": True}, kind="now")
    for _ in range(400 * N):
        add({"op": "period", "s": g_period(r)}, kind="period", sp=None)
        pt, pterm = g_period_sp(r)
        add({"op": "period", "s": pt}, kind="period", sp=pterm)
        add({"op": "duration", "s": g_duration(r)}, kind="duration", sp=None)
        t, term = g_duration_sp(r)
        add({"op": "duration", "s": t}, kind="duration", sp=term)

    res = run_impl("impl_c06.py", ops, timeout=1800)
    ck.cov["evaluations"] = len(ops)

    # any exception type other than ValueError leaking from the value types is a violation of its own
    for op, rs in zip(ops, res):
        if "err" in rs and rs["err"] != "ValueError":
            ck.failure("unexpected-exception-" + rs["err"], f"{op} raised {rs['err']}", {"op": op, "result": rs})

    # ---------------- correspondence + oracles, per kind
    def cases_of(kind):
        return [(i, ops[i], res[i], meta[i]) for i in range(len(ops)) if meta[i]["kind"] == kind]

    def run_pred(tag, ctype, pred, items, terms):
        bad = coq_bad_indices(f"c06_{tag}", IMPORTS, "", ctype, pred, terms)
        return [items[i] for i in bad]

    t_str_obs = "str * option (list (option Z))"
    distinct = set()
    for kind in ("date", "time", "datetime"):
        items = cases_of(kind)
        terms = [f"({cstr(op['s'])}, {obs_tuple(rs)})" for _, op, rs, _ in items]
        for _, op, rs, _ in items:
            distinct.add((kind, op["s"]))
        for it in run_pred(f"agree_{kind}", t_str_obs, f"agree_{kind}_from_string", items, terms):
            ck.failure(f"corr-{kind}-from-string", f"model and implementation disagree on {kind}.from_string({it[1]['s']!r}): impl={it[2]}",
                       {"op": it[1], "impl": it[2]})
        for it in run_pred(f"real_{kind}", t_str_obs, f"oracle_{kind}_real", items, terms):
            ck.failure(f"{kind}-unreal-accepted", f"{kind}.from_string({it[1]['s']!r}) accepted {it[2]} which denotes no real date/time",
                       {"op": it[1], "impl": it[2]})
        sp_items = [it for it in items if it[3]["sp"]]
        sp_terms = [f"({it[3]['sp'][0]}, {cstr(it[3]['sp'][1])}, {cstr(it[3]['sp'][2])}, {cstr(it[1]['s'])}, {obs_tuple(it[2])})"
                    for it in sp_items]
        spt = f"{kind}_sp * str * str * str * option (list (option Z))"
        for it in run_pred(f"acc_{kind}", spt, f"oracle_{kind}_accepts", sp_items, sp_terms):
            ck.failure(f"{kind}-xsd-valid-not-accepted", f"XSD-valid {kind} {it[1]['s']!r} gave {it[2]}", {"op": it[1], "impl": it[2]})
        if kind == "date":
            vac = run_pred("guard_date", spt, "guard_date_accepts", sp_items, sp_terms)
            if len(vac) > 0:
                ck.failure("harness-generator-invalid-spelling", f"generator produced a non-wf spelling: {vac[0][1]}", {"op": vac[0][1]})
    for kind in ("date_str", "time_str", "datetime_str"):
        items = cases_of(kind)
        ok_items = [it for it in items if "ok" in it[2]]
        terms = [f"({tup(it[1]['v'])}, {cstr(it[2]['ok'])})" for it in ok_items]
        for it in ok_items:
            distinct.add((kind, tuple(it[1]["v"])))
        k = kind[:-4]
        for it in run_pred(f"agree_{kind}", "list (option Z) * str", f"agree_{k}_str", ok_items, terms):
            ck.failure(f"corr-{kind}", f"model and implementation disagree on str({k}{it[1]['v']}) = {it[2]['ok']!r}", {"op": it[1], "impl": it[2]})
        for it in run_pred(f"oracle_{kind}", "list (option Z) * str", f"oracle_{k}_str", ok_items, terms):
            ck.failure(f"{k}-str-not-xsd-valid", f"str({k}{it[1]['v']}) = {it[2]['ok']!r} is not the XSD form of the value", {"op": it[1], "impl": it[2]})
    for kind2 in ("date", "time", "datetime"):
        items = [it for it in cases_of(kind2 + "_replace") if "ok" in it[2]]
        missing = [it for it in cases_of(kind2 + "_replace") if "ok" not in it[2]]
        for it in missing[:3]:
            ck.failure(f"corr-{kind2}-replace", f"{kind2}.replace raised: {it[2]}", {"op": it[1], "impl": it[2]})
        terms = [f"({tup(it[1]['v'])}, {tup(it[1]['args'])}, {'None' if it[1]['off'] == ['keep'] else '(Some ' + copt(it[1]['off'][0], cZ) + ')'}, {tup(it[2]['ok'])})"
                 for it in items]
        for it in items:
            distinct.add((kind2 + "_replace", tuple(it[1]["v"]), tuple(it[1]["args"]), str(it[1]["off"])))
        for it in run_pred(f"agree_{kind2}_replace", "list (option Z) * list (option Z) * option (option Z) * list (option Z)",
                           f"agree_{kind2}_replace", items, terms):
            ck.failure(f"corr-{kind2}-replace", f"model and implementation disagree on {kind2}{it[1]['v']}.replace({it[1]['args']}, offset={it[1]['off']}) = {it[2]['ok']}",
                       {"op": it[1], "impl": it[2]})
    # round trip on the implementation itself (composition the unit tests never do)
    rt_ops = []
    for kind in ("date_str", "time_str", "datetime_str"):
        for it in cases_of(kind):
            if "ok" in it[2]:
                rt_ops.append(({"op": kind[:-4] + "_from_string", "s": it[2]["ok"]}, it[1]["v"], kind[:-4]))
    rt_res = run_impl("impl_c06.py", [o for o, _, _ in rt_ops])
    for (op, v, k), rs in zip(rt_ops, rt_res):
        if rs.get("ok") != v:
            ck.failure(f"{k}-roundtrip", f"{k} value {v} -> {op['s']!r} -> {rs}", {"value": v, "text": op["s"], "impl": rs})
    ck.cov["evaluations"] += len(rt_ops)

    for kind in ("time_cmp", "datetime_cmp"):
        items = [it for it in cases_of(kind) if "ok" in it[2]]
        terms = [f"({tup(it[1]['a'])}, {tup(it[1]['b'])}, ({clist(it[2]['ok'], cbool)}, {fhex(it[2]['da'])}, {fhex(it[2]['db'])}))"
                 for it in items]
        for it in items:
            distinct.add((kind, tuple(it[1]["a"]), tuple(it[1]["b"])))
        ct = "list (option Z) * list (option Z) * (list bool * float * float)"
        k = kind[:-4]
        corr_bad = run_pred(f"agree_{kind}", ct, f"agree_{k}_cmp", items, terms)
        for it in corr_bad:
            ck.failure(f"corr-{kind}", f"model and implementation disagree on comparing {it[1]['a']} and {it[1]['b']}: {it[2]}", {"op": it[1], "impl": it[2]})
        corr_bad_ids = {it[0] for it in corr_bad}
        for it in run_pred(f"order_{kind}", ct, f"oracle_{k}_order", items, terms):
            if it[0] in corr_bad_ids:
                continue
            ck.failure(f"{k}-order-disagrees-with-timeline",
                       f"{k} comparison of {it[1]['a']} and {it[1]['b']} gives {it[2]['ok']} (lt,eq,le,gt,ge,ne), the timeline says otherwise",
                       {"op": it[1], "impl": it[2]})
    items = [it for it in cases_of("datetime_std")]
    ok_items = [it for it in items if "ok" in it[2]]
    for it in items:
        distinct.add(("datetime_std", tuple(it[1]["v"])))
        if "err" in it[2]:
            ck.failure("datetime-std-conversion-raises", f"XmlDateTime{it[1]['v']}.to_datetime() raised {it[2]['err']}", {"op": it[1], "impl": it[2]})
    terms = [f"({tup(it[1]['v'])}, {tup(it[2]['ok'])}, {cZ(it[2]['us'])})" for it in ok_items]
    for it in run_pred("oracle_datetime_std", "list (option Z) * list (option Z) * Z", "oracle_datetime_std", ok_items, terms):
        ck.failure("datetime-std-conversion", f"XmlDateTime{it[1]['v']} -> datetime -> XmlDateTime gives {it[2]}", {"op": it[1], "impl": it[2]})
    items = [it for it in cases_of("time_std")]
    ok_items = [it for it in items if "ok" in it[2]]
    for it in items:
        distinct.add(("time_std", tuple(it[1]["v"])))
        if "err" in it[2]:
            ck.failure("time-std-conversion-raises", f"XmlTime{it[1]['v']}.to_time() raised {it[2]['err']}", {"op": it[1], "impl": it[2]})
    terms = [f"({tup(it[1]['v'])}, {tup(it[2]['ok'])}, {tup(it[2]['t'])})" for it in ok_items]
    for it in run_pred("oracle_time_std", "list (option Z) * list (option Z) * list (option Z)", "oracle_time_std", ok_items, terms):
        ck.failure("time-std-conversion", f"XmlTime{it[1]['v']} -> time -> XmlTime gives {it[2]}", {"op": it[1], "impl": it[2]})
    # ---- standard-library conversions: model = implementation, and the spec's microsecond timeline = CPython's
    def std_obs(rs, keys):
        if "err" in rs:
            return "None"
        return "(Some (" + ", ".join(tup(rs[k]) for k in keys) + "))"
    t_std = "list (option Z) * option (list (option Z) * list (option Z))"
    for kind, pred, keys, ct in (("std_any_datetime", "agree_datetime_std", ("fields", "back"), t_std),
                                 ("std_any_time", "agree_time_std", ("fields", "back"), t_std),
                                 ("std_any_date", "agree_date_std", ("dfields", "fields", "back_d", "back_dt"),
                                  "list (option Z) * option (list (option Z) * list (option Z) * list (option Z) * list (option Z))")):
        items = cases_of(kind)
        for it in items:
            distinct.add((kind, tuple(it[1]["v"])))
            if "err" in it[2] and it[2]["err"] != "ValueError":
                ck.failure("std-conversion-undocumented-exception", f"{kind} {it[1]['v']}: {it[2]}", {"op": it[1], "impl": it[2]})
        terms = [f"({tup(it[1]['v'])}, {std_obs(it[2], keys)})" for it in items]
        for it in run_pred(kind, ct, pred, items, terms):
            ck.failure("corr-" + kind, f"model and implementation disagree on the stdlib conversion of {it[1]['v']}: {it[2]}", {"op": it[1], "impl": it[2]})
    items = [it for it in cases_of("std_any_datetime") if "us" in it[2]]
    terms = [f"({tup(it[2]['fields'])}, {cZ(it[2]['us'])})" for it in items]
    for it in run_pred("std_instant", "list (option Z) * Z", "oracle_std_instant", items, terms):
        ck.failure("spec-timeline-differs-from-cpython", f"instant_us of {it[2]['fields']} is not CPython's (obj - epoch) = {it[2]['us']} us", {"op": it[1], "impl": it[2]})
    items = cases_of("now")
    for it in items:
        if "err" in it[2]:
            ck.failure("now-raises", f"now({it[1]}) raised {it[2]}", {"op": it[1], "impl": it[2]})
    items = [it for it in items if "t" in it[2]]
    want = [copt(0 if it[1]["utc"] else it[1]["tz"], cZ) for it in items]
    terms = [f"({w}, {tup(it[2]['t'])}, {cZ(it[2]['lo'])}, {cZ(it[2]['hi'])})" for it, w in zip(items, want)]
    for it in run_pred("time_now", "option Z * list (option Z) * Z * Z", "oracle_time_now", items, terms):
        ck.failure("time-now-loses-zone-or-instant", f"XmlTime.now/utcnow for tz={it[1]['tz']} minutes gave {it[2]['t']} (reference readings {it[2]['lo']}..{it[2]['hi']} us of day)", {"op": it[1], "impl": it[2]})
    terms = [f"({w}, {tup(it[2]['dt'])}, {cZ(it[2]['lo'])}, {cZ(it[2]['hi'])})" for it, w in zip(items, want)]
    for it in run_pred("datetime_now", "option Z * list (option Z) * Z * Z", "oracle_datetime_now", items, terms):
        ck.failure("datetime-now-loses-zone-or-instant", f"XmlDateTime.now/utcnow for tz={it[1]['tz']} minutes gave {it[2]['dt']}", {"op": it[1], "impl": it[2]})
    ck.cov["evaluations"] += 0
    items = cases_of("period")
    terms = [f"({cstr(it[1]['s'])}, {obs_tuple(it[2])})" for it in items]
    for it in items:
        distinct.add(("period", it[1]["s"]))
    for it in run_pred("agree_period", t_str_obs, "agree_period", items, terms):
        ck.failure("corr-period", f"model and implementation disagree on XmlPeriod({it[1]['s']!r}): impl={it[2]}", {"op": it[1], "impl": it[2]})
    # str() of the string-valued types: model (the stripped input) = implementation, and str() parses back to an equal value
    for kind2 in ("period", "duration"):
        its = cases_of(kind2)
        if kind2 == "duration":
            aux2 = run_impl("impl_c06_aux.py", [it[1]["s"] for it in its])
            terms2 = [f"({cstr(it[1]['s'])}, {cbool(ax['float_ok'])}, {copt(it[2].get('str'), cstr)})" for it, ax in zip(its, aux2)]
            ct2 = "str * bool * option str"
        else:
            terms2 = [f"({cstr(it[1]['s'])}, {copt(it[2].get('str'), cstr)})" for it in its]
            ct2 = "str * option str"
        for it in run_pred(f"{kind2}_strv", ct2, f"agree_{kind2}_str", its, terms2):
            ck.failure(f"corr-{kind2}-str", f"model and implementation disagree on str(Xml{kind2.capitalize()}({it[1]['s']!r})): impl={it[2]}", {"op": it[1], "impl": it[2]})
        for it in its:
            if "str" in it[2] and it[2].get("again_eq") is not True:
                ck.failure(f"{kind2}-str-roundtrip", f"Xml{kind2.capitalize()}(str(v)) != v for v built from {it[1]['s']!r}", {"op": it[1], "impl": it[2]})
    sp_items = [it for it in items if it[3].get("sp")]
    sp_terms = [f"({it[3]['sp']}, {cstr(it[1]['s'])}, {obs_tuple(it[2])})" for it in sp_items]
    for it in run_pred("acc_period", "period_sp * str * option (list (option Z))", "oracle_period_accepts", sp_items, sp_terms):
        ck.failure("period-xsd-valid-not-accepted", f"XSD-valid period {it[1]['s']!r} gave {it[2]}", {"op": it[1], "impl": it[2]})
    items = cases_of("duration")
    # implementation's own regex group + CPython float() on it
    aux = run_impl("impl_c06_aux.py", [it[1]["s"] for it in items])
    terms = []
    for it, ax in zip(items, aux):
        rs = it[2]
        distinct.add(("duration", it[1]["s"]))
        obs = "None" if "err" in rs else f"(Some ({cbool(rs['ok'][0])}, {tup(rs['ok'][1:6])}))"
        terms.append(f"({cstr(it[1]['s'])}, ({copt(ax['sec'], cstr)}, {cbool(ax['float_ok'])}), {obs})")
        if "ok" in rs and ax["float_ok"] and ax["sec"] is not None and float(ax["sec"]).hex() != rs["ok"][6]:
            ck.failure("duration-seconds", f"seconds of {it[1]['s']!r}", {"op": it[1], "impl": rs})
    for it in run_pred("agree_duration", "str * (option str * bool) * option (bool * list (option Z))", "agree_duration", items, terms):
        ck.failure("corr-duration", f"model and implementation disagree on XmlDuration({it[1]['s']!r}): impl={it[2]}", {"op": it[1], "impl": it[2]})
    sp_items, sp_terms = [], []
    for it, ax in zip(items, aux):
        if it[3].get("sp"):
            rs = it[2]
            obs = "None" if "err" in rs else f"(Some ({cbool(rs['ok'][0])}, {tup(rs['ok'][1:6])}))"
            sp_items.append(it)
            sp_terms.append(f"({it[3]['sp']}, {cstr(it[1]['s'])}, {obs}, {copt(ax['sec'], cstr)})")
    for it in run_pred("acc_duration", "duration_sp * str * option (bool * list (option Z)) * option str", "oracle_duration_accepts", sp_items, sp_terms):
        ck.failure("duration-xsd-valid-not-accepted", f"XSD-valid duration {it[1]['s']!r} gave {it[2]}", {"op": it[1], "impl": it[2]})

    ck.cov["distinct_nontrivial"] = len(distinct)
    ck.cov["rule"] = ("strings: XSD-valid spellings from Spec.XsdDates descriptors (all year widths/signs, leap days, 24:00:00, 0-9 fraction digits, "
                      "all offsets) with XML whitespace, their 1-2 character mutations over a laxness alphabet, listed unreal dates/times; values -> str -> from_string; "
                      "ordered pairs incl. near neighbours; g* periods and durations valid and mutated.  distinct = distinct (operation, input) pairs; all are "
                      "non-trivial in that each reaches the modelled parser/formatter")
    kinds = {}
    for m in meta:
        kinds[m["kind"]] = kinds.get(m["kind"], 0) + 1
    ck.cov["input_distribution"] = kinds
    ck.cov["accepted_fraction"] = round(sum(1 for x in res if "ok" in x) / max(1, len(res)), 3)
    ck.cov["samples"] = [{"op": ops[i], "impl": res[i]} for i in (0, len(ops) // 3, len(ops) // 2, len(ops) - 5, len(ops) - 1)]
    return ck.finish(obligations=obligations, discharged=discharged,
                     checker_cmd="make -C coq Properties/C06.vo && coqc -Q coq XV coq/Properties/C06.v (Print Assumptions)",
                     trusted_base=TRUSTED_COMMON + ["CPython float() for the seconds of xs:duration", "axioms: " + (", ".join(axioms) or "none (closed under the global context, PrimFloat/Uint63 primitives aside)")],
                     assumptions=["a slice running past the end of the value always ends in ValueError (every DateFormat ends in %z)",
                                  "values without timezone are placed on the timeline as UTC"])
