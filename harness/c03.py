"""C03 (writer half) — serialized XML is well-formed, namespace-well-formed and says
exactly what the writer events say.

Deciding artefact: theorems of coq/Properties/C03.v over Model/Writer.v and Spec/XmlNs.v.
Tie: regenerated tables (Gen/WriterTables.v) + differential correspondence
  model <-> XmlEventWriter (exact output text) and LxmlEventWriter (infoset), on
  (a) random well-nested event lists and (b) events of real objects through EventGenerator.
Search: `itree_of_events` / `says` (Spec/XmlNs.v) evaluated in Coq on what expat AND lxml
  read back from the implementation's output.
"""
import concurrent.futures as cf
import copy
import json
import os
import re

from common import (Check, run_impl, standard_proof_step, TRUSTED_COMMON, BuildError, CORR, COQ, _coqc)
from coqterm import cstr, cbool, copt, clist

IMPORTS = "From XV Require Import Base.Str Spec.XmlNs Model.Writer Model.WriterCorr."
CASE_T = "wcase"

XSI = "http://www.w3.org/2001/XMLSchema-instance"
XS = "http://www.w3.org/2001/XMLSchema"
XMLNS = "http://www.w3.org/XML/1998/namespace"
URIS = ["urn:a", "urn:b", XSI, XS, XMLNS, "http://x.org/c?d=1", "q"]      # "q" is also a user prefix
URIS_W = [30, 22, 8, 6, 3, 4, 3]
HOSTILE_URIS = ['urn:q"t', "urn:l<t", "urn:a&b", "http://x.org/c?d=1&e=2"]
LOCALS = ["a", "b", "c", "x", "type", "nil", "lang", "é1", "_z.-9"]
HOSTILE_LOCALS = ["a b", "1a", "xmlns", "a:b"]
PREFIXES = [None, "", "p", "q", "ns0", "ns1", "ns2", "ns3", "ns5", "xsi", "xs", "soap"]
HOSTILE_PREFIXES = ["xml", "xmlns", "a b"]
TEXT_ALPHA = ["a", "b", "z", " ", "&", "<", ">", '"', "'", "]]>", "\n", "\t", "é", "\U0001F600", "&amp;", "{", ":", "1",
              "\r", "\r\n", "\x85", "\u2028", "&lt", "&#13;", "&x;", "]]", "a]]>b"]
DATATYPE_CLARK = ["{%s}int" % XS, "{%s}string" % XS, "{%s}QName" % XS]

# guard clause -> (Coq predicate, narrow class of the known finding); priority order
CLAUSES = [
    ("cl_names", "name-not-validated"),
    ("cl_user_prefixes", "reserved-or-invalid-user-prefix"),
    ("cl_texts", "non-xml-char-not-rejected"),
    ("cl_default_qname", "qname-value-default-ns-reset"),
    ("cl_late_qname", "late-qname-data-undeclared-prefix"),
    ("cl_clark", "datatype-clark-text-rewritten"),
    ("cl_nil", "nil-kept-with-content"),
    # last: only the lxml writer fails, outside the modelled domain of its sink
    ("cl_lxml_domain", "lxml-rejects-namespace-uri-with-valueerror"),
]


# ------------------------------------------------------------------ generators
class Gen:
    def __init__(self, r, hostile=True):
        self.r = r
        self.hostile = hostile

    def uri(self, none_ok=True, h=0.01):
        r = self.r
        if none_ok and r.random() < 0.3:
            return None
        if self.hostile and r.random() < h:
            return r.choice(HOSTILE_URIS)
        return r.choices(URIS, URIS_W)[0]

    def local(self, h=0.006):
        if self.hostile and self.r.random() < h:
            return self.r.choice(HOSTILE_LOCALS)
        return self.r.choice(LOCALS)

    def qname(self, none_ok=True):
        return [self.uri(none_ok), self.local()]

    def text(self, maxlen=6):
        r = self.r
        n = r.choice([0, 1, 1, 2, 3, maxlen])
        s = "".join(r.choice(TEXT_ALPHA) for _ in range(n))
        if self.hostile:
            k = r.random()
            if k < 0.01:
                s += r.choice(["\x01", "\ufffe", "\x0b"])
        return s

    def atom(self, pq=0.15):
        if self.r.random() < pq:
            return {"q": [self.uri(True, h=0), self.r.choice(LOCALS[:5])]}
        return {"t": self.text()}

    def value(self, none_p=0.05):
        r = self.r
        k = r.random()
        if k < none_p:
            return None if r.random() < 0.7 else {"l": []}
        if k < 0.85:
            return self.atom()
        return {"l": [self.atom() for _ in range(r.randint(1, 3))]}

    def attr(self):
        r = self.r
        k = r.random()
        if k < 0.1:
            return ["attr", [XSI, "nil"], {"t": r.choice(["true", "true", "false"])}]
        if k < 0.2:
            if r.random() < 0.5:
                return ["attr", [XSI, "type"], {"q": [self.uri(True, h=0), "T"]}]
            return ["attr", [XSI, "type"], {"t": "{%s}T" % r.choice(URIS[:2])}]
        if self.hostile and k < 0.215:
            return ["attr", self.qname(), {"t": r.choice(DATATYPE_CLARK)}]
        if self.hostile and k < 0.22:
            return ["attr", self.qname(), None]
        q = self.qname()
        if r.random() < 0.7:
            q[0] = None if r.random() < 0.6 else q[0]
        return ["attr", q, self.value(none_p=0)]

    def elem(self, depth, maxdepth, out):
        r = self.r
        q = self.qname()
        out.append(["start", q])
        for _ in range(r.choice([0, 0, 1, 1, 2, 3])):
            out.append(self.attr())
        n = r.choice([0, 1, 1, 2, 2, 3, 4]) if depth < maxdepth else r.choice([0, 1])
        prev_data = False
        for _ in range(n):
            k = r.random()
            if depth < maxdepth and k < 0.5:
                self.elem(depth + 1, maxdepth, out)
                prev_data = False
            else:
                if prev_data and r.random() < 0.6:
                    continue
                out.append(["data", self.value()])
                prev_data = True
        out.append(["end", q])

    def user(self):
        r = self.r
        n = r.choice([0, 0, 1, 1, 2, 3, 4])
        m = []
        for _ in range(n):
            if self.hostile and r.random() < 0.01:
                p = r.choice(HOSTILE_PREFIXES)
            else:
                p = r.choice(PREFIXES)
            if not self.hostile and p in ("ns2", "ns3", "ns5", "xsi", "xs", "soap"):
                p = "p"
            u = r.choices(URIS, URIS_W)[0]
            if p == "xsi" and r.random() < 0.6:
                u = XSI
            if self.hostile and r.random() < 0.01:
                u = r.choice(HOSTILE_URIS + [""])
            if [p, u] not in m and all(e[0] != p for e in m):
                m.append([p, u])
        return m

    def cfg(self):
        r = self.r
        c = {"xml_declaration": r.random() < 0.3, "schema_location": None, "no_ns": None}
        if r.random() < 0.08:
            c["schema_location"] = "urn:a a.xsd"
        if r.random() < 0.04:
            c["no_ns"] = "b.xsd"
        return c

    def case(self):
        evs = []
        self.elem(0, self.r.choice([0, 1, 2, 2, 3, 4, 6]), evs)
        return {"cfg": self.cfg(), "user": self.user(), "events": evs, "stream": "events"}

    # ---- stream (b): descriptions of instances of harness/impl_c03_models.py
    def clark(self):
        u = self.uri(True, h=0)
        l = self.r.choice(LOCALS[:5])
        return "{%s}%s" % (u, l) if u else l

    def any_elem(self, depth):
        r = self.r
        a = {"qname": self.clark() if r.random() < 0.85 else None,
             "text": r.choice([None, None, self.text(4)]),
             "tail": r.choice([None, None, None, self.text(3)]),
             "attributes": {self.clark(): self.text(3) for _ in range(r.choice([0, 0, 1, 2]))},
             "children": []}
        if r.random() < 0.1:
            a["attributes"]["{%s}nil" % XSI] = "true"
        if depth < 2:
            for _ in range(r.choice([0, 0, 1, 2])):
                a["children"].append(self.wild(depth + 1))
        return {"any": a}

    def item(self):
        r = self.r
        f = {}
        if r.random() < 0.6:
            f["id"] = self.text(4)
        if r.random() < 0.3:
            f["lang"] = r.choice(["en", "el"])
        if r.random() < 0.3:
            f["ref"] = {"qname": self.clark()}
        if r.random() < 0.3:
            f["q"] = self.text(3)
        if r.random() < 0.6:
            f["value"] = self.text(5)
        if r.random() < 0.3:
            f["extra"] = self.text(2)
            return {"cls": "ItemExt", "fields": f}
        return {"cls": "Item", "fields": f}

    def wild(self, depth):
        r = self.r
        k = r.random()
        if k < 0.5:
            return self.any_elem(depth)
        if k < 0.65:
            return self.item()
        if k < 0.8:
            return {"derived": {"qname": self.clark(), "value": r.choice([5, "s", True, self.item()])}}
        return self.any_elem(depth)

    def plain(self):
        r = self.r
        return {"cls": "Plain", "fields": {"a": r.choice([None, self.text(3)]),
                                           "b": [r.choice(["1", "x", "tok"]) for _ in range(r.choice([0, 1, 3]))],
                                           "n": r.choice([None, None, "", self.text(2)])}}

    def obj(self):
        r = self.r
        k = r.random()
        if k < 0.55:
            f = {"items": [self.item() for _ in range(r.choice([0, 1, 2]))],
                 "note": r.choice([None, "", self.text(4)]),
                 "qn": r.choice([None, {"qname": self.clark()}]),
                 "plain": r.choice([None, self.plain()]),
                 "other": [self.wild(0) for _ in range(r.choice([0, 0, 1, 2]))],
                 "attrs": {self.clark(): self.text(3) for _ in range(r.choice([0, 0, 1, 2]))},
                 "wrapped": [self.text(2) for _ in range(r.choice([0, 0, 2]))]}
            return {"cls": "Root", "fields": f}
        if k < 0.8:
            content = []
            for _ in range(r.choice([0, 1, 2, 3])):
                j = r.random()
                if j < 0.35:
                    content.append(self.text(3) or "t")
                elif j < 0.4 and self.hostile:
                    content.append({"qname": self.clark()})
                else:
                    content.append(self.any_elem(1))
            return {"cls": "Mixed", "fields": {"content": content}}
        if k < 0.9:
            return {"cls": "NilRoot", "fields": {"v": r.choice([None, "", "x"]),
                                                 "t": r.choice([None, {"qname": self.clark()}])}}
        return {"derived": {"qname": self.clark(), "value": self.item()}}

    def obj_case(self):
        return {"cfg": self.cfg(), "user": self.user(), "object": self.obj(), "stream": "objects"}


WITNESSES = [
    ("fixed:default-ns-attribute-unprefixed",
     {"user": [[None, "urn:a"]], "events": [["start", ["urn:a", "r"]], ["attr", ["urn:a", "x"], {"t": "1"}], ["end", ["urn:a", "r"]]]}),
    ("reserved-or-invalid-user-prefix",
     {"user": [["xml", "urn:a"]], "events": [["start", ["urn:a", "r"]], ["end", ["urn:a", "r"]]]}),
    ("reserved-or-invalid-user-prefix",
     {"user": [["xmlns", "urn:a"]], "events": [["start", ["urn:a", "r"]], ["end", ["urn:a", "r"]]]}),
    ("fixed:generated-prefix-collision",
     {"user": [["ns2", "urn:u"]], "events": [["start", ["urn:a", "r"]], ["start", ["urn:c", "c"]], ["attr", ["urn:u", "x"], {"t": "1"}],
                                             ["end", ["urn:c", "c"]], ["end", ["urn:a", "r"]]]}),
    ("fixed:generated-prefix-collision",
     {"user": [["xsi", "urn:o"]], "events": [["start", ["urn:o", "r"]], ["attr", [XSI, "nil"], {"t": "true"}], ["end", ["urn:o", "r"]]]}),
    ("lxml-rejects-namespace-uri-with-valueerror",
     {"user": [], "events": [["start", ['urn:a"b', "r"]], ["end", ['urn:a"b', "r"]]]}),
    ("fixed:hostile-namespace-uri-written-raw",
     {"user": [], "events": [["start", ["urn:a&b", "r"]], ["end", ["urn:a&b", "r"]]]}),
    ("qname-value-default-ns-reset",
     {"user": [[None, "urn:a"]], "events": [["start", [None, "r"]], ["attr", [None, "x"], {"q": ["urn:a", "v"]}], ["end", [None, "r"]]]}),
    ("fixed:adjacent-data-misplaced",
     {"user": [], "events": [["start", [None, "r"]], ["data", {"t": "a"}], ["data", {"t": "b"}], ["end", [None, "r"]]]}),
    ("fixed:adjacent-data-misplaced",
     {"user": [], "object": {"cls": "Mixed", "fields": {"content": ["a", "b"]}}}),
    ("late-qname-data-undeclared-prefix",
     {"user": [], "events": [["start", [None, "r"]], ["start", [None, "c"]], ["end", [None, "c"]], ["data", {"q": ["urn:b", "w"]}],
                             ["end", [None, "r"]]]}),
    ("datatype-clark-text-rewritten",
     {"user": [], "events": [["start", [None, "r"]], ["attr", [None, "x"], {"t": "{%s}int" % XS}], ["end", [None, "r"]]]}),
    ("non-xml-char-not-rejected",
     {"user": [], "events": [["start", [None, "r"]], ["data", {"t": "a\x01b"}], ["end", [None, "r"]]]}),
    ("fixed:cr-in-text-native",
     {"user": [], "events": [["start", [None, "r"]], ["data", {"t": "a\rb"}], ["end", [None, "r"]]]}),
    ("nil-kept-with-content",
     {"user": [], "events": [["start", [None, "r"]], ["attr", [XSI, "nil"], {"t": "true"}], ["data", None], ["start", [None, "c"]],
                             ["end", [None, "c"]], ["end", [None, "r"]]]}),
    ("name-not-validated",
     {"user": [], "events": [["start", [None, "r"]], ["attr", [None, "a b"], {"t": "1"}], ["end", [None, "r"]]]}),
]


# ------------------------------------------------------------------ term printers
def t_ostr(x):
    return copt(x, cstr)


def t_qname(q):
    return f"({t_ostr(q[0])}, {cstr(q[1])})"


def t_atom(a):
    return f"(AText {cstr(a['t'])})" if "t" in a else f"(AQName {t_qname(a['q'])})"


def t_value(v):
    if v is None:
        return "VNone"
    if "l" in v:
        return f"(VList {clist(v['l'], t_atom, 'atom')})"
    return f"(VAtom {t_atom(v)})"


def t_event(e):
    k = e[0]
    if k == "start":
        return f"(WStart {t_qname(e[1])})"
    if k == "end":
        return f"(WEnd {t_qname(e[1])})"
    if k == "attr":
        return f"(WAttr {t_qname(e[1])} {t_value(e[2])})"
    return f"(WData {t_value(e[1])})"


def t_decl(d):
    return f"({t_ostr(d[0])}, {cstr(d[1])})"


def t_tree(t):
    if isinstance(t, str):
        return f"(IText {cstr(t)})"
    ats = clist(t["a"], lambda a: f"({t_qname(a[0])}, {cstr(a[1])})", "(qname * str)")
    return (f"(IElem {t_qname(t['n'])} {clist(t['d'], t_decl, '(option str * str)')} {ats} "
            f"{clist(t['k'], t_tree, 'inode')})")


def t_obs(o):
    if "err" in o:
        return f"(ObsErr {cstr(o['err'])})"
    return f"(ObsOut {cstr(o['out'])} {copt(o['parsed'], t_tree)})"


def t_cfg(c):
    return (f"{{| cfg_schema_location := {t_ostr(c.get('schema_location'))}; "
            f"cfg_no_ns_schema_location := {t_ostr(c.get('no_ns'))}; "
            f"cfg_xml_declaration := {cbool(c.get('xml_declaration'))} |}}")


def t_case(c, res):
    return (f"{{| c_cfg := {t_cfg(c['cfg'])}; c_user := {clist(c['user'], t_decl, '(option str * str)')}; "
            f"c_evs := {clist(c['events'], t_event, 'wevent')}; c_native := {t_obs(res['native'])}; "
            f"c_lxml := {t_obs(res['lxml'])} |}}")


def encodable(s):
    try:
        s.encode("utf-8")
        return True
    except UnicodeEncodeError:
        return False


# ------------------------------------------------------------------ Coq evaluation (several predicates, one parse)
_NUMLISTS = re.compile(r"=\s*(\[[^\]]*\])\s*:\s*list nat", re.S)


def coq_multi(tag, preds, terms, shard=40, timeout=900):
    """Evaluate every predicate of `preds` (wcase -> bool) on every case inside Coq;
    returns {pred: sorted indices where it is false}.  Same definitions as the theorems."""
    os.makedirs(CORR, exist_ok=True)
    tag = f"{tag}_{os.getpid()}"          # two runs of this check must not share case files
    shards = [terms[i:i + shard] for i in range(0, len(terms), shard)]
    paths = []
    for k, sh in enumerate(shards):
        path = os.path.join(CORR, f"cases_{tag}_{k}.v")
        body = [IMPORTS, "From Coq Require Import NArith ZArith List Bool.", "Import ListNotations.",
                f"Definition the_cases : list ({CASE_T}) := [", ";\n".join(sh), "].",
                """Fixpoint bad_idx {A} (f : A -> bool) (i : nat) (l : list A) : list nat :=
  match l with [] => [] | x :: r => if f x then bad_idx f (S i) r else i :: bad_idx f (S i) r end."""]
        for p in preds:
            body.append(f"Eval vm_compute in (bad_idx {p} 0 the_cases).")
        with open(path, "w") as f:
            f.write("\n".join(body) + "\n")
        paths.append(path)
    out = {p: [] for p in preds}
    with cf.ThreadPoolExecutor(max_workers=14) as ex:
        results = list(ex.map(lambda pth: _coqc(pth, timeout), paths))
    for k, (rc, so, se) in enumerate(results):
        if rc != 0:
            raise BuildError(os.path.relpath(paths[k], COQ), so + se)
        lists = _NUMLISTS.findall(so)
        if len(lists) != len(preds):
            raise BuildError(os.path.relpath(paths[k], COQ), "unparsable output: " + so[-500:])
        for p, l in zip(preds, lists):
            out[p] += [k * shard + int(x) for x in re.findall(r"\d+", l)]
    for pth in paths:
        base = pth[:-2]
        for ext in (".v", ".vo", ".vok", ".vos", ".glob"):
            try:
                os.remove(base + ext)
            except FileNotFoundError:
                pass
        try:
            os.remove(os.path.join(os.path.dirname(pth), "." + os.path.basename(base) + ".aux"))
        except FileNotFoundError:
            pass
    return out


# ------------------------------------------------------------------ shrinking
def subtree_spans(evs):
    """(i, j) index pairs of matching start/end events"""
    st, out = [], []
    for i, e in enumerate(evs):
        if e[0] == "start":
            st.append(i)
        elif e[0] == "end" and st:
            out.append((st.pop(), i))
    return out


def reductions(c):
    """one-step smaller variants of an event-stream case"""
    out = []
    evs = c["events"]
    for (i, j) in subtree_spans(evs):
        if i > 0:
            out.append(dict(c, events=evs[:i] + evs[j + 1:]))          # delete a subtree
            out.append(dict(c, events=evs[:i] + evs[i + 1:j] + evs[j + 1:]))  # unwrap (keeps content), may be ill-nested attrs
    for i, e in enumerate(evs):
        if e[0] in ("attr", "data"):
            out.append(dict(c, events=evs[:i] + evs[i + 1:]))
            v = e[-1]
            if v is not None and "l" in v and len(v["l"]) > 1:
                for k in range(len(v["l"])):
                    e2 = e[:-1] + [{"l": v["l"][:k] + v["l"][k + 1:]}]
                    out.append(dict(c, events=evs[:i] + [e2] + evs[i + 1:]))
            if v is not None and "t" in v and len(v["t"]) > 1:
                for k in range(len(v["t"])):
                    e2 = e[:-1] + [{"t": v["t"][:k] + v["t"][k + 1:]}]
                    out.append(dict(c, events=evs[:i] + [e2] + evs[i + 1:]))
    for i in range(len(c["user"])):
        out.append(dict(c, user=c["user"][:i] + c["user"][i + 1:]))
    cfg = c["cfg"]
    for k in ("schema_location", "no_ns", "xml_declaration"):
        if cfg.get(k):
            out.append(dict(c, cfg=dict(cfg, **{k: None if k != "xml_declaration" else False})))
    return out


def evaluate(tag, cases, pred):
    """run the implementation on event-stream cases and evaluate `pred` in Coq; returns list of bool (True = pred holds)"""
    if not cases:
        return [], []
    res = run_impl("impl_c03.py", [{"cfg": c["cfg"], "user": c["user"], "events": c["events"]} for c in cases], timeout=900)
    idx, terms = [], []
    for i, (c, r) in enumerate(zip(cases, res)):
        if "skip" in r or not all(encodable(o.get("out", "")) for o in (r["native"], r["lxml"])):
            continue
        idx.append(i)
        terms.append(t_case(c, r))
    bad = set(coq_multi(tag, [pred], terms)[pred])
    ok = [True] * len(cases)
    for k, i in enumerate(idx):
        if k in bad:
            ok[i] = False
    return ok, res


def shrink(c, pred, rounds=12):
    """greedy delta debugging: keep the first one-step reduction on which `pred` still fails"""
    c = {"cfg": c["cfg"], "user": c["user"], "events": c["events"]}
    for _ in range(rounds):
        cands = reductions(c)
        if not cands:
            break
        ok, _ = evaluate("c03_shrink", cands, pred)
        nxt = [cands[i] for i in range(len(cands)) if not ok[i]]
        if not nxt:
            break
        nxt.sort(key=lambda x: len(json.dumps(x)))
        c = nxt[0]
    return c


# ------------------------------------------------------------------ the check
def _t(ck, label):
    import time
    ck.cov.setdefault("phase_s", {})[label] = round(time.time() - ck.t0, 1)


def run(ck: Check):
    ck.level = "proof"
    obligations, discharged, axioms = standard_proof_step(ck, extra_targets=["Model/WriterCorr.vo"])
    r = ck.rng
    g = Gen(r, hostile=True)
    gq = Gen(r, hostile=False)           # quiet stream: stays inside the guard most of the time
    n_ev = ck.n(420, 12000)
    n_obj = ck.n(160, 4000)

    cases = []
    for cls, w in WITNESSES:
        c = {"cfg": {"xml_declaration": False, "schema_location": None, "no_ns": None}, "stream": "witness", "expect": cls}
        c.update(copy.deepcopy(w))
        cases.append(c)
    # corpus: minimised failing cases of earlier runs (and --replay FILE) run first
    import glob
    corpus_files = [ck.replay_file] if getattr(ck, "replay_file", None) else \
        sorted(glob.glob(os.path.join(os.path.dirname(CORR), "..", "replays", "C03", "*.json")))[:60]
    for fn in corpus_files:
        try:
            rp = json.load(open(fn)).get("replay", {})
            if isinstance(rp.get("events"), list) and isinstance(rp.get("user"), list):
                cfgc = {"xml_declaration": False, "schema_location": None, "no_ns": None}
                cfgc.update(rp.get("cfg") or {})
                cases.append({"cfg": cfgc, "user": rp["user"], "events": rp["events"], "stream": "corpus"})
        except Exception:  # noqa  (an unreadable replay is not a verdict)
            ck.notes.append(f"unreadable replay {fn}")
    if getattr(ck, "replay_file", None):
        n_ev = n_obj = 0
    for i in range(n_ev):
        cases.append((g if i % 2 else gq).case())
    for i in range(n_obj):
        cases.append((g if i % 2 else gq).obj_case())

    _t(ck, "proofs")
    res = run_impl("impl_c03.py", [{k: v for k, v in c.items() if k in ("cfg", "user", "events", "object")} for c in cases],
                   timeout=1500)
    _t(ck, "impl")
    live, terms = [], []
    skipped = 0
    for c, rs in zip(cases, res):
        if "skip" in rs:
            skipped += 1
            if c["stream"] == "witness":
                ck.failure("harness-witness-skipped", f"witness could not be run: {rs['skip']}", {"case": c})
            continue
        if "events" in rs:
            c["events"] = rs["events"]
        if not all(encodable(o.get("out", "")) for o in (rs["native"], rs["lxml"])):
            skipped += 1
            continue
        c["res"] = rs
        live.append(c)
        terms.append(t_case(c, rs))
    ck.cov["evaluations"] = 2 * len(live)

    # the two tokenisers must agree with each other on every output (they are the infoset oracle)
    for c in live:
        for w in ("native", "lxml"):
            o = c["res"][w]
            if "out" in o and not o["agree"]:
                c.setdefault("parsers_disagree", []).append(w)

    CORR_P = ("agree_native", "agree_lxml", "agree_resolve")
    ORACLE_P = ("oracle_native", "oracle_lxml", "oracle_sinks_agree")
    preds = ["all_good", "cl_guard", "cl_wf", "lxml_abstains", "lxml_covered", "in_lxml_theorem", *CORR_P, *ORACLE_P] + [p for p, _ in CLAUSES]
    verdict = coq_multi("c03", preds, terms)
    bad = verdict["all_good"]
    in_guard = len(live) - len(verdict["cl_guard"])
    detail = {p: set(verdict[p]) for p in (*CORR_P, *ORACLE_P, "cl_wf")}
    viol = {p: set(verdict[p]) for p, _ in CLAUSES}
    for i in verdict["lxml_covered"]:
        ck.failure("lxml-model-abstains-inside-domain", f"the lxml sink model abstains inside guard and domain: {live[i]['events']!r}"[:600],
                   {"cfg": live[i]["cfg"], "user": live[i]["user"], "events": live[i]["events"]})
    _t(ck, "refine")

    def describe(c):
        d = {"cfg": c["cfg"], "user": c["user"], "events": c["events"]}
        if "object" in c:
            d["object"] = c["object"]
        d["native"] = {k: v for k, v in c["res"]["native"].items() if k in ("out", "err", "msg")}
        d["lxml"] = {k: v for k, v in c["res"]["lxml"].items() if k in ("out", "err", "msg")}
        return d

    import os as _os
    shrink_budget = [0 if _os.environ.get("C03_NOSHRINK") else 3]

    def minimal(c, pred):
        if shrink_budget[0] <= 0:
            return describe(c)
        shrink_budget[0] -= 1
        try:
            s = shrink(c, pred)
            ok, rs = evaluate("c03_final", [s], pred)
            s["native"] = {k: v for k, v in rs[0].get("native", {}).items() if k in ("out", "err", "msg")}
            s["lxml"] = {k: v for k, v in rs[0].get("lxml", {}).items() if k in ("out", "err", "msg")}
            s["shrunk_from_events"] = len(c["events"])
            return s
        except Exception as e:  # noqa
            d = describe(c)
            d["shrink_error"] = str(e)[:200]
            return d

    explained = 0
    classes_seen = {}
    for i in bad:
        c = live[i]
        # 1. correspondence: the model must explain the implementation on every input
        pd = c.get("parsers_disagree", [])
        corr_fail = [p for p in ("agree_native", "agree_lxml", "agree_resolve") if i in detail[p]
                     and not (p == "agree_lxml" and "lxml" in pd) and not (p == "agree_resolve" and "native" in pd)]
        if corr_fail:
            p = corr_fail[0]
            ck.failure("corr-" + p.replace("agree_", ""),
                       f"model and implementation disagree ({p}) on events={c['events']!r} user={c['user']!r}: "
                       f"native={c['res']['native'].get('out', c['res']['native'])!r} lxml={c['res']['lxml'].get('out', c['res']['lxml'])!r}"[:900],
                       minimal(c, p))
            continue
        # 2. oracle failures, attributed to the violated guard clause (the model reproduces them: step 1 passed)
        ofail = [p for p in ("oracle_native", "oracle_lxml", "oracle_sinks_agree") if i in detail[p]]
        if not ofail:
            continue
        violated = [cls for (p, cls) in CLAUSES if i in viol[p]]
        what = (f"{'/'.join(ofail)} fails: events={c['events']!r} user={c['user']!r} -> native="
                f"{c['res']['native'].get('out', c['res']['native'].get('err'))!r} lxml={c['res']['lxml'].get('out', c['res']['lxml'].get('err'))!r}")[:900]
        if violated:
            cls = violated[0]
            if c["stream"] == "witness" and c["expect"] in violated:
                cls = c["expect"]
            explained += 1
            classes_seen[cls] = classes_seen.get(cls, 0) + 1
            if cls not in ck.open_classes():
                ck.failure(cls, what, minimal(c, ofail[0]))
            else:
                ck.failure(cls, what, describe(c))
        elif pd:
            ck.failure("tokenisers-disagree", f"expat and lxml read different infosets from {c['res'][pd[0]]['out']!r}"[:900], describe(c))
        else:
            ck.failure("oracle-fails-inside-guard", what, minimal(c, ofail[0]))
    # a witness that no longer fails: the finding is gone (note only; finish() reports non-reproduced findings)
    for c in live:
        if c["stream"] == "witness" and not c["expect"].startswith("fixed:") and live.index(c) not in bad:
            ck.notes.append(f"witness for {c['expect']} no longer fails")

    streams = {}
    for c in live:
        streams[c["stream"]] = streams.get(c["stream"], 0) + 1
    ck.cov["distinct_nontrivial"] = len({json.dumps([c["cfg"], c["user"], c["events"]], sort_keys=True) for c in live})
    ck.cov["rule"] = ("distinct (config, user map, event list) triples, each run through BOTH real writers; every triple has at least one element "
                      "and reaches flush_start/start_namespaces; `inside_guard` counts the triples on which writer_guard holds (the region the theorems cover)")
    ck.cov["inside_guard"] = in_guard
    ck.cov["lxml_sink_model_abstained"] = len(live) - len(verdict["lxml_abstains"])
    ck.cov["inside_guard_and_lxml_domain"] = len(live) - len(verdict["in_lxml_theorem"])
    ck.cov["failing_cases_explained_by_a_guard_clause"] = explained
    ck.cov["classes_seen"] = classes_seen
    ck.cov["skipped"] = skipped
    ck.cov["input_distribution"] = streams
    ck.cov["samples"] = [describe(live[i]) for i in (0, len(live) // 3, len(live) // 2, len(live) - 1) if live]
    return ck.finish(obligations=obligations, discharged=discharged,
                     checker_cmd="make -C coq Properties/C03.vo && coqc -Q coq XV coq/Properties/C03.v (Print Assumptions)",
                     trusted_base=TRUSTED_COMMON + [
                         "xml.sax.saxutils.XMLGenerator and lxml.sax.ElementTreeContentHandler are modelled, not verified (tied by correspondence)",
                         "expat and libxml2 as infoset oracles (both must read the same infoset from every output)",
                         "libxml2's serialiser prints the tree LxmlEventWriter built",
                         "axioms: " + (", ".join(axioms) or "none (closed under the global context)")],
                     assumptions=["configuration: indent=None, encoding=UTF-8, xml_version=1.0",
                                  "event lists follow the grammar Start Attr* (Data | element)* End (what EventGenerator yields)",
                                  "the event-generation half (metadata -> events) is covered separately"])
