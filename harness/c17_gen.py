"""C17 — generator of WSDL 1.1 documents over the supported fragment, their rendering to
text, and two readers producing the Gallina `definitions` term of Spec/WsdlSpec.v:
one from the text with lxml (independent of xsdata), one from the dump of the object
xsdata's DefinitionsParser built.  Imported by harness/c17.py.
"""
from xml.sax.saxutils import quoteattr

from coqterm import cstr, copt, clist, cbool

WSDL_NS = "http://schemas.xmlsoap.org/wsdl/"
SOAP_NS = "http://schemas.xmlsoap.org/wsdl/soap/"
XSD_NS = "http://www.w3.org/2001/XMLSchema"
SOAP_ENV = "http://schemas.xmlsoap.org/soap/envelope/"
SOAP_HTTP = "http://schemas.xmlsoap.org/soap/http"

OPS = ["GetQuote", "add", "Ping", "listItems", "SubmitOrder", "echo", "Lookup", "cancelOrder", "get_status", "Resolve"]
PORT_TYPES = ["Quotes", "OrderPort", "stockPT", "Desk", "Svc_Main"]
XSD_TYPES = ["string", "int", "boolean", "long", "decimal"]
CHILD_NAMES = ["id", "name", "amount", "flag", "note", "count", "Code", "value"]


def up1(s):
    return s[0].upper() + s[1:]


# ------------------------------------------------------------------ generator
def gen_children(r):
    names = r.sample(CHILD_NAMES, r.randint(1, 3))
    return [(n, r.choice(XSD_TYPES), r.random() < 0.25) for n in names]


def gen_wsdl(r, idx, force=None):
    """One structured WSDL description.  `force` (dict) pins features for directed cases."""
    force = force or {}
    tns = r.choice(["urn:svc%d" % idx, "http://example.org/svc%d/" % idx, "http://tempuri.org/s%d" % idx])
    types_ns = tns if r.random() < 0.35 else r.choice(["urn:types%d" % idx, "http://example.org/types%d" % idx])
    W = {"tns": tns, "types_ns": types_ns, "efd": r.choice(["qualified", "unqualified"]),
         "schema_mode": force.get("schema_mode") or r.choice(["inline", "imported"]),
         "px": {"tns": r.choice(["tns", "s0", "impl"]), "types": "t" if types_ns != tns else None,
                "xsd": r.choice(["xsd", "xs"]), "soap": r.choice(["soap", "soap11"]),
                "wsdl": r.choice(["", "", "wsdl"])},
         "elements": [], "complex": [], "simple": [], "messages": [], "port_types": [], "bindings": [], "services": [],
         "features": []}
    W["default_tns"] = W["px"]["wsdl"] == "wsdl" and r.random() < 0.5   # xmlns="<tns>": unprefixed component refs
    feats = W["features"]

    def p(key, prob):
        if key in force:
            return bool(force[key])
        return r.random() < prob

    def element(name, named_type=False):
        if not any(e["name"] == name for e in W["elements"]):
            e = {"name": name, "children": gen_children(r), "type": None}
            if named_type:
                ct = name + "Type"
                W["complex"].append({"name": ct, "children": e["children"]})
                e["type"] = ct
            W["elements"].append(e)
        return name

    def complex_type(name):
        if not any(c["name"] == name for c in W["complex"]):
            W["complex"].append({"name": name, "children": gen_children(r)})
        return name

    def simple_type(name, enum):
        if not any(c["name"] == name for c in W["simple"]):
            W["simple"].append({"name": name, "base": "string", "enum": ["red", "blue", "green"] if enum else None})
        return name

    def message(name, parts):
        W["messages"].append({"name": name, "parts": parts})
        return name

    if force.get("shadow_parts"):
        feats.append("part-shadows-prefix")

    def decl_mode(p_fresh, p_shadow):
        # how the part's QName gets its prefix: the document's usual prefix (False), a fresh prefix declared on the
        # part ("fresh"), or a prefix that the enclosing scope (root: binding, message, other parts) binds to a
        # DIFFERENT namespace, redeclared on the part ("shadow": XML Namespaces scoping, the innermost binding wins)
        if "shadow_parts" in force:
            return "shadow" if force["shadow_parts"] else False
        k = r.random()
        mode = "fresh" if k < p_fresh else "shadow" if k < p_fresh + p_shadow else False
        if mode == "shadow" and "part-shadows-prefix" not in feats:
            feats.append("part-shadows-prefix")
        return mode

    def el_part(name, el, local_decl=None):
        return {"name": name, "element": el, "type": None,
                "local_decl": decl_mode(0.15, 0.15) if local_decl is None else local_decl,
                "shadow_px": r.choice(["soap", "xsd", "tns", "types"])}

    def ty_part(name, kind, ty):
        return {"name": name, "element": None, "type": (kind, ty), "local_decl": decl_mode(0.0, 0.12) and "shadow",
                "shadow_px": r.choice(["soap", "xsd", "tns", "types"])}

    n_ops_total = force.get("n_ops") or r.choice([1, 1, 2, 2, 3, 4])
    layout = force.get("layout") or r.choices(["one", "two_bindings", "same_binding", "two_services"], [62, 22, 8, 8])[0]
    if n_ops_total == 1 and layout in ("two_bindings", "two_services"):
        n_ops_total = 2
    op_names = r.sample(OPS, n_ops_total)
    pt_names = r.sample(PORT_TYPES, 2)
    split = n_ops_total if layout in ("one", "same_binding") else max(1, n_ops_total // 2)
    groups = [op_names[:split]] + ([op_names[split:]] if layout in ("two_bindings", "two_services") else [])

    for gi, ops in enumerate(groups):
        ptn = pt_names[gi]
        bstyle = r.choice(["document", "rpc", None]) if "binding_style" not in force else force["binding_style"]
        pt = {"name": ptn, "ops": []}
        bd = {"name": ptn + r.choice(["Binding", "SoapBinding", "_b"]), "type": ptn, "style": bstyle, "ops": [],
              "transport": SOAP_HTTP}
        for op in ops:
            U = up1(op)
            k = r.random()
            if "op_style" in force:
                ostyle = force["op_style"]
            elif bstyle is None:
                ostyle = r.choice(["document", "rpc"]) if k < 0.85 else None      # None: style nowhere (clause 4)
            else:
                ostyle = None if k < 0.7 else r.choice(["document", "rpc"])        # per-operation override
            style = ostyle or bstyle or "document"
            if ostyle is None and bstyle is None:
                feats.append("style-undeclared")
            rpc = style == "rpc"
            W["any_rpc"] = W.get("any_rpc") or rpc
            # ---- input message
            in_parts, hdr = [], None
            if rpc:
                for pn in r.sample(["arg0", "symbol", "qty", "item", "when"], r.randint(1 if force.get("header_same_message") else 0, 3)):
                    kk = r.random()
                    if p("rpc_simple", 0.07 if kk < 0.5 else 0):
                        in_parts.append(ty_part(pn, "types", simple_type(r.choice(["Code", "Color"]), r.random() < 0.5)))
                        feats.append("rpc-simple-type-part")
                    elif kk < 0.6:
                        in_parts.append(ty_part(pn, "xsd", r.choice(XSD_TYPES)))
                    else:
                        in_parts.append(ty_part(pn, "types", complex_type(r.choice(["Item", "Money", U + "Args"]))))
                if p("rpc_element", 0.07):
                    in_parts.append(el_part("doc", element(U + "Request")))
                    feats.append("rpc-element-part")
            else:
                in_parts.append(el_part(r.choice(["parameters", "body", "request"]), element(U + "Request", r.random() < 0.3)))
                if p("doc_type", 0.07):
                    kind = r.choice(["xsd", "types"])
                    in_parts = [ty_part("payload", kind, r.choice(XSD_TYPES) if kind == "xsd" else complex_type("Item"))]
                    feats.append("doc-type-part")
            in_exts = []
            body = {"use": "literal", "namespace": None, "parts": None}
            if rpc:
                body["namespace"] = r.choice([tns, "urn:rpc:%d" % idx, types_ns])
            if p("header", 0.3):
                hp = el_part(r.choice(["hdr", "auth", "session"]), element(r.choice(["AuthHeader", U + "Header"])))
                if p("header_same_message", 0.5):        # header part lives in the same message as the body parts
                    if in_parts and p("substring_names", 0.6):
                        # part names that are prefixes of one another: selecting by name must be exact
                        other = r.choice(in_parts)["name"]
                        hp["name"] = other[:max(1, len(other) // 2)] if r.random() < 0.5 else other + "Hdr"
                        feats.append("substring-part-names")
                    in_parts = [hp] + in_parts if r.random() < 0.5 else in_parts + [hp]
                    hmsg = None
                    names = [q["name"] for q in in_parts if q is not hp]
                    if names:
                        body["parts"] = " ".join(names)
                        if rpc:
                            feats.append("rpc-body-parts")
                    else:
                        # nothing left for the body: NMTOKENS cannot be empty; use a separate message instead
                        in_parts = [q for q in in_parts if q is not hp]
                        hmsg = message(U + "Headers", [hp])
                else:
                    hmsg = message(U + "Headers", [hp])
                hdr = ("header", {"message": hmsg, "part": hp["name"], "use": "literal"})
            if not rpc and p("doc_two_parts", 0.12) and not any(q["type"] for q in in_parts):
                # document style with two element parts in the Body (allowed by WSDL 1.1, not by the BP)
                extra = el_part("more", element(U + "Extra"))
                in_parts.append(extra)
                if body["parts"] is not None:
                    body["parts"] += " more"
                feats.append("doc-two-body-parts")
            in_msg = message(U + r.choice(["In", "Input", "SoapIn", "Msg"]), in_parts)
            if hdr and hdr[1]["message"] is None:
                hdr[1]["message"] = in_msg
            # further soap:header elements (up to three in all): parts of one Headers message, or of
            # a message each; every one must end up, once, in the generated Header class, in binding order
            n_extra = force["extra_headers"] if "extra_headers" in force else r.choice([0, 0, 0, 0, 1, 1, 2])
            if hdr is None and n_extra == 0:
                pass
            extras = []
            if n_extra:
                names = [("traceId", "SessionHeader"), ("trace", "TraceHeader")][:n_extra]
                if r.random() < 0.5:
                    hm2 = message(U + "MoreHeaders", [el_part(pn, element(en)) for pn, en in names])
                    extras = [("header", {"message": hm2, "part": pn, "use": "literal"}) for pn, _ in names]
                else:
                    extras = [("header", {"message": message(U + up1(pn) + "Hdr", [el_part(pn, element(en))]), "part": pn,
                                          "use": "literal"}) for pn, en in names]
                feats.append("multi-header" if (hdr is not None or n_extra > 1) else "one-header")
            hdrs = ([hdr] if hdr else []) + extras
            r.shuffle(hdrs)
            for h in hdrs:
                if r.random() < 0.15:
                    h[1]["headerfault"] = True
            if hdrs:
                if p("header_after_body", 0.2):
                    k = r.randint(0, len(hdrs) - 1)
                    in_exts = hdrs[:k] + [("body", body)] + hdrs[k:]
                    feats.append("header-after-body")
                else:
                    in_exts = hdrs + [("body", body)]
            else:
                in_exts = [("body", body)]
            # ---- output message
            obody = {"use": "literal", "namespace": body["namespace"] if rpc else None, "parts": None}
            if rpc:
                oparts = [ty_part(r.choice(["return", "result"]), "xsd", r.choice(XSD_TYPES))] if r.random() < 0.8 else []
                if r.random() < 0.3:
                    oparts.append(ty_part("extra", "types", complex_type("Money")))
                if p("rpc_bad_response_name", 0.1):
                    oname = U + r.choice(["Out", "Output"])
                    feats.append("rpc-response-name")
                else:
                    oname = op + "Response"
            else:
                oparts = [el_part(r.choice(["parameters", "body", "result"]), element(U + "Result", r.random() < 0.3))]
                oname = U + r.choice(["Out", "Output", "SoapOut", "Response"])   # the element is <U>Result: no clash
            out_msg = message(oname, oparts)
            out_exts = [("body", obody)]
            if p("out_header", 0.1):
                ohs = [("ohdr", "AuthHeader"), ("otrace", "TraceHeader")][:r.choice([1, 1, 2])]
                hm = message(U + "OutHeaders", [el_part(pn, element(en)) for pn, en in ohs])
                oh = [("header", {"message": hm, "part": pn, "use": "literal"}) for pn, _ in ohs]
                out_exts = oh + out_exts if r.random() < 0.7 else oh[:1] + out_exts + oh[1:]
                feats.append("output-header")
            # ---- faults
            faults = []
            for fi in range(force["n_faults"] if "n_faults" in force else r.choice([0, 0, 1, 1, 2])):
                fn = U + ["Error", "Denied"][fi]
                fm = message(fn + "Msg", [el_part("fault", element(fn))])
                faults.append((fn, fm))
            # ---- soapAction
            ka = r.random()
            if "action" in force:
                action = force["action"]
            elif ka < 0.75:
                action = tns.rstrip("/") + "/" + op
            elif ka < 0.85:
                action = ""
                feats.append("empty-soapaction")
            else:
                action = None
            pt["ops"].append({"name": op, "input": in_msg, "output": out_msg, "faults": faults})
            bd["ops"].append({"name": op, "action": action, "style": ostyle, "input": in_exts, "output": out_exts,
                              "faults": [f[0] for f in faults]})
        W["port_types"].append(pt)
        W["bindings"].append(bd)

    loc = lambda k: r.choice(["http://localhost:%d/ws/%s", "https://svc.example.org:%d/%s.asmx"]) % (8000 + idx + k, "ep%d" % k)  # noqa
    b0 = W["bindings"][0]["name"]
    if layout == "one":
        W["services"] = [{"name": "Svc%d" % idx, "ports": [{"name": "P0", "binding": b0, "location": loc(0)}]}]
    elif layout == "same_binding":
        W["services"] = [{"name": "Svc%d" % idx, "ports": [{"name": "P0", "binding": b0, "location": loc(0)},
                                                          {"name": "P1", "binding": b0, "location": loc(1)}]}]
        feats.append("same-binding-two-ports")
    elif layout == "two_bindings":
        W["services"] = [{"name": "Svc%d" % idx, "ports": [{"name": "P0", "binding": b0, "location": loc(0)},
                                                          {"name": "P1", "binding": W["bindings"][1]["name"], "location": loc(1)}]}]
    else:
        W["services"] = [{"name": "SvcA%d" % idx, "ports": [{"name": "P0", "binding": b0, "location": loc(0)}]},
                         {"name": "SvcB%d" % idx, "ports": [{"name": "P0", "binding": W["bindings"][1]["name"], "location": loc(1)}]}]
    r.shuffle(W["messages"])
    # a second WSDL file reached by wsdl:import: any of messages / portTypes / bindings, and the
    # types in the importing file, the imported one, or both
    if force.get("split") or ("split" not in force and r.random() < 0.3):
        sp_ = force.get("split") if isinstance(force.get("split"), dict) else {}
        moved = sp_.get("imported")
        if moved is None:
            moved = [k for k in ("messages", "port_types", "bindings") if r.random() < 0.5]
        types = sp_.get("types") or r.choice(["main", "imported", "both", "both"])
        if not moved and types == "main":
            types = "imported"
        names = [e["name"] for e in W["elements"]]
        eb = [n for n in names if r.random() < 0.5 or "Header" in n]
        W["split"] = {"imported": moved, "types": types, "elements_b": eb}
        feats.append("wsdl-import:" + types + ":" + "+".join(k[0] for k in moved))
        # the imported document has its own namespace declarations: the same prefixes bound the other way round
        # (tns <-> types, xsd <-> soap), so a QName must be resolved in the scope of the element that carries it
        # (fragment limit kept by wf_definitions: build_message_class resolves the portType's QName of an rpc message in
        #  the scope of the wsdl:message element, so with rpc operations both must see the same bindings: same file)
        same_scope = ("messages" in moved) == ("port_types" in moved) or not W.get("any_rpc")
        if (sp_.get("px_b") if "px_b" in sp_ else r.random() < 0.5) and same_scope:
            px = W["px"]
            W["split"]["px_b"] = {"tns": px["types"] or px["tns"], "types": px["tns"] if px["types"] else None,
                                  "xsd": px["soap"], "soap": px["xsd"], "wsdl": px["wsdl"]}
            feats.append("wsdl-import-rebinds-prefixes")
    return W


# ------------------------------------------------------------------ rendering
def render(W):
    files = _render_px(W, W["px"])
    px_b = (W.get("split") or {}).get("px_b")
    if px_b:
        files["defs.wsdl"] = _render_px(W, px_b)["defs.wsdl"]
    return files


def _render_px(W, px):
    w = (px["wsdl"] + ":") if px["wsdl"] else ""
    xs, sp, tp = px["xsd"], px["soap"], px["tns"]
    typ = px["types"] or tp
    q = quoteattr

    def ref(name):               # reference to a WSDL component of this document
        return name if W["default_tns"] else f"{tp}:{name}"

    def schema_body(elements=None, with_types=True):
        out = []
        for e in (W["elements"] if elements is None else elements):
            if e["type"]:
                out.append(f'<{xs}:element name={q(e["name"])} type={q(typ + ":" + e["type"])}/>')
            else:
                out.append(f'<{xs}:element name={q(e["name"])}><{xs}:complexType>{seq(e["children"])}</{xs}:complexType></{xs}:element>')
        for c in (W["complex"] if with_types else []):
            out.append(f'<{xs}:complexType name={q(c["name"])}>{seq(c["children"])}</{xs}:complexType>')
        for s in (W["simple"] if with_types else []):
            facets = ("".join(f'<{xs}:enumeration value={q(v)}/>' for v in s["enum"]) if s["enum"]
                      else f'<{xs}:maxLength value="12"/>')
            out.append(f'<{xs}:simpleType name={q(s["name"])}><{xs}:restriction base="{xs}:{s["base"]}">{facets}</{xs}:restriction></{xs}:simpleType>')
        return "\n    ".join(out)

    def seq(children):
        return f"<{xs}:sequence>" + "".join(
            f'<{xs}:element name={q(n)} type="{xs}:{t}"' + (' minOccurs="0"' if opt else "") + "/>" for n, t, opt in children
        ) + f"</{xs}:sequence>"

    schema_attrs = (f'xmlns:{xs}="{XSD_NS}" xmlns:{typ}={q(W["types_ns"])} targetNamespace={q(W["types_ns"])} '
                    f'elementFormDefault="{W["efd"]}"')
    files = {}
    split = W.get("split")

    def types_block(elements, with_types, external):
        if external:
            files["types.xsd"] = (f'<?xml version="1.0" encoding="UTF-8"?>\n<{xs}:schema {schema_attrs}>\n    '
                                  f'{schema_body(elements, with_types)}\n</{xs}:schema>\n')
            return (f'<{w}types><{xs}:schema><{xs}:import namespace={q(W["types_ns"])} schemaLocation="types.xsd"/>'
                    f'</{xs}:schema></{w}types>')
        return f'<{w}types><{xs}:schema {schema_attrs}>\n    {schema_body(elements, with_types)}\n  </{xs}:schema></{w}types>'

    external = W["schema_mode"] == "imported"
    if not split or split["types"] == "main":
        types, types_b = types_block(None, True, external), None
    elif split["types"] == "imported":
        types, types_b = None, types_block(None, True, external)
    else:   # both files have <types>: the elements named in split["elements_b"] (and the named types) live in the imported WSDL
        ea = [e for e in W["elements"] if e["name"] not in split["elements_b"]]
        eb = [e for e in W["elements"] if e["name"] in split["elements_b"]]
        types = types_block(ea, False, external)
        types_b = types_block(eb, True, False)

    root_ns = [f'xmlns:{sp}="{SOAP_NS}"', f'xmlns:{tp}={q(W["tns"])}', f'xmlns:{xs}="{XSD_NS}"']
    if px["types"]:
        root_ns.append(f'xmlns:{typ}={q(W["types_ns"])}')
    if px["wsdl"]:
        root_ns.append(f'xmlns:{px["wsdl"]}="{WSDL_NS}"')
        if W["default_tns"]:
            root_ns.append(f'xmlns={q(W["tns"])}')
    else:
        root_ns.append(f'xmlns="{WSDL_NS}"')
    head = ['<?xml version="1.0" encoding="UTF-8"?>',
            f'<{w}definitions {" ".join(root_ns)} targetNamespace={q(W["tns"])} name="D">']
    sec = {"messages": [], "port_types": [], "bindings": [], "services": []}
    out = sec["messages"]
    for m in W["messages"]:
        out.append(f'  <{w}message name={q(m["name"])}>')
        for p in m["parts"]:
            kind, local = ("types", p["element"]) if p["element"] else p["type"]
            uri = XSD_NS if kind == "xsd" else W["types_ns"]
            pre, decl = (xs if kind == "xsd" else typ), ""
            mode = p.get("local_decl")
            if mode == "shadow":
                # a prefix this document's root binds to another namespace, rebound on the part itself
                root_bound = {sp: SOAP_NS, tp: W["tns"], xs: XSD_NS, typ: W["types_ns"]}
                cand = {"soap": sp, "xsd": xs, "tns": tp, "types": typ}[p.get("shadow_px") or "soap"]
                pre = cand if root_bound[cand] != uri else sp
                decl = f' xmlns:{pre}={q(uri)}'
            elif mode:
                pre, decl = "q1", f' xmlns:q1={q(uri)}'
            out.append(f'    <{w}part name={q(p["name"])} {"element" if p["element"] else "type"}={q(pre + ":" + local)}{decl}/>')
        out.append(f'  </{w}message>')
    out = sec["port_types"]
    for pt in W["port_types"]:
        out.append(f'  <{w}portType name={q(pt["name"])}>')
        for op in pt["ops"]:
            out.append(f'    <{w}operation name={q(op["name"])}>')
            out.append(f'      <{w}documentation>about {op["name"]}</{w}documentation>')
            out.append(f'      <{w}input message={q(ref(op["input"]))}/>')
            out.append(f'      <{w}output message={q(ref(op["output"]))}/>')
            for fn, fm in op["faults"]:
                out.append(f'      <{w}fault name={q(fn)} message={q(ref(fm))}/>')
            out.append(f'    </{w}operation>')
        out.append(f'  </{w}portType>')
    out = sec["bindings"]
    for b in W["bindings"]:
        out.append(f'  <{w}binding name={q(b["name"])} type={q(ref(b["type"]))}>')
        out.append(f'    <{sp}:binding transport={q(b["transport"])}' + (f' style={q(b["style"])}' if b["style"] else "") + "/>")
        for op in b["ops"]:
            out.append(f'    <{w}operation name={q(op["name"])}>')
            attrs = (f' soapAction={q(op["action"])}' if op["action"] is not None else "") + (
                f' style={q(op["style"])}' if op["style"] else "")
            out.append(f'      <{sp}:operation{attrs}/>')
            for side in ("input", "output"):
                out.append(f'      <{w}{side}>')
                for kind, a in op[side]:
                    if kind == "body":
                        s = f'<{sp}:body use={q(a["use"])}'
                        if a["namespace"] is not None:
                            s += f' namespace={q(a["namespace"])}'
                        if a["parts"] is not None:
                            s += f' parts={q(a["parts"])}'
                        out.append("        " + s + "/>")
                    else:
                        hopen = f'<{sp}:header message={q(ref(a["message"]))} part={q(a["part"])} use={q(a["use"])}'
                        if a.get("headerfault"):
                            out.append(f'        {hopen}><{sp}:headerfault message={q(ref(a["message"]))} part={q(a["part"])} '
                                       f'use="literal"/></{sp}:header>')
                        else:
                            out.append("        " + hopen + "/>")
                out.append(f'      </{w}{side}>')
            for fn in op["faults"]:
                out.append(f'      <{w}fault name={q(fn)}><{sp}:fault name={q(fn)} use="literal"/></{w}fault>')
            out.append(f'    </{w}operation>')
        out.append(f'  </{w}binding>')
    out = sec["services"]
    for s in W["services"]:
        out.append(f'  <{w}service name={q(s["name"])}>')
        for p in s["ports"]:
            out.append(f'    <{w}port name={q(p["name"])} binding={q(ref(p["binding"]))}><{sp}:address location={q(p["location"])}/></{w}port>')
        out.append(f'  </{w}service>')
    order = ["messages", "port_types", "bindings", "services"]
    moved = set(split["imported"]) if split else set()
    main = list(head)
    if split:
        main.append(f'  <{w}import namespace={q(W["tns"])} location="defs.wsdl"/>')
        second = list(head) + (["  " + types_b] if types_b else [])
        for k in order:
            if k in moved:
                second += sec[k]
        second.append(f'</{w}definitions>')
        files["defs.wsdl"] = "\n".join(second) + "\n"
    if types:
        main.append("  " + types)
    for k in order:
        if k not in moved:
            main += sec[k]
    main.append(f'</{w}definitions>')
    files["svc.wsdl"] = "\n".join(main) + "\n"
    return files


# ------------------------------------------------------------------ reader 1: lxml (independent of xsdata)
def _trim(nsmap, *qnames):
    """the in-scope declarations that the given QName attribute values actually use"""
    out = {}
    for v in qnames:
        if v is None:
            continue
        pre = v.split(":", 1)[0] if ":" in v else None
        if pre in nsmap:
            out[pre] = nsmap[pre]
    return sorted(([k, u] for k, u in out.items()), key=lambda kv: kv[0] or "")


def read_lxml(text, finish=True):
    from lxml import etree

    root = etree.fromstring(text.encode("utf-8"))
    W_ = "{%s}" % WSDL_NS
    S_ = "{%s}" % SOAP_NS
    if root.tag != W_ + "definitions":
        raise ValueError("not a WSDL 1.1 definitions document")

    def kids(el, name):
        return [c for c in el if isinstance(c.tag, str) and c.tag == name]

    def exts(el):
        return [c for c in el if isinstance(c.tag, str) and not c.tag.startswith(W_)]

    def only_attrs(el, allowed):
        extra = [a for a in el.attrib if a not in allowed]
        if extra:
            raise ValueError(f"unsupported attribute(s) {extra} on {el.tag}")

    D = {"tns": root.get("targetNamespace"), "messages": [], "port_types": [], "bindings": [], "services": []}
    for m in kids(root, W_ + "message"):
        D["messages"].append({"name": m.get("name"), "ns": [], "parts": [
            {"name": p.get("name"), "element": p.get("element"), "type": p.get("type"),
             "ns": _trim(p.nsmap, p.get("element"), p.get("type"))} for p in kids(m, W_ + "part")]})
    # the message's own declarations matter only for the prefixes portTypes use to refer to it: fill below
    msg_el = {m.get("name"): m for m in kids(root, W_ + "message")}
    used = {}

    def ptm(el):
        if el is None:
            return None
        v = el.get("message")
        local = v.split(":", 1)[1] if ":" in v else v
        used.setdefault(local, set()).add(v)
        return {"name": el.get("name"), "message": v, "ns": _trim(el.nsmap, v)}

    def first(el, name):
        k = kids(el, name)
        if len(k) > 1:
            raise ValueError("more than one " + name)
        return k[0] if k else None

    for pt in kids(root, W_ + "portType"):
        D["port_types"].append({"name": pt.get("name"), "operations": [
            {"name": op.get("name"), "input": ptm(first(op, W_ + "input")), "output": ptm(first(op, W_ + "output")),
             "faults": [ptm(f) for f in kids(op, W_ + "fault")]} for op in kids(pt, W_ + "operation")]})
    for m in D["messages"]:
        el = msg_el[m["name"]]
        m["_nsmap"] = dict(el.nsmap)          # trimmed by finish_message_ns once every portType is known

    def bmsg(el):
        if el is None:
            return None
        out, qn = [], []
        for e in exts(el):
            if e.tag == S_ + "body":
                only_attrs(e, {"use", "namespace", "parts", "encodingStyle"})
                out.append(["body", e.get("use"), e.get("namespace"), e.get("parts")])
            elif e.tag == S_ + "header":
                only_attrs(e, {"message", "part", "use", "namespace", "encodingStyle"})
                out.append(["header", e.get("message"), e.get("part"), e.get("use")])
                qn.append(e.get("message"))
            else:
                raise ValueError("unsupported binding extension " + e.tag)
        # in-scope declarations at the soap:header elements = those at wsdl:input unless redeclared there
        ns = {}
        for e in exts(el):
            if e.tag == S_ + "header":
                ns.update(dict(_trim(e.nsmap, e.get("message"))))
        return {"exts": out, "ns": sorted(([k, u] for k, u in ns.items()), key=lambda kv: kv[0] or "")}

    for b in kids(root, W_ + "binding"):
        sb = [e for e in exts(b)]
        if len(sb) > 1 or any(e.tag != S_ + "binding" for e in sb):
            raise ValueError("unsupported extension of wsdl:binding")
        ops = []
        for op in kids(b, W_ + "operation"):
            so = exts(op)
            if len(so) > 1 or any(e.tag != S_ + "operation" for e in so):
                raise ValueError("unsupported extension of wsdl:operation")
            if so:
                only_attrs(so[0], {"soapAction", "style"})
            ops.append({"name": op.get("name"),
                        "soap": {"action": so[0].get("soapAction"), "style": so[0].get("style")} if so else None,
                        "input": bmsg(first(op, W_ + "input")), "output": bmsg(first(op, W_ + "output")),
                        "faults": [f.get("name") for f in kids(op, W_ + "fault")]})
        if sb:
            only_attrs(sb[0], {"transport", "style"})
        D["bindings"].append({"name": b.get("name"), "type": b.get("type"), "ns": _trim(b.nsmap, b.get("type")),
                              "soap": {"style": sb[0].get("style"), "transport": sb[0].get("transport")} if sb else None,
                              "operations": ops})
    for s in kids(root, W_ + "service"):
        ports = []
        for p in kids(s, W_ + "port"):
            ad = exts(p)
            if len(ad) > 1 or any(e.tag != S_ + "address" for e in ad):
                raise ValueError("unsupported extension of wsdl:port")
            ports.append({"name": p.get("name"), "binding": p.get("binding"), "ns": _trim(p.nsmap, p.get("binding")),
                          "address": ad[0].get("location") if ad else None})
        D["services"].append({"name": s.get("name"), "ports": ports})
    return finish_message_ns(D) if finish else D


def finish_message_ns(D):
    """a message keeps, of its own declarations, those the portTypes' QNames naming it use"""
    used = {}
    for pt in D["port_types"]:
        for op in pt["operations"]:
            for o in [op["input"], op["output"]] + op["faults"]:
                if o is not None:
                    v = o["message"]
                    used.setdefault(v.split(":", 1)[1] if ":" in v else v, set()).add(v)
    for m in D["messages"]:
        m["ns"] = _trim(m.pop("_nsmap"), *sorted(used.get(m["name"], ())))
    return D


def read_lxml_files(files, name="svc.wsdl", seen=()):
    """the document `name` with the WSDL documents it reaches by wsdl:import appended (components of the
    importing document first, as WSDL 1.1 2.1.1 makes both sets available under one target namespace)"""
    from lxml import etree

    D = read_lxml(files[name], finish=False)
    root = etree.fromstring(files[name].encode("utf-8"))
    for imp in root:
        if isinstance(imp.tag, str) and imp.tag == "{%s}import" % WSDL_NS:
            loc = imp.get("location") or ""
            if not loc.endswith("wsdl"):
                continue        # an XML Schema imported at WSDL level: no WSDL components
            if loc not in files or loc in seen:
                raise ValueError("unresolvable wsdl:import " + loc)
            sub = read_lxml_files(files, loc, seen + (name,))
            if sub["tns"] != D["tns"] or imp.get("namespace") != D["tns"]:
                raise ValueError("wsdl:import of another target namespace is outside the fragment")
            for k in ("messages", "port_types", "bindings", "services"):
                D[k] += sub[k]
    return finish_message_ns(D) if not seen else D


def read_simple_types(files):
    """expanded names of the global simple types of the schemas (inline and imported)"""
    from lxml import etree

    out = []
    for text in files.values():
        root = etree.fromstring(text.encode("utf-8"))
        for sch in root.iter("{%s}schema" % XSD_NS):
            tns = sch.get("targetNamespace") or ""
            for st in sch:
                if isinstance(st.tag, str) and st.tag == "{%s}simpleType" % XSD_NS and st.get("name"):
                    rs = st.find("{%s}restriction" % XSD_NS)
                    if rs is None or rs.get("base") is None:
                        raise ValueError("unsupported simple type " + st.get("name"))
                    q = rs.get("base")
                    pre = q.split(":", 1)[0] if ":" in q else None
                    if rs.nsmap.get(pre) != XSD_NS:
                        raise ValueError("simple type not derived from a builtin: " + st.get("name"))
                    enum = rs.find("{%s}enumeration" % XSD_NS) is not None
                    out.append([tns, st.get("name"), None if enum else q.split(":", 1)[-1]])
    return sorted(out, key=lambda x: (x[0], x[1]))


# ------------------------------------------------------------------ reader 2: the object xsdata's parser built
def from_xsdata(dump):
    """dump (impl_c17.dump_obj of the Definitions instance) -> the same JSON shape as read_lxml"""
    S_ = "{%s}" % SOAP_NS

    def nsd(o):
        return {k: u for k, u in (o.get("ns_map") or [])}

    def anys(o):
        out = []
        for e in o.get("extended") or []:
            if not (isinstance(e, dict) and e.get("$") == "AnyElement"):
                raise ValueError("unexpected extension object " + repr(e)[:80])
            out.append(e)
        return out

    def only(e, allowed):
        extra = [a for a in e["attributes"] if a not in allowed]
        if extra:
            raise ValueError(f"unsupported attribute(s) {extra} on {e['qname']}")

    D = {"tns": dump.get("target_namespace"), "messages": [], "port_types": [], "bindings": [], "services": []}
    used = {}

    def ptm(o):
        if o is None:
            return None
        v = o["message"]
        local = v.split(":", 1)[1] if ":" in v else v
        used.setdefault(local, set()).add(v)
        return {"name": o.get("name"), "message": v, "ns": _trim(nsd(o), v)}

    for pt in dump["port_types"]:
        D["port_types"].append({"name": pt["name"], "operations": [
            {"name": op["name"], "input": ptm(op.get("input")), "output": ptm(op.get("output")),
             "faults": [ptm(f) for f in op.get("faults") or []]} for op in pt["operations"]]})
    for m in dump["messages"]:
        D["messages"].append({"name": m["name"], "ns": _trim(nsd(m), *sorted(used.get(m["name"], ()))), "parts": [
            {"name": p["name"], "element": p.get("element"), "type": p.get("type"),
             "ns": _trim(nsd(p), p.get("element"), p.get("type"))} for p in m["parts"]]})

    def bmsg(o):
        if o is None:
            return None
        out, qn = [], []
        for e in anys(o):
            a = e["attributes"]
            if e["qname"] == S_ + "body":
                only(e, {"use", "namespace", "parts", "encodingStyle"})
                out.append(["body", a.get("use"), a.get("namespace"), a.get("parts")])
            elif e["qname"] == S_ + "header":
                only(e, {"message", "part", "use", "namespace", "encodingStyle"})
                out.append(["header", a.get("message"), a.get("part"), a.get("use")])
                qn.append(a.get("message"))
            else:
                raise ValueError("unsupported binding extension " + e["qname"])
        # AnyElement attribute values were already expanded by the parser ("{uri}local"); the
        # declarations in scope are compared through that expansion (see same_defs)
        return {"exts": out, "ns": None}

    for b in dump["bindings"]:
        sb = anys(b)
        if len(sb) > 1 or any(e["qname"] != S_ + "binding" for e in sb):
            raise ValueError("unsupported extension of wsdl:binding")
        if sb:
            only(sb[0], {"transport", "style"})
        ops = []
        for op in b["operations"]:
            so = anys(op)
            if len(so) > 1 or any(e["qname"] != S_ + "operation" for e in so):
                raise ValueError("unsupported extension of wsdl:operation")
            if so:
                only(so[0], {"soapAction", "style"})
            ops.append({"name": op["name"],
                        "soap": {"action": so[0]["attributes"].get("soapAction"), "style": so[0]["attributes"].get("style")} if so else None,
                        "input": bmsg(op.get("input")), "output": bmsg(op.get("output")),
                        "faults": [f["name"] for f in op.get("faults") or []]})
        D["bindings"].append({"name": b["name"], "type": b["type"], "ns": _trim(nsd(b), b["type"]),
                              "soap": {"style": sb[0]["attributes"].get("style"), "transport": sb[0]["attributes"].get("transport")} if sb else None,
                              "operations": ops})
    for s in dump["services"]:
        ports = []
        for p in s["ports"]:
            ad = anys(p)
            if len(ad) > 1 or any(e["qname"] != S_ + "address" for e in ad):
                raise ValueError("unsupported extension of wsdl:port")
            ports.append({"name": p["name"], "binding": p["binding"], "ns": _trim(nsd(p), p["binding"]),
                          "address": ad[0]["attributes"].get("location") if ad else None})
        D["services"].append({"name": s["name"], "ports": ports})
    return D


def same_defs(D_xsdata, D_lxml):
    """Does the object xsdata's parser built say what the document says?  Canonicalisation:
    the parser expands prefixed values of extension attributes (ParserUtils.parse_any_attribute),
    so soap:header/@message is compared after expanding the document's value the same way."""
    import copy

    a, b = copy.deepcopy(D_xsdata), copy.deepcopy(D_lxml)
    for D in (b,):
        for bd in D["bindings"]:
            for op in bd["operations"]:
                for side in ("input", "output"):
                    m = op[side]
                    if m is None:
                        continue
                    ns = {k: u for k, u in m["ns"]}
                    for e in m["exts"]:
                        if e[0] == "header" and ":" in e[1]:
                            pre, suf = e[1].split(":", 1)
                            if pre in ns and not suf.startswith("//"):
                                e[1] = "{%s}%s" % (ns[pre], suf)
                    m["ns"] = None
    return a == b, a, b


# ------------------------------------------------------------------ Gallina printers
def ostr(x):
    return copt(x, cstr)


def t_ns(ns):
    return clist(ns, lambda kv: f"({ostr(kv[0])}, {cstr(kv[1])})", "(option str * str)")


def t_defs(D):
    def part(p):
        return f"(mk_part {cstr(p['name'])} {ostr(p['element'])} {ostr(p['type'])} {t_ns(p['ns'])})"

    def ptm(o):
        return "None" if o is None else f"(Some (mk_pt_msg {ostr(o['name'])} {cstr(o['message'])} {t_ns(o['ns'])}))"

    def ptm1(o):
        return f"(mk_pt_msg {ostr(o['name'])} {cstr(o['message'])} {t_ns(o['ns'])})"

    def ext(e):
        if e[0] == "body":
            return f"(SoapBody {ostr(e[1])} {ostr(e[2])} {ostr(e[3])})"
        return f"(SoapHeader {cstr(e[1])} {cstr(e[2])} {ostr(e[3])})"

    def bmsg(o):
        return "None" if o is None else f"(Some (mk_b_msg {clist(o['exts'], ext, 'soap_ext')} {t_ns(o['ns'])}))"

    def bop(o):
        so = "None" if o["soap"] is None else f"(Some (mk_soap_operation {ostr(o['soap']['action'])} {ostr(o['soap']['style'])}))"
        return (f"(mk_b_operation {cstr(o['name'])} {so} {bmsg(o['input'])} {bmsg(o['output'])} "
                f"{clist(o['faults'], cstr, 'str')})")

    def bnd(b):
        sb = "None" if b["soap"] is None else f"(Some (mk_soap_binding {ostr(b['soap']['style'])} {ostr(b['soap']['transport'])}))"
        return (f"(mk_binding {cstr(b['name'])} {cstr(b['type'])} {t_ns(b['ns'])} {sb} "
                f"{clist(b['operations'], bop, 'b_operation')})")

    msgs = clist(D["messages"], lambda m: f"(mk_message {cstr(m['name'])} {t_ns(m['ns'])} {clist(m['parts'], part, 'part')})", "message")
    pts = clist(D["port_types"], lambda pt: f"(mk_port_type {cstr(pt['name'])} " + clist(
        pt["operations"], lambda op: f"(mk_pt_operation {cstr(op['name'])} {ptm(op['input'])} {ptm(op['output'])} {clist(op['faults'], ptm1, 'pt_msg')})",
        "pt_operation") + ")", "port_type")
    bds = clist(D["bindings"], bnd, "binding")
    svcs = clist(D["services"], lambda s: f"(mk_service {cstr(s['name'])} " + clist(
        s["ports"], lambda p: f"(mk_port {cstr(p['name'])} {cstr(p['binding'])} {t_ns(p['ns'])} {ostr(p['address'])})", "port") + ")",
        "service")
    return f"(mk_definitions {ostr(D['tns'])} {msgs} {pts} {bds} {svcs})"


def split_q(qname):
    if qname and qname[0] == "{":
        ns, _, local = qname[1:].partition("}")
        return ns, local
    return "", qname


def t_tref(ns, local):
    return f"(TNative {cstr(local)})" if ns == XSD_NS else f"(TRef {cstr(ns)} {cstr(local)})"


def t_item(it):
    if it[0] == "leaf":
        return f"(Leaf {cstr(it[1])} {cstr(it[2])} {cbool(it[3])} {t_tref(*it[4])})"
    return f"(Node {cstr(it[1])} {cstr(it[2])} {cbool(it[3])} {clist(it[4], t_item, 'item')})"


def t_sd(sd):
    return (f"(mk_sd {cstr(sd['name'])} {ostr(sd['style'])} {ostr(sd['location'])} {ostr(sd['transport'])} "
            f"{ostr(sd['soap_action'])} {copt(sd['input'], t_item)} {copt(sd['output'], t_item)})")


def t_xtree(t):
    return f"(XElem {cstr(t[0])} {cstr(t[1])} {clist(t[2], t_xtree, 'xtree')})"


def xml_tree(text):
    from lxml import etree

    def go(el):
        q = etree.QName(el)
        return [q.namespace or "", q.localname, [go(c) for c in el if isinstance(c.tag, str)]]

    return go(etree.fromstring(text.encode("utf-8") if isinstance(text, str) else text))


TAG_CODE = {"Element": 0, "BindingMessage": 1, "BindingOperation": 2}


def t_qn(q):
    ns, local = split_q(q)
    return f"({cstr(ns)}, {cstr(local)})"


def t_fclass(c):
    """dump_class(...) of a raw mapper class -> fclass term (Model/WsdlCorr.v)"""
    def onat(x):
        return "None" if x is None else f"(Some {int(x)}%nat)"

    def attr(a):
        if len(a["types"]) != 1:
            raise ValueError("attr with %d types" % len(a["types"]))
        t = a["types"][0]
        d = a["default"]
        if d is not None and not isinstance(d, str):
            raise ValueError("non-string default")
        return (f"(mk_fattr {cstr(a['name'])} {ostr(a['namespace'])} {ostr(d)} {t_qn(t['qname'])} {cbool(t['native'])} "
                f"{cbool(t['forward'])} {copt(t['reference'], t_qn)} {onat(a['restrictions']['min_occurs'])} "
                f"{onat(a['restrictions']['max_occurs'])})")

    return (f"(FClass {t_qn(c['qname'])} {ostr(c['meta_name'])} {TAG_CODE.get(c['tag'], 8)}%nat {ostr(c['namespace'])} "
            f"{clist(c['attrs'], attr, 'fattr')} {clist(c['inner'], t_fclass, 'fclass')})")
