"""Stand-in for xsdata/formats/dataclass/templates/*.jinja2 (Jinja is absent).

Runs inside the implementation interpreter (PYTHONPATH=/repo:/verif/shims).  Every
*decision* and every *piece of text that carries meaning* comes from the REAL
`xsdata.formats.dataclass.filters.Filters` object of the run (class_name, field_name,
constant_name, field_type, field_definition, field_default_value, field_metadata,
class_annotations, class_bases, class_params, constant_value, import_module,
import_class, default_imports, format_docstring, format_string, clean_docstring,
text_wrap, post_meta_hook).  What is re-implemented here, and therefore *modelled, not
verified*, is only the template glue: which filter is called with which arguments, the
conditions of the `{% if %}`s and the order/indentation of the emitted lines.  The glue
was written by reading the templates of the pinned commit and is validated on every
check run against the generator outputs committed under /repo/tests/fixtures
(`codegen_run.validate_standin`).

Two layers, so that callers can look at the Filters outputs without parsing source:

    class_plan(filters, obj, module_namespace)   -> dict  (all Filters outputs, recursive)
    emit_class(plan)                             -> str   (text = pure function of the plan)
    module_plan(filters, resolver, classes)      -> dict  (imports, namespace, class plans)
    emit_module(filters, mplan)                  -> str   (needs filters.default_imports)
    package_plan(filters, classes, module)       -> dict
    emit_package(pplan)                          -> str

Template correspondence (pinned commit):
  class.jinja2    -> _class_plan / _emit_dataclass     enum.jinja2    -> _enum_plan / _emit_enum
  service.jinja2  -> _service_plan / _emit_service     module.jinja2  -> module_plan / emit_module
  imports.jinja2  -> _import_lines                     package.jinja2 -> package_plan / emit_package
  docstrings.*.jinja2 -> _docstring_source
Not reproduced: exact blank lines / whitespace control of Jinja (ruff reformats the real
output anyway); only docstring *content* can differ in whitespace because of that.
"""
from __future__ import annotations

from itertools import groupby
from typing import Any

from xsdata.codegen.models import Class, Import
from xsdata.codegen.resolver import DependenciesResolver


# --------------------------------------------------------------------------- jinja filters
def jinja_indent(s: str, width: int = 4, first: bool = False, blank: bool = False) -> str:
    """jinja2.filters.do_indent (3.x semantics)."""
    indention = " " * width
    newline = "\n"
    s += newline
    if blank:
        rv = (newline + indention).join(s.splitlines())
    else:
        lines = s.splitlines()
        rv = lines.pop(0)
        if lines:
            rv += newline + newline.join(indention + line if line else line for line in lines)
    if first:
        rv = indention + rv
    return rv


def _shift(text: str, width: int = 4) -> str:
    """`{% filter indent(4) %}` around an included inner class (first line not indented by
    the filter, but the include statement itself sits behind 4 literal blanks... we indent
    every non-empty line, which is what the two together amount to)."""
    pad = " " * width
    return "\n".join(pad + ln if ln else ln for ln in text.split("\n"))


# --------------------------------------------------------------------------- docstrings
def _docstring_source(filters, obj: Class, level: int) -> str:
    """The text the `docstrings.<style>.jinja2` include produces (input of format_docstring)."""
    style = filters.docstring_style.name.lower()
    if style == "blank":
        return ""
    head = '"""{}"""'.format(filters.clean_docstring(obj.help))
    if style == "accessible":
        return head
    out = head + "\n"
    if not obj.has_help_attr:
        return out
    params = list(filters.class_params(obj))
    if style == "google":
        offset = (level + 2) * 4 + 7
        out += "\nAttributes:"
        for var_name, var_doc in params:
            out += "\n" + jinja_indent(filters.text_wrap("{}: {}".format(var_name, var_doc), offset), first=True)
    elif style == "numpy":
        offset = (level + 1) * 4 + 7
        out += "\n" + ("Properties" if obj.is_enumeration else "Parameters") + "\n----------"
        for var_name, var_doc in params:
            out += "\n" + var_name
            if var_doc:
                out += "\n" + jinja_indent(filters.text_wrap(var_doc, offset, subsequent_indent=""), width=4,
                                           first=True)
    elif style == "rst":
        offset = (level + 1) * 4 + 7
        prefix = "cvar" if obj.is_enumeration else "ivar"
        for var_name, var_doc in params:
            out += "\n" + filters.text_wrap(":{} {}: {}".format(prefix, var_name, var_doc), offset)
    else:  # a new style appeared: fail closed
        raise RuntimeError("render_standin: unknown docstring style " + style)
    return out


def _help(filters, obj: Class, level: int) -> str:
    return filters.format_docstring(_docstring_source(filters, obj, level), level + 1)


# --------------------------------------------------------------------------- plans
def class_plan(filters, obj: Class, module_namespace: str | None, level: int = 0,
               parent_namespace: str | None = None) -> dict:
    """All Filters outputs the templates would compute for `obj` (recursive over inner)."""
    if obj.is_enumeration:
        return _enum_plan(filters, obj, level)
    if obj.is_service and level == 0:  # inner classes are never rendered with service.jinja2
        return _service_plan(filters, obj)
    return _class_plan(filters, obj, module_namespace, level, parent_namespace)


def _class_plan(filters, obj, module_namespace, level, parent_namespace):
    help_ = _help(filters, obj, level)
    parent_namespace = obj.namespace if obj.namespace is not None else parent_namespace
    class_name = filters.class_name(obj.name)
    annotations = filters.class_annotations(obj, class_name)
    global_type = level == 0 and not obj.local_type
    local_name = obj.meta_name or obj.name
    local_name = None if class_name == local_name or not global_type else local_name
    bases = filters.class_bases(obj, class_name)
    post_meta = filters.post_meta_hook(obj)
    target_namespace = obj.target_namespace if global_type and module_namespace != obj.target_namespace else None

    meta: dict[str, Any] = {}
    has_meta = bool(local_name or obj.is_nillable or obj.namespace is not None or target_namespace
                    or (obj.local_type and level == 0))
    if has_meta:
        if obj.local_type:
            meta["global_type"] = False
        if local_name:
            meta["name"] = local_name
        if obj.is_nillable:
            meta["nillable"] = True
        if obj.namespace is not None:
            meta["namespace"] = obj.namespace
        if target_namespace and target_namespace != obj.namespace:
            meta["target_namespace"] = target_namespace

    attrs = []
    for attr in obj.attrs:
        attrs.append({
            "name": attr.name,
            "local_name": attr.local_name,
            "tag": attr.tag,
            "field_name": filters.field_name(attr.name, obj.name),
            "field_type": filters.field_type(obj, attr),
            "field_definition": filters.field_definition(obj, attr, parent_namespace),
            "field_default": filters.field_default_value(attr, obj.ns_map),
            "field_metadata": filters.field_metadata(obj, attr, parent_namespace),
        })
    inner = [class_plan(filters, x, module_namespace, level + 1, parent_namespace) for x in obj.inner]
    return {"kind": "class", "qname": obj.qname, "name": obj.name, "level": level, "class_name": class_name,
            "tag": obj.tag, "local_type": obj.local_type,
            "annotations": list(annotations), "bases": list(bases), "help": help_, "has_meta": has_meta, "meta": meta,
            "post_meta": post_meta, "attrs": attrs, "inner": inner,
            "params": [list(x) for x in filters.class_params(obj)]}


def _enum_plan(filters, obj, level):
    help_ = _help(filters, obj, level)
    class_name = filters.class_name(obj.name)
    members = []
    for attr in obj.attrs:
        const = filters.constant_name(attr.name, obj.name)
        m = {"name": attr.name, "constant_name": const, "field_default": filters.field_default_value(attr, obj.ns_map),
             "doc": None}
        if filters.docstring_style.name.lower() == "accessible" and attr.help:
            member_name = "{}.{}.__doc__ = ".format(class_name, const)
            m["doc"] = member_name + filters.format_string(filters.clean_docstring(attr.help, False), indent=0,
                                                           key=member_name)
        members.append(m)
    return {"kind": "enum", "qname": obj.qname, "name": obj.name, "level": level, "class_name": class_name,
            "tag": obj.tag, "local_type": obj.local_type,
            "help": help_, "attrs": members, "inner": [], "params": [list(x) for x in filters.class_params(obj)]}


def _service_plan(filters, obj):
    attrs = [{"name": a.name, "field_name": filters.field_name(a.name, obj.name),
              "constant_value": filters.constant_value(a)} for a in obj.attrs]
    return {"kind": "service", "qname": obj.qname, "name": obj.name, "level": 0,
            "class_name": filters.class_name(obj.name), "attrs": attrs, "inner": []}


# --------------------------------------------------------------------------- emitters
def _meta_str(v) -> str:
    # the templates write  name = "{{ local_name }}"  -- NO escaping (faithful, see class.jinja2)
    return '"{}"'.format(v)


def emit_class(plan: dict) -> str:
    if plan["kind"] == "enum":
        return _emit_enum(plan)
    if plan["kind"] == "service":
        return _emit_service(plan)
    return _emit_dataclass(plan)


def _emit_dataclass(p):
    out = list(p["annotations"])
    out.append("class {}{}:".format(p["class_name"], "({})".format(", ".join(p["bases"])) if p["bases"] else ""))
    if p["help"]:
        out.append(jinja_indent(p["help"], 4, first=True))
    if p["has_meta"]:
        out.append("    class Meta:")
        for key in ("global_type", "name", "nillable", "namespace", "target_namespace"):
            if key in p["meta"]:
                v = p["meta"][key]
                out.append("        {} = {}".format(key, _meta_str(v) if isinstance(v, str) else repr(v)))
        out.append("")
    elif len(p["attrs"]) == 0 and not p["help"]:
        out.append("    pass")
    if p["post_meta"]:
        out.append(jinja_indent(p["post_meta"], 4, first=True))
    for a in p["attrs"]:
        out.append("    {}: {} = {}".format(a["field_name"], a["field_type"], a["field_definition"]))
    for inner in p["inner"]:
        out.append("")
        out.append(_shift(emit_class(inner), 4))
    return "\n".join(out)


def _emit_enum(p):
    out = ["class {}(Enum):".format(p["class_name"])]
    if p["help"]:
        out.append(jinja_indent(p["help"], 4, first=True))
    for m in p["attrs"]:
        out.append("    {} = {}".format(m["constant_name"], m["field_default"]))
    docs = [m["doc"] for m in p["attrs"] if m["doc"]]
    if docs:
        # column 0 of the template: module level for a top-level enum, the enclosing class
        # body for an inner one (the inner include is wrapped in `filter indent(4)`)
        out.append("")
        out.extend(docs)
    return "\n".join(out)


def _emit_service(p):
    out = ["class {}:".format(p["class_name"])]
    for a in p["attrs"]:
        out.append("    {} = {}".format(a["field_name"], a["constant_value"]))
    return "\n".join(out)


# --------------------------------------------------------------------------- imports / module / package
def _groupby_source(imports):
    """jinja2 (>= 3.1) `groupby("source")`: stable sort and grouping on the lower-cased key
    (case_sensitive=False is the default); the group is labelled with its first item."""
    def key(x):
        return x.source.lower()

    return [(k, list(g)) for k, g in groupby(sorted(imports, key=key), key=key)]


def _import_plan(filters, imports: list[Import], module: str) -> list[dict]:
    """imports.jinja2: `imports|groupby("source")` (jinja's groupby sorts by the key)."""
    rows = []
    for _, items in _groupby_source(imports):
        source = items[0].source
        rows.append({"source": source, "import_module": filters.import_module(source, module),
                     "items": [{"qname": it.qname, "name": it.name, "alias": it.alias,
                                "import_class": filters.import_class(it.name, alias=it.alias)} for it in items]})
    return rows


def _import_lines(rows) -> str:
    out = []
    for row in rows:
        if len(row["items"]) == 1:
            out.append("from {} import {}".format(row["import_module"], row["items"][0]["import_class"]))
        else:
            out.append("from {} import (".format(row["import_module"]))
            out.extend("    {},".format(it["import_class"]) for it in row["items"])
            out.append(")")
    return "\n".join(out) + ("\n" if out else "")


def module_plan(filters, resolver: DependenciesResolver, classes: list[Class]) -> dict:
    """DataclassGenerator.render_module up to (not including) template rendering."""
    if len({x.target_namespace for x in classes}) == 1:
        module_namespace = classes[0].target_namespace
    else:
        module_namespace = None
    resolver.process(classes)
    imports = resolver.sorted_imports()
    classes = resolver.sorted_classes()
    plans = [class_plan(filters, obj, module_namespace) for obj in classes]
    module = classes[0].target_module
    return {"module": module, "namespace": module_namespace, "imports": _import_plan(filters, imports, module),
            "aliases": dict(resolver.aliases), "classes": plans, "class_order": [c.qname for c in classes]}


def emit_module(filters, mplan: dict) -> str:
    output = "\n".join(emit_class(p).strip() + "\n\n" for p in mplan["classes"])  # render_classes: "\n".join(strip())
    text = filters.default_imports(output) + "\n" + _import_lines(mplan["imports"])
    if mplan["namespace"]:
        text += '\n__NAMESPACE__ = "{}"\n'.format(mplan["namespace"])  # unescaped, as in module.jinja2
    return text + "\n\n" + output


def package_plan(filters, classes: list[Class], module: str) -> dict:
    """DataclassGenerator.render_package up to (not including) template rendering."""
    imports = [Import(qname=obj.qname, source=obj.target_module) for obj in sorted(classes, key=lambda x: x.name)]
    DependenciesResolver.resolve_conflicts(imports, set())
    rows = _import_plan(filters, imports, module)
    all_ = []
    for _, items in _groupby_source(imports):
        for it in items:
            all_.append(filters.class_name(it.alias) if it.alias else filters.class_name(it.name))
    return {"module": module, "imports": rows, "all": all_}


def emit_package(pplan: dict) -> str:
    out = _import_lines(pplan["imports"]) + "\n__all__ = [\n"
    for name in pplan["all"]:
        out += '    "{}",\n'.format(name)
    return out + "]\n"
