"""C13 implementation runner: classes generated from sample XML / JSON documents.

stdin : {"sets": [ {"kind": "xml"|"json",
                    "src": python source of the HIDDEN model (genmodels.render_source) or None,
                    "instances": [recipe, ...]          (genmodels recipes; with "src")
                    "samples": [text, ...]              (instead of src/instances: literal sample documents)
                    "ser": {"indent": str|None, "ns_map": [[prefix|None, uri]...] | None, "as_list": bool},
                    "package": dotted package name (JSON: the last part names the root class),
                    "options": codegen_run options } ... ]}
stdout: [ per set
  {"samples": [text...],                      the documents handed to the generator (hidden model DISCARDED after this)
   "trees":   [generic tree...]               XML: the AnyElement tree the real TreeParser built; JSON: the json value
   "mapped":  [[class view...]...]            per sample: ElementMapper.map / DictMapper.map output (flattened)
   "reduced": [class view...]                 ClassUtils.reduce_classes over all of them
   "tests":   {value: [bool per explicit type]}     converter.test(value, [tp], strict=True) for every distinct leaf text
   "gen":     {"status","stage","error"}      the REAL pipeline on the same samples (codegen_run.CodegenRun)
   "root":    class name or None
   "meta":    [binding metadata view of every generated class] (real XmlContext.build)
   "docs":    [{"ok": serialized text, "warnings": [...]} | {"err": type, "msg": text, "warnings": [...]}]
  }]
Run with PYTHONPATH=$XSDATA_REPO:/verif/shims.
"""
import copy
import io
import itertools
import json
import os
import sys
import warnings

sys.path.insert(0, os.path.dirname(os.path.abspath(__file__)))
import codegen_run as CR  # noqa: E402
import genmodels as GM  # noqa: E402

MAXSIZE = sys.maxsize
_ctr = itertools.count()
STRICT = dict(fail_on_unknown_properties=True, fail_on_unknown_attributes=True, fail_on_converter_warnings=True)


# ------------------------------------------------------------------ views
def occ(v):
    if v is None:
        return None
    return "inf" if v >= MAXSIZE else v


def attr_view(a):
    r = a.restrictions
    return {"name": a.name, "local_name": a.local_name, "tag": a.tag, "namespace": a.namespace, "index": a.index,
            "min": occ(r.min_occurs), "max": occ(r.max_occurs), "sequence": r.sequence,
            "path": [[p[0], p[1], occ(p[2]), occ(p[3])] for p in r.path], "nillable": r.nillable,
            "types": [{"qname": t.qname, "native": bool(t.native), "forward": bool(t.forward)} for t in a.types]}


def class_view(c):
    return {"qname": c.qname, "tag": c.tag, "namespace": c.namespace, "mixed": bool(c.mixed), "nillable": bool(c.nillable),
            "location": c.location, "attrs": [attr_view(a) for a in c.attrs], "inner": [class_view(i) for i in c.inner]}


def tree_view(el):
    from xsdata.formats.dataclass.models.generics import AnyElement
    kids = []
    for c in el.children:
        if isinstance(c, AnyElement):
            kids.append(tree_view(c))
        else:
            kids.append({"other": repr(c)})
    return {"qname": el.qname, "text": el.text, "tail": el.tail, "attributes": [[k, v] for k, v in el.attributes.items()],
            "children": kids}


def leaf_values_xml(el, out):
    for k, v in el["attributes"]:
        out.add(v)
    if el["text"]:
        out.add(el["text"])
    for c in el["children"]:
        if "qname" in c:
            leaf_values_xml(c, out)


def leaf_values_json(v, out):
    if isinstance(v, dict):
        for x in v.values():
            leaf_values_json(x, out)
    elif isinstance(v, list):
        for x in v:
            leaf_values_json(x, out)
    elif isinstance(v, str):
        out.add(v)


def strict_tests(values):
    """converter.test(value, [tp], strict=True) and (..., strict=False) for tp in converter.explicit_types()."""
    from xsdata.formats.converter import converter
    tps = converter.explicit_types()
    out = {}
    for v in sorted(values):
        if v == "":
            continue
        strict, lax = [], []
        for tp in tps:
            with warnings.catch_warnings():
                warnings.simplefilter("ignore")
                strict.append(bool(converter.test(v, [tp], strict=True)))
                lax.append(bool(converter.test(v, [tp])))
        out[v] = {"strict": strict, "lax": lax}
    return out


def kind_of(v):
    for k in ("attribute", "attributes", "element", "elements", "text", "wildcard"):
        if getattr(v, "is_" + k):
            return k
    return "?"


def type_name(t):
    return getattr(t, "__name__", None) or repr(t)


def type_view(t):
    import dataclasses
    return {"name": type_name(t), "dc": bool(isinstance(t, type) and dataclasses.is_dataclass(t)),
            "qual": getattr(t, "__qualname__", None) or repr(t)}


def var_view(v):
    d = {"name": v.name, "qname": v.qname, "index": v.index, "kind": kind_of(v), "list": bool(v.list_element),
         "tokens": bool(v.tokens), "required": bool(v.required), "init": bool(v.init), "mixed": bool(v.mixed),
         "nillable": bool(v.nillable), "namespaces": sorted(x or "" for x in (v.namespaces or ())), "sequence": v.sequence,
         "types": [type_view(t) for t in v.types], "clazz": type_view(v.clazz)["qual"] if v.clazz else None,
         "any_type": bool(v.any_type), "local_name": v.local_name}
    dv = v.default() if callable(v.default) else v.default
    if isinstance(dv, (list, tuple, dict)):
        dv = None
    d["default"] = None if dv is None else str(dv)
    d["enum"] = None
    d["choices"] = [{"qname": c.qname, "list": bool(c.list_element), "index": c.index, "wild": bool(c.is_wildcard),
                     "types": [type_view(t) for t in c.types]}
                    for c in v.elements.values()] + [{"qname": None, "list": bool(c.list_element), "index": c.index,
                                                     "wild": True, "types": []} for c in v.wildcards]
    return d


def field_has_default(clazz, name):
    import dataclasses
    for fl in dataclasses.fields(clazz):
        if fl.name == name:
            return not (fl.default is dataclasses.MISSING and fl.default_factory is dataclasses.MISSING) or not fl.init
    return True


def meta_view(clazz, parent_ns):
    """Binding metadata of `clazz` as the parser fetches it below an element whose class namespace is
    `parent_ns` (ElementNode.build_element_node: context.fetch(clazz, self.meta.namespace)); a fresh context
    per build, so that the answer does not depend on the cache (that is property C14's subject)."""
    from xsdata.formats.dataclass.context import XmlContext
    m = XmlContext().build(clazz, parent_ns)
    evars, avars = [], []
    for v in m.get_element_vars():
        d = var_view(v)
        d["py_required"] = not field_has_default(clazz, v.name)
        evars.append(d)
    for v in m.get_attribute_vars():
        d = var_view(v)
        d["py_required"] = not field_has_default(clazz, v.name)
        avars.append(d)
    return {"qname": m.qname, "class": clazz.__qualname__, "parent_ns": parent_ns, "namespace": m.namespace,
            "target_qname": m.target_qname, "nillable": bool(m.nillable),
            "mixed_content": bool(m.mixed_content), "elements": evars, "attributes": avars}, m


def reachable_metas(root):
    """[(view)] for every (dataclass, parent namespace) pair the parser can reach from the root class; each
    element var view gets "targets": indices of the metadata of its dataclass types under this class's namespace."""
    import dataclasses
    out, index, todo = [], {}, [(root, None)]
    index[(root.__qualname__, None)] = 0
    out.append(None)
    while todo:
        clazz, pns = todo.pop(0)
        view, m = meta_view(clazz, pns)
        out[index[(clazz.__qualname__, pns)]] = view
        for d, v in zip(view["elements"], m.get_element_vars()):
            d["targets"] = []
            for t in v.types:
                if isinstance(t, type) and dataclasses.is_dataclass(t):
                    key = (t.__qualname__, m.namespace)
                    if key not in index:
                        index[key] = len(out)
                        out.append(None)
                        todo.append((t, m.namespace))
                    d["targets"].append(index[key])
    return out


# ------------------------------------------------------------------ hidden model -> samples
def render_samples(s):
    from xsdata.formats.dataclass.context import XmlContext
    from xsdata.formats.dataclass.serializers import JsonSerializer, XmlSerializer
    from xsdata.formats.dataclass.serializers.config import SerializerConfig

    if s.get("samples") is not None:
        return list(s["samples"])
    name = f"c13hidden_{next(_ctr)}"
    mod = GM.load_module(s["src"], name=name)
    try:
        objs = [GM.build_instance(mod.__dict__, rec) for rec in s["instances"]]
        ser = s.get("ser") or {}
        cfg = SerializerConfig(indent=ser.get("indent"))
        ctx = XmlContext()
        if s["kind"] == "xml":
            ns_map = {k: v for k, v in ser["ns_map"]} if ser.get("ns_map") else None
            x = XmlSerializer(context=ctx, config=cfg)
            return [x.render(o, ns_map=dict(ns_map) if ns_map else None) for o in objs]
        j = JsonSerializer(context=ctx, config=cfg)
        if ser.get("as_list"):
            return [j.render(objs)]
        return [j.render(o) for o in objs]
    finally:
        sys.modules.pop(name, None)     # the hidden model is discarded


# ------------------------------------------------------------------ one set
def find_root(run, s, trees):
    """The generated class the samples' root element binds to."""
    from xsdata.formats.dataclass.context import XmlContext
    pcs = [(m, q, c) for m, q, c in run.python_classes() if "." not in q]
    import dataclasses
    ctx = XmlContext()
    if s["kind"] == "json":
        want = s["package"].split(".")[-1]
    else:
        want = trees[0]["qname"]
    for m, q, c in pcs:
        if not dataclasses.is_dataclass(c):
            continue
        meta = ctx.build(c)
        if meta.qname == want:
            return c
    return None


def all_dataclasses(run):
    import dataclasses
    return [c for m, q, c in run.python_classes() if dataclasses.is_dataclass(c)]


def run_set(s):
    from xsdata.codegen.mappers import DictMapper, ElementMapper
    from xsdata.codegen.utils import ClassUtils
    from xsdata.formats.dataclass.context import XmlContext
    from xsdata.formats.dataclass.parsers import JsonParser, TreeParser, XmlParser
    from xsdata.formats.dataclass.parsers.config import ParserConfig
    from xsdata.formats.dataclass.serializers import JsonSerializer, XmlSerializer

    out = {}
    kind = s["kind"]
    try:
        samples = render_samples(s)
    except Exception as e:  # noqa
        import traceback
        return {"hidden_error": f"{type(e).__name__}: {e}", "tb": traceback.format_exc()[-1500:]}
    out["samples"] = samples
    pkg = s.get("package") or "gen.doc"

    # ---- the mappers, step by step (input of the Coq model and what it is compared with)
    mapped, trees, values = [], [], set()
    allc = []
    try:
        if kind == "xml":
            tp = TreeParser()
            for txt in samples:
                el = tp.from_bytes(txt.encode("utf-8"))
                tv = tree_view(el)
                trees.append(tv)
                leaf_values_xml(tv, values)
                cl = ElementMapper.map(el, "loc")
                mapped.append([class_view(c) for c in cl])
                allc.extend(cl)
        else:
            name = pkg.split(".")[-1]
            for txt in samples:
                data = json.load(io.BytesIO(txt.encode("utf-8")))
                trees.append(data)
                leaf_values_json(data, values)
                objs = [data] if isinstance(data, dict) else data
                cl = []
                for o in objs:
                    cl.extend(DictMapper.map(o, name, "loc"))
                mapped.append([class_view(c) for c in cl])
                allc.extend(cl)
        out["trees"], out["mapped"] = trees, mapped
        out["reduced"] = [class_view(c) for c in ClassUtils.reduce_classes(copy.deepcopy(allc))]
        out["tests"] = strict_tests(values)
    except Exception as e:  # noqa
        import traceback
        out["mapper_error"] = {"type": type(e).__name__, "msg": str(e)[:300], "tb": traceback.format_exc()[-1500:]}

    # ---- the real pipeline on the same documents
    ext = "xml" if kind == "xml" else "json"
    sources = {f"s{i}.{ext}": t for i, t in enumerate(samples)}
    options = dict(s.get("options") or {})
    options["package"] = pkg
    docs, metas = [], []
    with CR.CodegenRun(sources, options, timeout=60) as run:
        r = run.result
        out["gen"] = {"status": r["status"], "stage": r["stage"],
                      "error": None if not r["error"] else {k: r["error"][k] for k in ("type", "message", "where")},
                      "warnings": r["warnings"][:5], "log": r["log"][:5]}
        if s.get("want_source"):
            run.fill(("source",))
            out["source"] = [m.get("source") for m in r.get("modules", [])]
        root = None
        if r["status"] == "ok" and run._trace["import_ok"]:
            try:
                root = find_root(run, s, trees)
                if root is not None:
                    metas = reachable_metas(root)
            except Exception as e:  # noqa
                import traceback
                out["gen"]["status"] = "bind_error"
                out["gen"]["error"] = {"type": type(e).__name__, "message": str(e)[:300], "where": traceback.format_exc()[-800:]}
                root = None
        out["root"] = root.__qualname__ if root is not None else None
        out["meta"] = metas
        if root is not None:
            ctx = XmlContext()
            for txt in samples:
                with warnings.catch_warnings(record=True) as caught:
                    warnings.simplefilter("always")
                    try:
                        if kind == "xml":
                            obj = XmlParser(context=ctx, config=ParserConfig(**STRICT)).from_string(txt, root)
                            res = {"ok": XmlSerializer(context=ctx).render(obj)}
                        else:
                            data = json.loads(txt)
                            clazz = list[root] if isinstance(data, list) else root
                            obj = JsonParser(context=ctx, config=ParserConfig(**STRICT)).from_string(txt, clazz)
                            res = {"ok": JsonSerializer(context=ctx).render(obj)}
                    except Exception as e:  # noqa
                        res = {"err": type(e).__name__, "msg": str(e)[:300]}
                res["warnings"] = [f"{type(w.message).__name__}: {w.message}"[:200] for w in caught]
                docs.append(res)
        out["docs"] = docs
    return out


def main():
    req = json.load(sys.stdin)
    real_stdout = sys.stdout
    sys.stdout = sys.stderr
    out = []
    for s in req["sets"]:
        try:
            out.append(run_set(s))
        except Exception as e:  # noqa
            import traceback
            out.append({"harness_error": f"{type(e).__name__}: {e}", "tb": traceback.format_exc()[-2500:]})
    sys.stdout = real_stdout
    json.dump(out, sys.stdout, default=str)


main()
