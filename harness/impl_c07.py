"""Runs the naming code of xsdata (text.py, Filters, rename handlers) on a batch of
operations: JSON stdin -> JSON stdout.  PYTHONPATH=$XSDATA_REPO:/verif/shims."""
import json
import sys

sys.setrecursionlimit(400)  # Filters.safe_name recursion: 400 is "forever" for the model (needs <= 12)

from xsdata.codegen.container import ClassContainer  # noqa: E402
from xsdata.codegen.handlers import RenameDuplicateClasses  # noqa: E402
from xsdata.codegen.models import Attr, Class  # noqa: E402
from xsdata.codegen.utils import ClassUtils  # noqa: E402
from xsdata.formats.dataclass.filters import Filters  # noqa: E402
from xsdata.models.config import GeneratorConfig, NameCase, StructureStyle  # noqa: E402
from xsdata.utils import namespaces, text  # noqa: E402

TEXT_FUNCS = {
    "split_words": text.split_words, "alnum": text.alnum, "snake_case": text.snake_case,
    "pascal_case": text.pascal_case, "camel_case": text.camel_case, "mixed_case": text.mixed_case,
    "mixed_snake_case": text.mixed_snake_case, "mixed_pascal_case": text.mixed_pascal_case,
    "screaming_snake_case": text.screaming_snake_case, "kebab_case": text.kebab_case,
    "original_case": text.original_case, "capitalize": text.capitalize, "clean_uri": namespaces.clean_uri,
    "is_reserved": text.is_reserved, "title": str.title, "isidentifier": str.isidentifier,
}
_filters = {}


def filters_for(conv):
    key = json.dumps(conv, sort_keys=True)
    if key not in _filters:
        cfg = GeneratorConfig()
        for k, (case, prefix) in conv.items():
            nc = getattr(cfg.conventions, k)
            nc.case = NameCase(case)
            nc.safe_prefix = prefix
        _filters[key] = Filters(cfg)
    return _filters[key]


def run(op):
    k = op["op"]
    try:
        if k == "text":
            r = TEXT_FUNCS[op["fn"]](op["s"])
            return {"ok": r}
        if k == "classify":
            return {"ok": text.classify(op["c"])}
        if k == "safe_name":
            f = filters_for({})
            return {"ok": f.safe_name(op["name"], op["prefix"], NameCase(op["case"]), class_name="C")}
        if k == "filter":
            f = filters_for(op["conv"])
            fn = op["fn"]
            if fn in ("field_name", "constant_name"):
                return {"ok": getattr(f, fn)(op["name"], "C")}
            return {"ok": getattr(f, fn)(op["name"])}
        if k == "filters_init":
            from xsdata.codegen.exceptions import CodegenError
            cfg = GeneratorConfig()
            for key, (case, prefix) in op["conv"].items():
                nc = getattr(cfg.conventions, key)
                nc.case = NameCase(case)
                nc.safe_prefix = prefix
            try:
                Filters(cfg)
                return {"ok": True}
            except CodegenError:
                return {"ok": False}
        if k == "unique_name":
            return {"ok": ClassUtils.unique_name(op["name"], set(op["reserved"]))}
        if k == "rename_attrs":
            attrs = [Attr(tag=a["tag"], name=a["name"], namespace=a["ns"]) for a in op["attrs"]]
            init = [a.name for a in attrs]
            target = Class(qname="{urn:x}T", tag="ComplexType", location="x", attrs=attrs)
            ClassUtils.rename_duplicate_attributes(target)
            f = filters_for(op.get("conv", {}))
            return {"ok": [a.name for a in target.attrs], "init": init,
                    "fields": [f.constant_name(a.name, "T") if a.is_enumeration else f.field_name(a.name, "T")
                               for a in target.attrs],
                    "enum": target.is_enumeration}
        if k == "rename_classes":
            cfg = GeneratorConfig()
            cfg.output.structure_style = StructureStyle(op["style"])
            container = ClassContainer(cfg)
            classes = []
            for c in op["classes"]:
                qn = namespaces.build_qname(c["ns"], c["name"])
                classes.append(Class(qname=qn, tag="Element" if c["element"] else "ComplexType", abstract=c["abstract"],
                                     location=c["loc"]))
            container.extend(classes)
            # the handler sees the classes in the container's iteration order (buckets per qname)
            ordered = list(container)
            order = [next(i for i, c in enumerate(classes) if c is o) for o in ordered]
            h = RenameDuplicateClasses(container)
            use_names = h.use_names
            h.run()
            f = filters_for(op.get("conv", {}))
            return {"ok": [c.name for c in ordered], "qnames": [c.qname for c in ordered], "order": order, "use_names": use_names,
                    "class_names": [f.class_name(c.name) for c in ordered]}
        raise KeyError(k)
    except RecursionError:
        return {"err": "RecursionError"}
    except Exception as e:  # noqa
        return {"err": type(e).__name__, "msg": str(e)[:200]}


def main():
    ops = json.load(sys.stdin)
    json.dump([run(op) for op in ops], sys.stdout)


main()
