"""C12 implementation side: runs xsdata's order-sensitive cores and the real generation
pipeline on a batch of operations (JSON stdin -> JSON stdout).

Started by common.run_impl(..., with_shims=True, hashseed=<seed>): PYTHONHASHSEED is the
quantity under test.  Everything order-related that the model needs as an *oracle*
(the iteration order of set(edges), of list(set(deps)), of Attr.native_types) is exported
by re-evaluating the very same expression in the same process.
"""
import io
import json
import os
import re
import sys

HERE = os.path.dirname(os.path.abspath(__file__))
sys.path.insert(0, HERE)


def exc(e):
    return {"err": type(e).__name__, "msg": str(e)[:300]}


# ------------------------------------------------------------------ synthetic containers
def mk_classes(specs, style="clusters", package="gen"):
    """specs: [{"qname", "deps": [[qname, kind]], "ext": [qname...]}]; kind in plain|circular|forward|native"""
    from xsdata.codegen.container import ClassContainer
    from xsdata.codegen.models import Attr, AttrType, Class, Extension, Restrictions
    from xsdata.models.config import GeneratorConfig, StructureStyle
    from xsdata.models.enums import Tag

    cfg = GeneratorConfig()
    cfg.output.structure_style = StructureStyle(style)
    cfg.output.package = package
    classes = []
    for sp in specs:
        attrs = []
        for i, (dq, kind) in enumerate(sp.get("deps", [])):
            tp = AttrType(qname=dq, native=(kind == "native"), circular=(kind == "circular"), forward=(kind == "forward"))
            attrs.append(Attr(tag=Tag.ELEMENT, name="a%d" % i, local_name="a%d" % i, index=i, types=[tp]))
        exts = [Extension(tag=Tag.EXTENSION, type=AttrType(qname=q), restrictions=Restrictions()) for q in sp.get("ext", [])]
        classes.append(Class(qname=sp["qname"], tag=Tag.COMPLEX_TYPE, location=sp.get("location", "file:///s.xsd"),
                             attrs=attrs, extensions=exts))
    container = ClassContainer(config=cfg)
    container.extend(classes)
    return container


def op_scc(op):
    from xsdata.utils.graphs import strongly_connected_components

    edges = {k: list(v) for k, v in op["edges"]}
    vorder = list(set(edges))
    try:
        comps = [sorted(c) for c in strongly_connected_components(edges)]
        return {"vorder": vorder, "comps": comps}
    except Exception as e:  # noqa
        return dict(exc(e), vorder=vorder)


def op_topo(op):
    from toposort import toposort_flatten

    data = {k: set(v) for k, v in op["data"]}
    try:
        return {"ok": toposort_flatten(data)}
    except Exception as e:  # noqa
        return exc(e)


def op_clusters(op):
    """DesignateClassPackages on a synthetic container (structure style clusters)."""
    from xsdata.codegen.handlers import DesignateClassPackages
    from xsdata.utils.graphs import strongly_connected_components
    from xsdata.utils.namespaces import local_name

    container = mk_classes(op["classes"], op.get("style", "clusters"))
    handler = DesignateClassPackages(container)
    # exactly the expressions of strongly_connected_classes / strongly_connected_components
    edges = {obj.qname: list(set(obj.dependencies(True))) for obj in container}
    vorder = list(set(edges))
    out = {"E": [[k, v] for k, v in edges.items()], "vorder": vorder,
           "D": [[obj.qname, list(obj.dependencies())] for obj in container],
           "names": [[obj.qname, local_name(obj.qname)] for obj in container]}
    try:
        out["comps"] = [sorted(c) for c in strongly_connected_components(edges)]
    except Exception as e:  # noqa
        out["comps_err"] = exc(e)
    if "sort_group" in op:
        try:
            out["sorted_group"] = [c.qname for c in handler.sort_classes(set(op["sort_group"]))]
        except Exception as e:  # noqa
            out["sorted_group_err"] = exc(e)
    try:
        handler.run()
        out["modules"] = [[obj.qname, obj.module, obj.package] for obj in container]
    except Exception as e:  # noqa
        out["run_err"] = exc(e)
    return out


def op_class_list(op):
    from xsdata.codegen.resolver import DependenciesResolver

    container = mk_classes(op["classes"])
    classes = list(container)
    out = {"D": [[obj.qname, list(obj.dependencies())] for obj in classes]}
    try:
        out["ok"] = DependenciesResolver.create_class_list(classes)
    except Exception as e:  # noqa
        out.update(exc(e))
    return out


TYPE_QNAME = {"str": "string", "bool": "boolean", "Decimal": "decimal", "float": "float", "XmlDuration": "duration",
              "XmlDateTime": "dateTime", "XmlTime": "time", "XmlDate": "date", "XmlPeriod": "gYear", "bytes": "hexBinary",
              "QName": "QName", "int": "int", "object": "anyType"}


def op_types(op):
    from xsdata.codegen.models import Attr, AttrType
    from xsdata.formats.converter import converter
    from xsdata.models.enums import Tag

    xs = "{http://www.w3.org/2001/XMLSchema}"
    types = [AttrType(qname=xs + TYPE_QNAME[t], native=True) for t in op["types"]]
    attr = Attr(tag=Tag.ELEMENT, name="a", types=types)
    native = attr.native_types
    again = attr.native_types
    return {"native": [t.__name__ for t in native], "sorted": [t.__name__ for t in converter.sort_types(native)],
            "stable": [t.__name__ for t in again] == [t.__name__ for t in native]}


def op_sort_types_direct(op):
    """converter.sort_types on an explicit order (replay of the tie witness)."""
    import datetime
    import decimal
    from xml.etree.ElementTree import QName

    from xsdata.formats.converter import converter
    from xsdata.models import datatype as dt

    env = {"str": str, "bool": bool, "Decimal": decimal.Decimal, "float": float, "int": int, "bytes": bytes, "object": object,
           "QName": QName, "XmlDuration": dt.XmlDuration, "XmlDateTime": dt.XmlDateTime, "XmlTime": dt.XmlTime,
           "XmlDate": dt.XmlDate, "XmlPeriod": dt.XmlPeriod, "datetime": datetime.datetime, "date": datetime.date,
           "time": datetime.time}
    return {"sorted": [t.__name__ for t in converter.sort_types([env[t] for t in op["order"]])]}


def op_reset(op):
    from xsdata.codegen.container import ClassContainer
    from xsdata.codegen.handlers import ResetAttributeSequenceNumbers
    from xsdata.codegen.models import Attr, AttrType, Class, Extension, Restrictions
    from xsdata.models.config import GeneratorConfig
    from xsdata.models.enums import Tag

    def attrs_of(seqs, prefix):
        return [Attr(tag=Tag.ELEMENT, name="%s%d" % (prefix, i), local_name="%s%d" % (prefix, i), index=i,
                     types=[AttrType(qname="{http://www.w3.org/2001/XMLSchema}string", native=True)],
                     restrictions=Restrictions(sequence=s)) for i, s in enumerate(seqs)]

    container = ClassContainer(config=GeneratorConfig())
    exts = []
    if op.get("base") is not None:
        parent = Class(qname="{urn:x}P", tag=Tag.COMPLEX_TYPE, location="file:///s.xsd", attrs=attrs_of(op["base"], "p"))
        container.add(parent)
        exts = [Extension(tag=Tag.EXTENSION, type=AttrType(qname="{urn:x}P"), restrictions=Restrictions())]
    child = Class(qname="{urn:x}C", tag=Tag.COMPLEX_TYPE, location="file:///s.xsd", attrs=attrs_of(op["attrs"], "c"), extensions=exts)
    container.add(child)
    try:
        ResetAttributeSequenceNumbers(container).process(child)
        return {"ok": [a.restrictions.sequence for a in child.attrs]}
    except Exception as e:  # noqa
        return exc(e)


def op_imports(op):
    from xsdata.codegen.models import Import
    from xsdata.codegen.resolver import DependenciesResolver

    r = DependenciesResolver(registry={})
    r.imports = [Import(qname=q, source=s) for q, s in op["imports"]]
    return {"ok": [[i.qname, i.name] for i in r.sorted_imports()], "names": [[i.qname, i.name] for i in r.imports]}


def op_resolver(op):
    """The real DependenciesResolver.process on the classes of one module of a synthetic container."""
    from xsdata.codegen.resolver import DependenciesResolver
    from xsdata.utils.namespaces import local_name

    container = mk_classes(op["classes"])
    classes = list(container)
    registry = {obj.qname: "gen." + obj.qname.split("}")[0][5:].replace(":", ".") for obj in classes}
    module = [obj for obj in classes if obj.qname in set(op["module"])]
    out = {"D": [[obj.qname, list(obj.dependencies())] for obj in module], "module": [obj.qname for obj in module],
           "names": [[obj.qname, local_name(obj.qname)] for obj in classes]}
    r = DependenciesResolver(registry=registry)
    try:
        r.process(module)
        out["class_list"] = list(r.class_list)
        out["imports"] = [i.qname for i in r.imports]
        out["sorted"] = [[i.qname, i.name] for i in r.sorted_imports()]
        out["aliases"] = [[i.qname, i.source, i.alias] for i in r.sorted_imports()]
    except Exception as e:  # noqa
        out.update(exc(e))
    return out


# ------------------------------------------------------------------ the real pipeline
_IDKEYS = ("choice", "group")


def canon_classes(classes):
    """Replace id()-derived numbers by first-occurrence ordinals, per class (the scope in
    which the generator compares them).  A non-injective id assignment stays non-injective."""

    def walk_class(c, table):
        def lab(v):
            if v is None or isinstance(v, bool) or not isinstance(v, int) or abs(v) < 100000:
                return v
            return table.setdefault(v, "id%d" % len(table))

        def res(r):
            r = dict(r)
            for k in _IDKEYS:
                r[k] = lab(r.get(k))
            r["sequence"] = lab(r.get("sequence"))
            r["path"] = [[p[0], lab(p[1]), p[2], p[3]] for p in r.get("path", [])]
            return r

        def attr(a):
            a = dict(a)
            a["restrictions"] = res(a["restrictions"])
            a["choices"] = [attr(x) for x in a["choices"]]
            return a

        c = dict(c)
        c["attrs"] = [attr(a) for a in c["attrs"]]
        c["extensions"] = [dict(e, restrictions=res(e["restrictions"])) for e in c["extensions"]]
        c["inner"] = [walk_class(i, table) for i in c["inner"]]
        return c

    return [walk_class(c, {}) for c in classes]


class _FakeTemplate:
    """Stands in for a Jinja template: returns its arguments, serialised.  Lets the REAL
    DataclassGenerator.render_package / render_module / render_classes run (the shared harness
    overrides them with the stand-in renderer, so their own sorting/grouping logic would
    otherwise go unexercised)."""

    def __init__(self, name):
        self.name = name

    def render(self, **kw):
        def ser(v):
            from xsdata.codegen.models import Class, Import
            if isinstance(v, Import):
                return [v.qname, v.source, v.alias]
            if isinstance(v, Class):
                return v.qname
            if isinstance(v, (list, tuple)):
                return [ser(x) for x in v]
            if v is None or isinstance(v, (str, int, bool)):
                return v
            return repr(v)

        return json.dumps({"template": self.name, "args": {k: ser(v) for k, v in kw.items()}}, sort_keys=True)


class _FakeEnv:
    def get_template(self, name):
        return _FakeTemplate(name)


def real_render(run):
    """The arguments the real generator methods hand to the templates, per package / module."""
    from pathlib import Path

    from xsdata.codegen.resolver import DependenciesResolver
    from xsdata.formats.dataclass.generator import DataclassGenerator

    gen, classes = run.generator, run.classes
    if gen is None or classes is None:
        return None
    old_env, old_cwd = gen.env, os.getcwd()
    out = {}
    try:
        os.chdir(run.out_dir)
        gen.env = _FakeEnv()
        resolver = DependenciesResolver(registry={obj.qname: obj.target_module for obj in classes})
        for path, cluster in gen.group_by_package(classes).items():
            module = ".".join(path.relative_to(Path.cwd()).parts)
            out["package " + module] = DataclassGenerator.render_package(gen, cluster, module)
        for path, cluster in gen.group_by_module(classes).items():
            out["module " + str(path.relative_to(Path.cwd()))] = DataclassGenerator.render_module(gen, resolver, cluster)
    except Exception as e:  # noqa
        out["error"] = exc(e)
    finally:
        gen.env = old_env
        os.chdir(old_cwd)
    return out


def op_pipeline(op):
    """One generation through the real pipeline; returns every written file's bytes (as
    text), the stand-in sources, the file list and the canonicalised class dump."""
    from codegen_run import CodegenRun

    options = dict(op.get("options") or {})
    cache = op.get("cache")
    with CodegenRun(op["sources"], options, op.get("entry"), op.get("timeout", 60)) as run:
        res = run.fill(("classes", "source"))
        files = {}
        for rel in res.get("files", []):
            try:
                with open(os.path.join(run.out_dir, rel), encoding="utf-8") as f:
                    files[rel] = f.read()
            except Exception as e:  # noqa
                files[rel] = "<unreadable: %r>" % (e,)
        real = real_render(run) if res["status"] == "ok" else None
    err = res.get("error")
    out = {"id": op.get("id"), "status": res["status"], "stage": res["stage"],
           "error": None if err is None else {"type": err["type"], "message": err["message"], "where": err["where"]},
           "warnings": res.get("warnings"), "log": res.get("log"),
           "files": files, "file_list": sorted(files),
           "modules": {m["path"]: m.get("source") for m in res.get("modules", [])},
           "packages": {m["path"]: m.get("source") for m in res.get("packages", [])},
           "real_render": real}
    if op.get("raw_classes"):
        out["raw_classes"] = res.get("classes")
    out["classes"] = canon_classes(res.get("classes") or [])
    del cache
    return out


# ------------------------------------------------------------------ invocation routes (API / project file / CLI flags)
def install_click():
    """click is absent.  Extend the shim module IN THIS PROCESS with the decorator API that xsdata/cli.py and
    xsdata/utils/click.py use, so that the REAL command declarations (model_options(GeneratorOutput): option names,
    flag pairs, destinations, types, EnumChoice) and the REAL body of cli.generate run.  What is a stand-in (modelled, not
    verified) is click's own argv parsing, re-implemented below for the option kinds the xsdata CLI declares."""
    import click

    if hasattr(click, "_xv_installed"):
        return click

    class ParamType:
        name = "param"

        def convert(self, value, param=None, ctx=None):
            return value

        def fail(self, message, param=None, ctx=None):
            raise click.ClickException(message)

    class Choice(ParamType):
        def __init__(self, choices, case_sensitive=True):
            self.choices = list(choices)

        def convert(self, value, param=None, ctx=None):
            if value not in self.choices:
                raise click.ClickException("invalid choice: %s" % (value,))
            return value

    class Path(ParamType):
        def __init__(self, **kw):
            pass

    class Param:
        def __init__(self, kind, names, **kw):
            self.kind, self.decls, self.kw = kind, list(names), kw
            self.is_flag = bool(kw.get("is_flag"))
            self.type = kw.get("type")
            self.default = kw.get("default")
            plain = [n for n in names if not n.startswith("-")]
            longs = [n for n in names if n.startswith("--")]
            self.on, self.off = [], []
            for n in names:
                if not n.startswith("-"):
                    continue
                if "/" in n:
                    a, b = n.split("/", 1)
                    self.on.append(a)
                    self.off.append(b)
                else:
                    self.on.append(n)
            if kind == "argument":
                self.dest = names[0]
            elif plain:
                self.dest = plain[-1]
            else:
                self.dest = longs[0].split("/")[0].lstrip("-").replace("-", "_")

    class Context:
        def __init__(self):
            self.closers = []

        def call_on_close(self, f):
            self.closers.append(f)
            return f

    class Command:
        def __init__(self, name, callback):
            self.name, self.callback = name, callback
            self.params = list(reversed(getattr(callback, "__click_params__", [])))

        def parse(self, argv):
            values = {p.dest: (False if (p.is_flag and p.default is None and not p.off and p.kind == "option" and p.kw.get("default", None) is False) else p.default)
                      for p in self.params}
            positional = [p for p in self.params if p.kind == "argument"]
            argv = list(argv)
            while argv:
                a = argv.pop(0)
                if a.startswith("-") and a != "-":
                    if "=" in a and a.startswith("--"):
                        a, v = a.split("=", 1)
                        argv.insert(0, v)
                    hit = None
                    for p in self.params:
                        if p.kind != "option":
                            continue
                        if a in p.on:
                            hit = (p, True)
                        elif a in p.off:
                            hit = (p, False)
                    if hit is None:
                        raise click.ClickException("No such option: " + a)
                    p, on = hit
                    if p.is_flag:
                        values[p.dest] = on
                    else:
                        if not argv:
                            raise click.ClickException("Option %s requires an argument" % a)
                        raw = argv.pop(0)
                        t = p.type
                        if isinstance(t, ParamType):
                            values[p.dest] = t.convert(raw, p, None)
                        elif t is None:
                            values[p.dest] = raw
                        else:
                            values[p.dest] = t(raw)
                else:
                    if not positional:
                        raise click.ClickException("Got unexpected extra argument (%s)" % a)
                    values[positional.pop(0).dest] = a
            for p in positional:
                if p.kw.get("required") and values.get(p.dest) is None:
                    raise click.ClickException("Missing argument " + p.dest)
            return values

        def main(self, argv):
            return self.callback(**self.parse(argv))

        __call__ = main

    class Group(Command):
        def __init__(self, name, callback):
            super().__init__(name, callback)
            self.commands = {}

        def command(self, name=None, **kw):
            def deco(f):
                cmd = Command(name or f.__name__, f)
                self.commands[cmd.name] = cmd
                return cmd
            return deco

    def _param(kind):
        def maker(*names, **kw):
            def deco(f):
                target = f.callback if isinstance(f, Command) else f
                lst = getattr(target, "__click_params__", None)
                if lst is None:
                    lst = []
                    target.__click_params__ = lst
                lst.append(Param(kind, names, **kw))
                if isinstance(f, Command):
                    f.params = list(reversed(lst))
                return f
            return deco
        return maker

    def group(name=None, **kw):
        def deco(f):
            return Group(name or f.__name__, f)
        return deco

    def passthrough(*a, **kw):
        def deco(f):
            return f
        return deco

    click.ParamType, click.Choice, click.Path = ParamType, Choice, Path
    click.Command, click.Context, click.Parameter, click.Group = Command, Context, Param, Group
    click.option, click.argument = _param("option"), _param("argument")
    click.group, click.version_option = group, passthrough
    click.pass_context = lambda f: f
    click.command = lambda name=None, **kw: (lambda f: Command(name or f.__name__, f))
    click._xv_installed = True
    return click


def plain_config(x):
    import dataclasses
    if dataclasses.is_dataclass(x):
        return {f.name: plain_config(getattr(x, f.name)) for f in dataclasses.fields(x) if f.init}
    if isinstance(x, (list, tuple)):
        return [plain_config(v) for v in x]
    if hasattr(x, "value") and x.__class__.__module__.startswith("xsdata"):
        return x.value
    if isinstance(x, re.Pattern):
        return x.pattern
    return x


_ENUM_KEYS = {"structure_style": "StructureStyle", "docstring_style": "DocstringStyle"}


def _conv(key, value):
    from xsdata.models import config as C
    leaf = key.split(".")[-1]
    return getattr(C, _ENUM_KEYS[leaf])(value) if leaf in _ENUM_KEYS else value


def api_config(options):
    """Programmatic route: the configuration objects are built with their constructors."""
    from xsdata.models import config as C
    top, fmt, cf = {}, {}, {}
    for k, v in options.items():
        if k.startswith("format."):
            fmt[k[7:]] = v
        elif k.startswith("compound_fields."):
            cf[k[16:]] = v
        else:
            top[k] = _conv(k, v)
    if fmt:
        top["format"] = C.OutputFormat(**fmt)
    if cf:
        top["compound_fields"] = C.CompoundFields(**cf)
    return C.GeneratorConfig(output=C.GeneratorOutput(**top))


def project_file_text(options):
    """A project file that states exactly these options (written by the real GeneratorConfig.write from an object
    whose attributes were set one by one, i.e. WITHOUT the constructors' conflict resolution)."""
    from xsdata.models import config as C
    cfg = C.GeneratorConfig()
    for k, v in options.items():
        obj = cfg.output
        parts = k.split(".")
        for name in parts[:-1]:
            obj = getattr(obj, name)
        setattr(obj, parts[-1], _conv(k, v))
    buf = io.StringIO()
    C.GeneratorConfig.write(buf, cfg)
    return buf.getvalue()


def read_project_file(text):
    import tempfile
    from pathlib import Path
    from xsdata.models.config import GeneratorConfig
    with tempfile.TemporaryDirectory(prefix="xv_c12_") as d:
        p = Path(d) / ".xsdata.xml"
        p.write_text(text, encoding="utf-8")
        return GeneratorConfig.read(p)


def cli_argv(generate_cmd, options):
    """Command-line spelling of the options, looked up in the REAL option table of `xsdata generate`."""
    argv = []
    for k, v in options.items():
        dest = k.replace(".", "__")
        ps = [p for p in generate_cmd.params if p.kind == "option" and p.dest == dest]
        if len(ps) != 1:
            raise KeyError("xsdata generate has no option for " + k)
        p = ps[0]
        longs = [n for n in p.on if n.startswith("--")] or p.on
        if p.is_flag:
            argv.append(longs[0] if v else [n for n in p.off if n.startswith("--")][0])
        else:
            argv += [longs[0], str(v)]
    return argv


def cli_config(sources, argv, project_xml):
    """Run the REAL xsdata.cli.generate (option declarations, kwargs -> params, GeneratorConfig.read of the project
    file in the cwd, config.output.update, resolve_source) up to the point where it starts the transformer."""
    import contextlib
    import tempfile
    import warnings
    from pathlib import Path

    install_click()
    import xsdata.cli as cli

    captured = {}

    class Capture:
        def __init__(self, config):
            captured["config"] = config

        def process(self, uris, cache=False):
            captured["uris"] = list(uris)

    old_rt, old_cwd = cli.ResourceTransformer, os.getcwd()
    with tempfile.TemporaryDirectory(prefix="xv_c12_cli_") as d:
        proj, src = Path(d) / "proj", Path(d) / "proj" / "schemas"
        src.mkdir(parents=True)
        for name, text in sources.items():
            f = src / name
            f.parent.mkdir(parents=True, exist_ok=True)
            f.write_text(text, encoding="utf-8")
        if project_xml is not None:
            (proj / ".xsdata.xml").write_text(project_xml, encoding="utf-8")
        try:
            os.chdir(proj)
            cli.ResourceTransformer = Capture
            with contextlib.redirect_stdout(io.StringIO()), contextlib.redirect_stderr(io.StringIO()), warnings.catch_warnings():
                warnings.simplefilter("ignore")
                cli.generate.main(["schemas", "--recursive"] + list(argv))
        finally:
            cli.ResourceTransformer = old_rt
            os.chdir(old_cwd)
        base = src.resolve().as_uri() + "/"
        captured["uris"] = [u[len(base):] if u.startswith(base) else u for u in captured.get("uris", [])]
    return captured


def generate_with(config, sources, timeout=60):
    """The real pipeline with a prebuilt configuration object."""
    import copy

    import codegen_run
    from codegen_run import CodegenRun

    old = codegen_run.build_config
    codegen_run.build_config = lambda options, ignored=None: copy.deepcopy(config)
    try:
        with CodegenRun(sources, {}, None, timeout) as run:
            res = run.fill(("source",))
            files = {}
            for rel in res.get("files", []):
                with open(os.path.join(run.out_dir, rel), encoding="utf-8") as f:
                    files[rel] = f.read()
    finally:
        codegen_run.build_config = old
    err = res.get("error")
    return {"status": res["status"], "error_type": None if err is None else err["type"],
            "error": None if err is None else err["message"][:300], "files": files}


def op_routes(op):
    """Same sources, same options, four invocation routes: API objects / project file / CLI flags without a project
    file / project file + CLI flags.  Returns the four configurations and (optionally) the four generation results."""
    install_click()
    import xsdata.cli as cli

    options = op["options"]
    file_keys = [k for k in op.get("file_keys", []) if k in options]
    in_file = {k: options[k] for k in file_keys}
    # a flag may also override a value of the project file
    in_file.update(op.get("file_overridden") or {})
    flags = {k: v for k, v in options.items() if k not in file_keys or k in (op.get("file_overridden") or {})}
    out = {"argv": None, "cfg": {}, "uris": None, "errors": {}}
    cfgs = {}

    def attempt(name, f):
        try:
            cfgs[name] = f()
            out["cfg"][name] = plain_config(cfgs[name])
        except BaseException as e:  # noqa
            out["errors"][name] = exc(e)

    attempt("api", lambda: api_config(options))
    attempt("file", lambda: read_project_file(project_file_text(options)))
    argv_all = cli_argv(cli.generate, options)
    out["argv"] = argv_all

    def via_cli(argv, xml):
        cap = cli_config(op["sources"], argv, xml)
        out["uris"] = cap.get("uris")
        return cap["config"]

    attempt("cli", lambda: via_cli(argv_all, None))
    attempt("cli_file", lambda: via_cli(cli_argv(cli.generate, flags), project_file_text(in_file)))
    out["expected_uris"] = sorted(op["sources"])
    if op.get("generate"):
        out["out"] = {name: generate_with(cfg, op["sources"]) for name, cfg in cfgs.items()}
    return out


# ------------------------------------------------------------------ process-wide mutable state, in-process repetition
def state_fingerprint():
    """Every module-level and class-level dict / list / set of the loaded xsdata.* modules: (kind, size, keys).
    A generation run must not leave anything behind that a later run in the same interpreter could read."""
    import collections

    def summary(v):
        if isinstance(v, dict):
            return ["dict", len(v), sorted(repr(k)[:80] for k in list(v)[:400])]
        if isinstance(v, (set, frozenset)):
            return ["set", len(v), sorted(repr(k)[:80] for k in list(v)[:400])]
        if isinstance(v, (list, collections.deque)):
            return ["list", len(v), []]
        return None

    out = {}
    for mname, mod in sorted(sys.modules.items()):
        if mod is None or not (mname == "xsdata" or mname.startswith("xsdata.")):
            continue
        for k, v in list(vars(mod).items()):
            if k.startswith("__") and k.endswith("__") and not k.startswith("__DataType"):
                continue
            sm = summary(v)
            if sm is not None:
                out[mname + "." + k] = sm
            if isinstance(v, type) and getattr(v, "__module__", None) == mname:
                for ck_, cv in list(vars(v).items()):
                    if ck_.startswith("__") and ck_.endswith("__"):
                        continue
                    sm = summary(cv)
                    if sm is not None:
                        out[mname + "." + v.__qualname__ + "." + ck_] = sm
    return out


def state_diff(a, b):
    out = []
    for k in sorted(set(a) | set(b)):
        x, y = a.get(k), b.get(k)
        if x is None:
            continue  # module imported lazily during the run: no earlier state to compare with
        if y is None or x[:2] != y[:2] or x[2] != y[2]:
            new = sorted(set((y or [0, 0, []])[2]) - set(x[2]))[:6]
            out.append({"where": k, "before": x[:2], "after": (y or [None, None])[:2], "new_keys": new})
    return out


def op_interleave(op):
    """Several generation runs one after the other in THIS interpreter; state fingerprint around each."""
    import importlib
    import pkgutil

    import codegen_run
    import xsdata
    # load everything first, so that the fingerprint taken before the first run already covers every module
    for m in pkgutil.walk_packages(xsdata.__path__, "xsdata."):
        if m.name in ("xsdata.__main__", "xsdata.cli", "xsdata.utils.click"):
            continue
        try:
            importlib.import_module(m.name)
        except Exception:  # noqa  (optional dependencies)
            pass
    codegen_run._install()
    results, growth = [], []
    for i, job in enumerate(op["runs"]):
        before = state_fingerprint()
        results.append(op_pipeline(job))
        d = state_diff(before, state_fingerprint())
        growth.append(d)
    return {"results": results, "state_changes": growth}


def op_config_roundtrip(op):
    """GeneratorConfig built from options -> write -> text -> read: are they equal?"""
    import dataclasses
    import tempfile
    from pathlib import Path

    from codegen_run import build_config
    from xsdata.models.config import GeneratorConfig

    cfg = build_config(dict(op["options"]))
    buf = io.StringIO()
    GeneratorConfig.write(buf, cfg)
    text = buf.getvalue()
    buf2 = io.StringIO()
    GeneratorConfig.write(buf2, cfg)
    with tempfile.TemporaryDirectory(prefix="xv_c12_") as d:
        p = Path(d) / ".xsdata.xml"
        p.write_text(text, encoding="utf-8")
        back = GeneratorConfig.read(p)

    def plain(x):
        if dataclasses.is_dataclass(x):
            return {f.name: plain(getattr(x, f.name)) for f in dataclasses.fields(x) if f.init}
        if isinstance(x, (list, tuple)):
            return [plain(v) for v in x]
        if hasattr(x, "value") and x.__class__.__module__.startswith("xsdata"):
            return x.value
        if isinstance(x, re.Pattern):
            return x.pattern
        return x

    a, b = plain(cfg), plain(back)
    return {"xml": text, "write_deterministic": text == buf2.getvalue(), "equal": a == b,
            "a": a if a != b else None, "b": b if a != b else None}


OPS = {"scc": op_scc, "topo": op_topo, "clusters": op_clusters, "class_list": op_class_list, "types": op_types,
       "sort_types_direct": op_sort_types_direct, "reset": op_reset, "imports": op_imports, "resolver": op_resolver, "pipeline": op_pipeline,
       "config_roundtrip": op_config_roundtrip, "routes": op_routes, "interleave": op_interleave}


def main():
    payload = json.load(sys.stdin)
    out = []
    for op in payload["ops"]:
        try:
            out.append(OPS[op["op"]](op))
        except BaseException as e:  # noqa
            import traceback
            out.append({"harness_error": type(e).__name__, "trace": traceback.format_exc()[-2000:]})
    json.dump({"hashseed": os.environ.get("PYTHONHASHSEED"), "results": out}, sys.stdout)


main()
