"""C08 — all backends agree: {native, lxml} writers + tree serializer give the same infoset;
{native, lxml} handlers give equal objects for every source kind.

Oracle on the real code; theorems (sinks_agree, pumps_agree) in Properties/C08.v when built."""
import concurrent.futures as cf
import os

import common
import coq_robust
from common import Check, run_impl, standard_proof_step, TRUSTED_COMMON, ROOT
import genmodels as G
from c01 import CONFIGS, NS_MAPS

IMPORTS = "From XV Require Import Base.Str Model.Bind Model.Parser Model.ParserCorr Model.Reader Model.ReaderCorr."
C08_EXTRAS = ["union_qname", "wrapper_qname", "skip_qname", "any_attrs", "scoped_qname"]
AGREE = ["agree_native_events", "agree_native_outcome", "agree_native_recorder", "agree_lxml_events", "agree_lxml_outcome",
         "agree_lxml_recorder", "agree_lxml_tree_events", "agree_et_events", "agree_et_outcome"]


def reader_jobs(ck):
    r = ck.rng
    jobs = [{"id": i, "seed": r.randrange(1 << 30), "model": {"c08": n}} for i, n in enumerate(C08_EXTRAS)]
    jobs.append({"id": len(jobs), "seed": 0, "model": {"chunk": True}, "pads": [100, 16350, 16360, 16370, 16376, 32750, 70000]})
    jobs.append({"id": len(jobs), "seed": 0, "model": {"enc": True}})
    jobs.append({"id": len(jobs), "seed": r.randrange(1 << 30), "model": {"plumbing": True}, "n": ck.n(12, 150)})
    for name in ("wildtail", "anytype", "union", "wrappers", "poly"):
        jobs.append({"id": len(jobs), "seed": r.randrange(1 << 30), "model": {"extra": name}, "n_docs": 3})
    for _ in range(ck.n(36, 400)):
        k = r.random()
        sl = ["F1"] if k < 0.3 else (["F1", "F2"] if k < 0.5 else (["F1", "F2", "F3"] if k < 0.75 else ["F1", "F4"]))
        jobs.append({"id": len(jobs), "seed": r.randrange(1 << 30), "model": {"gen": {"slices": sl}}, "n_docs": ck.n(3, 4)})
    return jobs


def run_reader_jobs(jobs, chunk=8, timeout=1500):
    chunks = [c for c in (jobs[i::chunk] for i in range(chunk)) if c]

    def one(c):
        try:
            return run_impl("impl_c08.py", {"jobs": c}, timeout=timeout)
        except Exception as e:  # noqa
            return {"dt_table": None, "jobs": [{"id": j["id"], "seed": j["seed"], "model": j["model"], "cases": [],
                                                "crashed": f"driver process failed: {e!r}"[:3000]} for j in c]}
    with cf.ThreadPoolExecutor(max_workers=len(chunks) or 1) as ex:
        outs = list(ex.map(one, chunks))
    tables = [o["dt_table"] for o in outs if o.get("dt_table")]
    res = {"dt_table": tables[0] if tables else "(@nil (qname * option (ptype * option str * option ptype)))", "jobs": []}
    for o in outs:
        res["jobs"] += o["jobs"]
    res["jobs"].sort(key=lambda j: j["id"])
    return res


def reader_correspondence(ck, fut):
    """handler models (Model/Reader.v) <-> the REAL handlers on printed documents; oracle + guards judged in Coq"""
    res = fut.result()
    defs = [f"Definition dt_table := {res['dt_table']}."]
    terms, meta, groups = [], [], []
    stats = {"jobs": len(res["jobs"]), "cases": 0, "unsupported": 0, "skipped_jobs": 0, "decorations": {}}
    for j in res["jobs"]:
        if j.get("crashed"):
            ck.failure("harness-driver-crashed", f"impl_c08.py crashed on {j['model']} seed {j['seed']}: {j['crashed'][-400:]}",
                       {"job": {"seed": j["seed"], "model": j["model"]}})
            continue
        for ch in j.get("chunk", []):
            stats.setdefault("chunk_boundary", []).append({"pad": ch["pad"], "equal": ch["equal"], "complete": ch["complete"]})
            if not ch["equal"]:
                ck.failure("handlers-differ-tail-chunk-boundary",
                           f"<M>{'x' * 3}...({ch['pad']} chars)<b/>TAIL...</M>: native {ch['native']} vs lxml {ch['lxml']}",
                           {"pad": ch["pad"], "native": ch["native"], "lxml": ch["lxml"]})
        for x in j.get("enc", []):
            if x.get("why"):
                ck.failure(f"encoding-{x['variant']}-{x['handler']}-handler",
                           f"document declared/encoded as {x['variant']} through the {x['handler']} handler from a {x['source']} source does not give "
                           f"the object of the str source: {x['why']} ({x['doc'][:120]!r})", {"job": {"seed": j["seed"], "model": j["model"]}, "case": x})
        for x in j.get("plumbing", []):
            stats["plumbing_cases"] = stats.get("plumbing_cases", 0) + 1
            if x.get("why"):
                ck.failure(f"handlers-{x['kind']}-{x['handler']}-{x['source']}",
                           f"({x['kind']}) {x['handler']} handler, {x['source']} source: {x['why']}; document {x['doc'][:250]!r}, expected {x['expected']}",
                           {"job": {"seed": j["seed"], "model": j["model"]}, "case": x})
        for t in j.get("tree", []):
            if t.get("render_exc"):
                continue          # rendering failures are the writers oracle's subject
            cls = "tree-serializer-namespaces-differ" if t.get("nsmaps_differ") else "tree-serializer-parse-differs"
            if t.get("parse_differs") and set(t["parse_differs"]) == {"native_writer"} and not t.get("nsmaps_differ"):
                cls = "writers-parse-back-differs"
            ck.failure(cls, f"TreeSerializer vs writers (ns_map={t.get('ns_map')}): {t.get('nsmaps_differ') or t.get('parse_differs')}",
                       {"job": {"seed": j["seed"], "model": j["model"]}, "source": j.get("source"), "case": t})
        stats["encoding_cases"] = stats.get("encoding_cases", 0) + (j.get("enc_n", 0) or len(j.get("enc", [])))
        stats["encoding_docs_nonascii"] = stats.get("encoding_docs_nonascii", 0) + bool(j.get("enc_nonascii"))
        stats["tree_cases"] = stats.get("tree_cases", 0) + j.get("tree_n", 0)
        if "chunk" in j or "enc" in j["model"] or "plumbing" in j["model"]:
            continue
        if j.get("skipped") or not j.get("universe") or not j.get("conv"):
            stats["skipped_jobs"] += 1
            continue
        gterms = []
        groups.append((f"Definition u_{j['id']} : universe := {j['universe']}.\n"
                       f"Definition tbl_{j['id']} : conv_table := {j['conv']}.\n"
                       f"Definition nd_{j['id']} : list (cls * list str) := {j['nodefault']}.", gterms))
        for c in j["cases"]:
            if c.get("harness_problem"):
                ck.failure("harness-printer", c["harness_problem"], {"job": {"seed": j["seed"], "model": j["model"]}, "xml": c.get("xml")})
            elif c.get("term"):
                terms.append(c["term"])
                gterms.append(c["term"])
                meta.append((j, c))
                for w in c["what"]:
                    stats["decorations"][w] = stats["decorations"].get(w, 0) + 1
            else:
                stats["unsupported"] += 1
    checks = {k: k for k in AGREE + ["oracle_handlers_agree", "oracle_et_agrees", "guard_handlers"]}
    checks["explained_F7"] = "fun x => negb (explained_by_union_decls x)"
    checks["explained_F1"] = "fun x => negb (et_models_differ x)"
    bad, cstats = coq_robust.matrix_grouped(ck, "c08_reader", IMPORTS, "\n".join(defs), groups, "rcase", checks, targets=["Model/ReaderCorr.vo"])
    stats["coq_eval"] = cstats

    def rp(i):
        j, c = meta[i]
        return {"job": {"seed": j["seed"], "model": j["model"]}, "source": j.get("source"), "xml": c["xml"], "cfg": c["cfg"],
                "what": c["what"], "summary": c["summary"]}
    for k in AGREE:
        for i in bad[k]:
            j, c = meta[i]
            ck.failure("corr-reader-" + k[6:], f"handler model and implementation disagree ({k}) on {c['xml'][:300]!r} cfg={c['cfg']} "
                                               f"impl={c['summary']}", rp(i))
    outside = set(bad["guard_handlers"])
    f7 = set(bad["explained_F7"])
    f1 = set(bad["explained_F1"])
    for i in bad["oracle_handlers_agree"]:
        j, c = meta[i]
        if i in f7:
            cls = "handlers-differ-union-nested-declarations"
        elif i in outside:
            cls = "handlers-differ-outside-guard-unexplained"
        else:
            cls = "handlers-differ-inside-guard"
        ck.failure(cls, f"native and lxml handlers disagree on {c['xml'][:300]!r}: {c['summary']['native']} vs {c['summary']['lxml']}", rp(i))
    for i in bad["oracle_et_agrees"]:
        j, c = meta[i]
        cls = "handlers-differ-native_et" if i in f1 else "handlers-differ-native_et-unexplained"
        ck.failure(cls, f"native handler on an ElementTree element disagrees with the lxml handler on the text (model "
                        f"{'reproduces it: regenerated prefixes' if i in f1 else 'does NOT reproduce it'}) {c['xml'][:300]!r}: "
                        f"{c['summary']['et']} vs {c['summary']['lxml']}", rp(i))
    for i, (j, c) in enumerate(meta):
        if not c.get("lxml_tree_same_outcome", True):
            ck.failure("handlers-differ-lxml_tree_plain", f"lxml handler: parsed tree and bytes give different outcomes on {c['xml'][:300]!r}", rp(i))
    stats["cases"] = len(terms)
    # families of the generator: one that produced no judged case is a broken check, not a pass
    fam = {}
    for j, c in meta:
        k = j["model"].get("c08") or j["model"].get("extra") or "generated"
        fam[k] = fam.get(k, 0) + 1
    for x in [x for j in res["jobs"] for x in j.get("plumbing", [])]:
        fam["plumbing:" + x["kind"]] = fam.get("plumbing:" + x["kind"], 0) + 1
    fam["chunk"] = len(stats.get("chunk_boundary", []))
    fam["encodings"] = stats.get("encoding_cases", 0)
    fam["tree"] = stats.get("tree_cases", 0)
    stats["families"] = fam
    for k in C08_EXTRAS + ["generated", "plumbing:entities", "plumbing:xinclude-mode", "plumbing:comments", "plumbing:xinclude",
                           "chunk", "encodings", "tree"]:
        if not fam.get(k):
            ck.broken_obligation(f"reader correspondence: family {k} produced no judged case", str(fam))
    stats["guard_true"] = len(terms) - len(outside)
    stats["handlers_differ"] = len(bad["oracle_handlers_agree"])
    stats["et_differs"] = len(bad["oracle_et_agrees"])
    stats["events"] = sum(c.get("n_events", 0) for _, c in meta)
    return stats, [{"xml": c["xml"][:200], "what": c["what"], "cfg": c["cfg"]} for _, c in meta[:3]]


# maps that need cleaning (namespaces.clean_prefixes): '' key, the same uri as default and prefixed, empty uri
RAW_MAPS = [{"@empty": "urn:a"}, {"": "urn:a", "p": "urn:a"}, {"p": "", "q": "urn:b"}, {"@empty": "urn:b", "b": "urn:b"}]


def model_namespaces(m):
    """every namespace the description of the model mentions (module, classes, fields)"""
    found = []

    def walk(x):
        if isinstance(x, dict):
            for k, v in x.items():
                if k in ("namespace", "module_ns") and isinstance(v, str) and v and not v.startswith("##") and v not in found:
                    found.append(v)
                walk(v)
        elif isinstance(x, (list, tuple)):
            for v in x:
                walk(v)
    walk(m)
    return found


def writer_maps(r, m):
    """user prefix maps for one instance: one that binds the DEFAULT prefix to a namespace the model uses (None key, or the
    ElementTree-style '' key), one that binds it or a named prefix to another namespace, one from the general pool
    (JSON cannot carry a None key: "" stands for None, "@empty" for the literal '' key)"""
    nss = model_namespaces(m) or ["urn:a"]
    other = [u for u in G.NS + ["urn:other"] if u not in nss] or ["urn:other"]
    own = r.choice(nss)
    maps = [{r.choice(["", "", "@empty"]): own},
            r.choice([{"": r.choice(other)}, {"p": own}, {"": own, "p": r.choice(nss)}, {"p": r.choice(other), "": own}]),
            r.choice(NS_MAPS + RAW_MAPS) if r.random() < 0.5 else raw_map(r, nss, other)]
    return maps


def raw_map(r, nss, other):
    """a user map as a caller may hand it over, i.e. BEFORE namespaces.clean_prefixes: 1-4 entries in random INSERTION ORDER
    (clean_prefixes / XMLGenerator's uri->prefix context are order sensitive) over both spellings of the default prefix
    (None and ''), named prefixes incl. the generated-looking ns0/ns1, with uris mostly from the model, so that the same uri
    is often bound to the default prefix and to a named one, or twice; rarely an empty uri (dropped by the cleaning)"""
    keys = ["", "@empty", "p", "q", "ns0", "ns1"]
    r.shuffle(keys)
    out = {}
    for k in keys[:r.choice([1, 2, 2, 3, 3, 4])]:
        x = r.random()
        out[k] = r.choice(nss) if x < 0.75 else (r.choice(other) if x < 0.95 else "")
    return out


def ordered_maps(keys, uris, maxlen):
    """every map of 1..maxlen entries over `keys` x `uris` in every insertion order"""
    import itertools
    return [dict(zip(ks, us)) for n in range(1, maxlen + 1) for ks in itertools.permutations(keys, n)
            for us in itertools.product(uris, repeat=n)]


# qualified attributes in the namespace of their element (attributeFormDefault="qualified") and in another one, next to
# unqualified ones, under every kind of user map: all three backends must agree (round-3 seed C08 m2)
QATTR_SRC = G.HEADER + '''
@dataclass
class Item:
    class Meta:
        namespace = "urn:t"
    code: Optional[str] = field(default=None, metadata={"type": "Attribute", "namespace": "urn:t"})
    other: Optional[str] = field(default=None, metadata={"type": "Attribute", "namespace": "urn:o"})
    plain: Optional[str] = field(default=None, metadata={"type": "Attribute"})
    value: Optional[str] = field(default=None, metadata={"type": "Element"})
    deep: list["Item"] = field(default_factory=list, metadata={"type": "Element", "namespace": "urn:o"})

@dataclass
class Root:
    class Meta:
        namespace = "urn:t"
    flag: Optional[str] = field(default=None, metadata={"type": "Attribute", "namespace": "urn:t"})
    item: list[Item] = field(default_factory=list, metadata={"type": "Element"})
'''


def _s(v):
    return {"__p__": "str", "v": v}


def qattr_job(ck):
    def item(code, other, plain, value, deep=()):
        return {"__cls__": "Item", "fields": {"code": _s(code) if code else None, "other": _s(other) if other else None,
                                              "plain": _s(plain) if plain else None, "value": _s(value) if value else None, "deep": list(deep)}}
    insts = [{"__cls__": "Root", "fields": {"flag": _s("f"), "item": [item("c1", "o1", "p1", "v1"), item("c2", None, None, None)]}},
             {"__cls__": "Root", "fields": {"flag": None, "item": [item(None, "o", None, "v", [item("dc", "do", "dp", None)])]}},
             {"__cls__": "Root", "fields": {"flag": _s("x"), "item": []}}]
    maps = [None, {"": "urn:t"}, {"@empty": "urn:t"}, {"": "urn:o"}, {"@empty": "urn:o"}, {"": "urn:unused"}, {"t": "urn:t"}, {"o": "urn:o"},
            {"": "urn:t", "o": "urn:o"}, {"": "urn:o", "t": "urn:t"}, {"": "urn:t", "t": "urn:t"}, {"t": "urn:t", "t2": "urn:t"},
            {"xsi": "http://www.w3.org/2001/XMLSchema-instance", "": "urn:t"}]
    cases = [{"i": i, "op": "writers", "config": c, "ns_map": nm} for i in range(len(insts)) for nm in maps
             for c in ({}, {"xml_declaration": False, "indent": "  "})]
    cases += [{"i": i, "op": "roundtrip", "writer": w, "handler": "lxml", "ns_map": nm, "strict": True}
              for i in range(len(insts)) for nm in maps for w in ("native", "lxml")]
    # user maps BEFORE cleaning, exhaustively for small sizes: both spellings of the default prefix and two named prefixes x
    # the two namespaces of the model, every insertion order (the default namespace also bound to a prefix that comes
    # first / last, None and '' together, a uri bound twice): backends agree, and the native writer's text reads back
    r = ck.rng
    for nm in ordered_maps(["", "@empty", "t", "o"], ["urn:t", "urn:o"], 3):
        i = r.randrange(2)
        cases.append({"i": i, "op": "writers", "config": r.choice(({}, {"xml_declaration": False, "indent": "  "})), "ns_map": nm,
                      "ns_order": list(nm)})
        cases.append({"i": i, "op": "roundtrip", "writer": r.choice(("native", "native", "lxml")), "handler": r.choice(("native", "lxml")),
                      "ns_map": nm, "ns_order": list(nm), "strict": True})
    return {"src": QATTR_SRC, "name": f"qattr_{ck.seed}", "root": "Root", "instances": insts, "cases": cases}


# hostile character data in every position a writer prints it: element text, attribute values (qualified and not), mixed
# content strings, text / tail / attributes of generic elements.  Oracle (impl_binding 'writers'): every backend's output
# is well-formed for an independent strict parser and the three infosets agree; 'roundtrip': it reads back as the object.
HOSTILE = ["]]>", "a]]>b", ">", "a > b >> c", "x\ry", "x\r\ny", "l1\nl2", "t\tt", "n\u0085e", "l\u2028s", "&amp;", "&#13;", "&lt;x&gt;", "&unknown;",
           "&#x26;#60;", "<![CDATA[x]]>", "<!--c-->", "<?pi?>", "--", "'\"", "\"'<>&", " lead", "trail ", "]]", "]>", "&", "<", "\u00e9]]>\u4e2d"]
HOSTILE_SRC = G.HEADER + '''
@dataclass
class Mx:
    content: list[object] = field(default_factory=list, metadata={"type": "Wildcard", "namespace": "##any", "mixed": True})

@dataclass
class H:
    a: Optional[str] = field(default=None, metadata={"type": "Attribute"})
    b: Optional[str] = field(default=None, metadata={"type": "Attribute", "namespace": "urn:h"})
    t: list[str] = field(default_factory=list, metadata={"type": "Element"})
    mx: Optional[Mx] = field(default=None, metadata={"type": "Element"})
    w: list[object] = field(default_factory=list, metadata={"type": "Wildcard", "namespace": "##other"})
'''


def hostile_job(ck):
    r = ck.rng

    def hv(solid=False):
        v = r.choice(HOSTILE)
        if r.random() < 0.3:
            v = v + r.choice(HOSTILE)
        if solid and not v.strip():
            v = "s" + v
        return v

    def anyel(depth=0):
        return {"__any__": {"qname": r.choice(["{urn:o}k", "{urn:o}k2"]), "text": hv() if r.random() < 0.7 else "", "tail": None,
                            "attributes": {"x": hv()} if r.random() < 0.5 else {},
                            "children": [anyel(depth + 1) for _ in range(r.choice([0, 0, 1]) if depth < 1 else 0)]}}

    def mixed():
        out = []
        for _ in range(r.randint(1, 3)):
            out.append(_s(hv(True)))
            out.append(anyel())
        if r.random() < 0.5:
            out.append(_s(hv(True)))
        return out
    insts = []
    for _ in range(ck.n(10, 120)):
        insts.append({"__cls__": "H", "fields": {"a": _s(hv()) if r.random() < 0.8 else None, "b": _s(hv()) if r.random() < 0.6 else None,
                                                 "t": [_s(hv(True)) for _ in range(r.randint(0, 3))],
                                                 "mx": {"__cls__": "Mx", "fields": {"content": mixed()}} if r.random() < 0.7 else None,
                                                 "w": [anyel() for _ in range(r.choice([0, 1, 2]))]}})
    # every hostile string at least once as element text and as attribute value
    insts.append({"__cls__": "H", "fields": {"a": None, "b": None, "t": [_s(v) for v in HOSTILE if v.strip()], "mx": None, "w": []}})
    insts += [{"__cls__": "H", "fields": {"a": _s(v), "b": _s(v), "t": [], "mx": None, "w": []}} for v in HOSTILE]
    cases = []
    for i in range(len(insts)):
        cases.append({"i": i, "op": "writers", "config": r.choice([{}, {"xml_declaration": False}]), "ns_map": r.choice([None, None, {"h": "urn:h"}, {"": "urn:h"}])})
        if insts[i]["fields"]["mx"] is None:      # mixed content does not read back as the same LIST (text after a child is its tail): C11
            for w in ("native", "lxml"):
                cases.append({"i": i, "op": "roundtrip", "writer": w, "handler": r.choice(["native", "lxml"]), "strict": True})
    return {"src": HOSTILE_SRC, "name": f"hostile_{ck.seed}", "root": "H", "instances": insts, "cases": cases}


def run(ck: Check):
    ck.level = "proof"
    r = ck.rng
    obligations, discharged, axioms = 0, 0, []
    pool = cf.ThreadPoolExecutor(max_workers=1)
    rjobs = reader_jobs(ck)
    fut = pool.submit(run_reader_jobs, rjobs)          # the implementation runs while the proofs are checked
    if os.path.exists(os.path.join(ROOT, "coq", "Properties", "C08.v")):
        obligations, discharged, axioms = standard_proof_step(ck, extra_targets=["Model/ReaderCorr.vo"])
    else:
        common.make(["Model/ReaderCorr.vo"])
    jobs = []
    for k in range(ck.n(150, 2000)):
        m = G.gen_model(r, slices=r.choice([("F1",), ("F1", "F2"), ("F1", "F2", "F3"), ("F1", "F4")]))
        insts = [G.gen_instance(r, m, m["root"]) for _ in range(3)]
        cases = []
        for i in range(len(insts)):
            for nm in writer_maps(r, m):
                cases.append({"i": i, "op": "writers", "config": r.choice(CONFIGS), "ns_map": nm})
            cases.append({"i": i, "op": "handlers", "rewrite_seed": r.randrange(1 << 30) if r.random() < 0.6 else None})
        jobs.append({"src": G.render_source(m), "name": f"gm_{ck.seed}_{k}", "root": m["root"], "instances": insts, "cases": cases})
    jobs.append(qattr_job(ck))
    jobs.append(hostile_job(ck))
    out = []
    for i in range(0, len(jobs), 20):
        out += run_impl("impl_binding.py", jobs[i:i + 20], timeout=1800)
    n = 0
    stats = {}
    for job, o in zip(jobs, out):
        if "load_error" in o:
            ck.failure("harness-model-load", o["load_error"], {"src": job["src"]})
            continue
        for case, res in zip(job["cases"], o["results"]):
            n += 1
            stats[case["op"]] = stats.get(case["op"], 0) + 1
            if res.get("equal"):
                continue
            if "exc" in res and case["op"] == "roundtrip":
                ck.failure(f"writer-roundtrip-{case.get('writer', 'native')}-{res['exc']}",
                           f"{case.get('writer')} writer with ns_map={case.get('ns_map')}: writing or reading back raises {res['exc']}: "
                           f"{res.get('msg', '')[:200]}", {"model_src": job["src"], "instance": job["instances"][case["i"]], "case": case})
            elif "exc" in res:
                ck.failure("harness-exception-" + res["exc"], res.get("msg", "") + res.get("tb", ""), {"src": job["src"], "case": case})
            elif case["op"] == "roundtrip":
                ck.failure("writer-roundtrip-" + case.get("writer", "native"),
                           f"{case.get('writer')} writer with ns_map={case.get('ns_map')}: the document does not read back as the object "
                           f"({res.get('diff')}): {res.get('xml', '')[:300]}", {"model_src": job["src"], "instance": job["instances"][case["i"]],
                                                                                "case": case, "result": res})
            elif case["op"] == "writers":
                errs = res.get("errors") or {}
                nm = case.get("ns_map") or {}
                agree = res.get("agree") or []
                if ("" in nm or "@empty" in nm) and not errs and agree == ["lxml=tree"]:
                    cls = "writers-user-default-namespace"     # the native writer is the odd one out
                elif ("" in nm or "@empty" in nm) and list(errs) == ["native"] and errs["native"].startswith("KeyError"):
                    cls = "writers-native-keyerror-default-namespace"
                elif errs:
                    cls = "writers-error-" + "-".join(sorted(errs))
                else:
                    cls = "writers-infoset-differs"
                ck.failure(cls, f"writers disagree ({errs or 'infosets differ'}) ns_map={nm}",
                           {"model_src": job["src"], "instance": job["instances"][case["i"]], "case": case, "result": res})
            else:
                # one failure per group of source kinds (each group has its own cause)
                groups = {}
                for k, why in res["diffs"].items():
                    g = "native_et" if "/et_" in k else ("lxml_tree" if k.startswith("lxml/lxml_") else k.replace("/", "_"))
                    groups.setdefault(g, {})[k] = why
                for g, ds in groups.items():
                    if g == "lxml_tree" and case.get("rewrite_seed") is None:
                        g = "lxml_tree_plain"
                    ck.failure("handlers-differ-" + g, f"handlers/sources disagree: {ds}",
                               {"model_src": job["src"], "instance": job["instances"][case["i"]], "case": case, "result": res})
    for op, fams in (("writers", ("gm_", "qattr_", "hostile_")), ("handlers", ("gm_",)), ("roundtrip", ("qattr_", "hostile_"))):
        for f in fams:
            if not any(c["op"] == op for job, o in zip(jobs, out) if job["name"].startswith(f) and "results" in o for c in job["cases"]):
                ck.broken_obligation(f"oracle: family {f}* produced no judged {op} case", "")
    try:
        rstats, rsamples = reader_correspondence(ck, fut)
    except common.BuildError as e:
        ck.broken_obligation("corr-reader:" + e.target, e.log)
        rstats, rsamples = {"cases": 0}, []
    ck.cov["evaluations"] = n + rstats["cases"] + rstats.get("encoding_cases", 0) + rstats.get("tree_cases", 0) + rstats.get("plumbing_cases", 0)
    ck.cov["distinct_nontrivial"] = n + rstats["cases"]
    ck.cov["rule"] = ("reader correspondence: one case = (model, printed document with its declarations, parser options) -> events, outcome and "
                      "recorder map of both REAL handlers (+ lxml tree and ElementTree sources) compared in Coq with Model/Reader.v, oracle and "
                      "theorem guard judged in Coq; writers: (model, instance, config, user map) -> 3 infosets compared; "
                      "handlers: (model, instance) -> 2 handlers x 7 source kinds compared")
    ck.cov["input_distribution"] = dict(stats, reader=rstats)
    ck.cov["samples"] = rsamples + [{"case": jobs[0]["cases"][0]}]
    return ck.finish(obligations=obligations, discharged=discharged,
                     checker_cmd="make -C coq Properties/C08.vo && coqc -Q coq XV coq/Properties/C08.v (Print Assumptions)",
                     trusted_base=TRUSTED_COMMON + [
                         "the tokenisers (expat / libxml2): event order and element.nsmap are modelled by Reader.flatten / lxml_nsmap and "
                         "tied by the reader correspondence, not verified; source kinds (bytes/str/path/file object) are oracle-only",
                         "harness/impl_c08.py document printer and harness/bind_export.py (real events/objects -> Gallina)",
                         "primitive converter taken as the recorded table of the real run (property C05 proves the converter itself)",
                         "axioms: " + (", ".join(axioms) or "none (all theorems closed under the global context)")],
                     assumptions=["element and attribute names in parser events are non-empty",
                                  "one XmlMeta per class (metadata cache keyed by class: property C14's subject)",
                                  "documents are namespace-well-formed (a prefix is bound to a non-empty uri; only xmlns=\"\" undeclares)"])
