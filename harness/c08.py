"""C08 — all backends agree: {native, lxml} writers + tree serializer give the same infoset;
{native, lxml} handlers give equal objects for every source kind.

Oracle on the real code; theorems (sinks_agree, pumps_agree) in Properties/C08.v when built."""
import os

from common import Check, run_impl, standard_proof_step, TRUSTED_COMMON, ROOT
import genmodels as G
from c01 import CONFIGS, NS_MAPS


# maps that need cleaning (namespaces.clean_prefixes): '' key, the same uri as default and prefixed, empty uri
RAW_MAPS = [{"@empty": "urn:a"}, {"": "urn:a", "p": "urn:a"}, {"p": "", "q": "urn:b"}, {"@empty": "urn:b", "b": "urn:b"}]


def run(ck: Check):
    ck.level = "proof"
    r = ck.rng
    obligations, discharged, axioms = 0, 0, []
    if os.path.exists(os.path.join(ROOT, "coq", "Properties", "C08.v")):
        obligations, discharged, axioms = standard_proof_step(ck)
    jobs = []
    for k in range(ck.n(150, 2000)):
        m = G.gen_model(r, slices=r.choice([("F1",), ("F1", "F2"), ("F1", "F2", "F3"), ("F1", "F4")]))
        insts = [G.gen_instance(r, m, m["root"]) for _ in range(3)]
        cases = []
        for i in range(len(insts)):
            cases.append({"i": i, "op": "writers", "config": r.choice(CONFIGS), "ns_map": r.choice(NS_MAPS + RAW_MAPS)})
            cases.append({"i": i, "op": "handlers", "rewrite_seed": r.randrange(1 << 30) if r.random() < 0.6 else None})
        jobs.append({"src": G.render_source(m), "name": f"gm_{ck.seed}_{k}", "root": m["root"], "instances": insts, "cases": cases})
    out = []
    for i in range(0, len(jobs), 20):
        out += run_impl("impl_binding.py", jobs[i:i + 20], timeout=1800)
    n = 0
    stats = {}
    for job, o in zip(jobs, out):
        if "load_error" in o:
            ck.failure("harness-model-load", o["load_error"], {"src": job["src"]})
            continue
        for case, res in zip(job["cases"], o["results"]):
            n += 1
            stats[case["op"]] = stats.get(case["op"], 0) + 1
            if res.get("equal"):
                continue
            if "exc" in res:
                ck.failure("harness-exception-" + res["exc"], res.get("msg", "") + res.get("tb", ""), {"src": job["src"], "case": case})
            elif case["op"] == "writers":
                errs = res.get("errors") or {}
                nm = case.get("ns_map") or {}
                agree = res.get("agree") or []
                if ("" in nm or "@empty" in nm) and not errs and agree == ["lxml=tree"]:
                    cls = "writers-user-default-namespace"     # the native writer is the odd one out
                elif ("" in nm or "@empty" in nm) and list(errs) == ["native"] and errs["native"].startswith("KeyError"):
                    cls = "writers-native-keyerror-default-namespace"
                elif errs:
                    cls = "writers-error-" + "-".join(sorted(errs))
                else:
                    cls = "writers-infoset-differs"
                ck.failure(cls, f"writers disagree ({errs or 'infosets differ'}) ns_map={nm}",
                           {"model_src": job["src"], "instance": job["instances"][case["i"]], "case": case, "result": res})
            else:
                # one failure per group of source kinds (each group has its own cause)
                groups = {}
                for k, why in res["diffs"].items():
                    g = "native_et" if "/et_" in k else ("lxml_tree" if k.startswith("lxml/lxml_") else k.replace("/", "_"))
                    groups.setdefault(g, {})[k] = why
                for g, ds in groups.items():
                    if g == "lxml_tree" and case.get("rewrite_seed") is None:
                        g = "lxml_tree_plain"
                    ck.failure("handlers-differ-" + g, f"handlers/sources disagree: {ds}",
                               {"model_src": job["src"], "instance": job["instances"][case["i"]], "case": case, "result": res})
    ck.cov["evaluations"] = n
    ck.cov["distinct_nontrivial"] = n
    ck.cov["rule"] = "writers: (model, instance, config, user map) -> 3 infosets compared; handlers: (model, instance) -> 2 handlers x 7 source kinds compared"
    ck.cov["input_distribution"] = stats
    ck.cov["samples"] = [{"case": jobs[0]["cases"][0]}]
    return ck.finish(obligations=obligations, discharged=discharged, checker_cmd="coqc", trusted_base=TRUSTED_COMMON)
