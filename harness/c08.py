"""C08 — all backends agree: {native, lxml} writers + tree serializer give the same infoset;
{native, lxml} handlers give equal objects for every source kind.

Oracle on the real code; theorems (sinks_agree, pumps_agree) in Properties/C08.v when built."""
import os

from common import Check, run_impl, standard_proof_step, TRUSTED_COMMON, ROOT
import genmodels as G
from c01 import CONFIGS, NS_MAPS


def run(ck: Check):
    ck.level = "proof"
    r = ck.rng
    obligations, discharged, axioms = 0, 0, []
    if os.path.exists(os.path.join(ROOT, "coq", "Properties", "C08.v")):
        obligations, discharged, axioms = standard_proof_step(ck)
    jobs = []
    for k in range(ck.n(50, 1200)):
        m = G.gen_model(r, slices=r.choice([("F1",), ("F1", "F2"), ("F1", "F2", "F3"), ("F1", "F4")]))
        insts = [G.gen_instance(r, m, m["root"]) for _ in range(3)]
        cases = []
        for i in range(len(insts)):
            cases.append({"i": i, "op": "writers", "config": r.choice(CONFIGS), "ns_map": r.choice(NS_MAPS)})
            cases.append({"i": i, "op": "handlers"})
        jobs.append({"src": G.render_source(m), "name": f"gm_{ck.seed}_{k}", "root": m["root"], "instances": insts, "cases": cases})
    out = []
    for i in range(0, len(jobs), 20):
        out += run_impl("impl_binding.py", jobs[i:i + 20], timeout=1800)
    n = 0
    stats = {}
    for job, o in zip(jobs, out):
        if "load_error" in o:
            ck.failure("harness-model-load", o["load_error"], {"src": job["src"]})
            continue
        for case, res in zip(job["cases"], o["results"]):
            n += 1
            stats[case["op"]] = stats.get(case["op"], 0) + 1
            if res.get("equal"):
                continue
            if "exc" in res:
                ck.failure("harness-exception-" + res["exc"], res.get("msg", "") + res.get("tb", ""), {"src": job["src"], "case": case})
            elif case["op"] == "writers":
                errs = res.get("errors") or {}
                nm = case.get("ns_map") or {}
                if "" in nm:
                    cls = "writers-user-default-namespace"
                elif errs:
                    cls = "writers-error-" + "-".join(sorted(errs))
                else:
                    cls = "writers-infoset-differs"
                ck.failure(cls, f"writers disagree ({errs or 'infosets differ'}) ns_map={nm}",
                           {"model_src": job["src"], "instance": job["instances"][case["i"]], "case": case, "result": res})
            else:
                kinds = sorted({k.split("/")[0] + ("/et" if "/et_" in k else "") for k in res["diffs"]})
                ck.failure("handlers-differ-" + "-".join(kinds).replace("/", "_"), f"handlers/sources disagree: {res['diffs']}",
                           {"model_src": job["src"], "instance": job["instances"][case["i"]], "case": case, "result": res})
    ck.cov["evaluations"] = n
    ck.cov["distinct_nontrivial"] = n
    ck.cov["rule"] = "writers: (model, instance, config, user map) -> 3 infosets compared; handlers: (model, instance) -> 2 handlers x 7 source kinds compared"
    ck.cov["input_distribution"] = stats
    ck.cov["samples"] = [{"case": jobs[0]["cases"][0]}]
    return ck.finish(obligations=obligations, discharged=discharged, checker_cmd="coqc", trusted_base=TRUSTED_COMMON)
