"""Runs the REAL xsdata XML writers on a batch (JSON stdin -> JSON stdout).

case: {"cfg": {"schema_location": s|null, "no_ns": s|null, "xml_declaration": bool},
       "user": [[prefix|null, uri], ...]        raw user map (insertion ordered)
       "events": [...] | "object": {...}}        events, or a model instance description
event: ["start", [uri|null, local]] | ["attr", [uri|null, local], value] | ["data", value] | ["end", q]
value: null | {"t": text} | {"q": [uri|null, local]} | {"l": [atom, ...]}
result: {"events": [...], "native": {...}, "lxml": {...}}
   writer result: {"out": text, "parsed": tree|null, "expat": .., "lxml": ..} | {"err": ExcName, "msg": ..}
tree: {"n": [uri|null, local], "d": [[prefix|null, uri], ...], "a": [[[uri|null, local], value], ...], "k": [text | tree]}
"""
import io
import json
import sys
from xml.etree import ElementTree as ET
from xml.etree.ElementTree import QName

from lxml import etree

from xsdata.formats.converter import converter
from xsdata.formats.dataclass.serializers.config import SerializerConfig
from xsdata.formats.dataclass.serializers.mixins import EventGenerator
from xsdata.formats.dataclass.serializers.writers import LxmlEventWriter, XmlEventWriter
from xsdata.utils import namespaces


# ----------------------------------------------------------------- events <-> JSON
def qtext(q):
    u, l = q
    return "{%s}%s" % (u, l) if u else l


def value_of(v):
    if v is None:
        return None
    if "t" in v:
        return v["t"]
    if "q" in v:
        return QName(qtext(v["q"]))
    return [value_of(a) for a in v["l"]]


def event_of(e):
    k = e[0]
    if k in ("start", "end"):
        return (k, qtext(e[1]))
    if k == "attr":
        return (k, qtext(e[1]), value_of(e[2]))
    return (k, value_of(e[1]))


class Unrepresentable(Exception):
    pass


def qpair(text):
    if not text:
        raise Unrepresentable("empty qname")
    u, l = namespaces.split_qname(text)
    if qtext((u, l)) != text:
        raise Unrepresentable(text)
    return [u, l]


def atom_json(v):
    if isinstance(v, QName):
        return {"q": qpair(v.text)}
    if isinstance(v, str):
        return {"t": v}
    if isinstance(v, (list, tuple)):
        raise Unrepresentable("nested")
    return {"t": converter.serialize(v)}


def flat_atoms(v, out):
    for x in v:
        if isinstance(x, (list, tuple)):
            if not x:
                out.append({"t": ""})
            else:
                flat_atoms(x, out)
        elif x is None:
            raise Unrepresentable("None in list")
        else:
            out.append(atom_json(x))


def value_json(v):
    if v is None:
        return None
    if isinstance(v, (list, tuple)):
        out = []
        flat_atoms(v, out)
        return {"l": out}
    return atom_json(v)


def event_json(ev):
    k = ev[0]
    if k in ("start", "end"):
        return [k, qpair(ev[1])]
    if k == "attr":
        return [k, qpair(ev[1]), value_json(ev[2])]
    return [k, value_json(ev[1])]


# ----------------------------------------------------------------- parse back
def clark(tag):
    if tag[0] == "{":
        u, l = tag[1:].split("}", 1)
        return [u or None, l]
    return [None, tag]


def canon_decls(parent, cur):
    out = []
    for p, u in cur.items():
        if parent.get(p) != u:
            out.append([p, u])
    if None in parent and None not in cur:
        out.append([None, ""])
    out.sort(key=lambda e: (e[0] is not None, e[0] or ""))
    return out


def parse_expat(data):
    try:
        p = ET.XMLPullParser(events=("start", "end", "start-ns", "end-ns"))
        p.feed(data)
        p.close()
        pending, decls, root = [], {}, None
        for ev, x in p.read_events():
            if ev == "start-ns":
                pending.append((x[0] or None, x[1] or ""))
            elif ev == "start":
                decls[id(x)] = pending
                pending = []
                if root is None:
                    root = x
    except ET.ParseError:
        return None

    def walk(el, scope):
        cur = dict(scope)
        for pfx, uri in decls.get(id(el), []):
            if pfx == "xml":
                continue
            if uri == "":
                cur.pop(pfx, None)
            else:
                cur[pfx] = uri
        kids = []
        if el.text:
            kids.append(el.text)
        for ch in el:
            kids.append(walk(ch, cur))
            if ch.tail:
                kids.append(ch.tail)
        return {"n": clark(el.tag), "d": canon_decls(scope, cur), "a": [[clark(k), v] for k, v in el.attrib.items()],
                "k": kids}

    return walk(root, {})


def parse_lxml(data):
    try:
        parser = etree.XMLParser(resolve_entities=False, no_network=True, remove_blank_text=False, huge_tree=False)
        root = etree.fromstring(data, parser)
    except etree.XMLSyntaxError:
        return None

    def walk(el, scope):
        cur = {k: v for k, v in el.nsmap.items() if k != "xml" and v}
        kids = []
        if el.text:
            kids.append(el.text)
        for ch in el:
            if not isinstance(ch.tag, str):
                raise ValueError("unexpected node")
            kids.append(walk(ch, cur))
            if ch.tail:
                kids.append(ch.tail)
        return {"n": clark(el.tag), "d": canon_decls(scope, cur), "a": [[clark(k), v] for k, v in el.attrib.items()],
                "k": kids}

    return walk(root, {})


def merge_text(t):
    """adjacent text items are one text node"""
    if t is None:
        return None
    kids = []
    for k in t["k"]:
        if isinstance(k, str):
            if kids and isinstance(kids[-1], str):
                kids[-1] += k
            else:
                kids.append(k)
        else:
            kids.append(merge_text(k))
    return {"n": t["n"], "d": t["d"], "a": t["a"], "k": kids}


# ----------------------------------------------------------------- the writers
def user_map(raw):
    return {(p if p is not None else None): u for p, u in raw}


def run_writer(W, events, raw_user, cfg):
    out = io.StringIO()
    config = SerializerConfig(xml_declaration=bool(cfg.get("xml_declaration")),
                              schema_location=cfg.get("schema_location"),
                              no_namespace_schema_location=cfg.get("no_ns"))
    ns_map = user_map(raw_user)
    try:
        # exactly what XmlSerializer.write does
        handler = W(config=config, output=out, ns_map=namespaces.clean_prefixes(ns_map) if ns_map else {})
        handler.write(iter(events))
    except Exception as e:  # noqa
        return {"err": type(e).__name__, "msg": str(e)[:200]}
    text = out.getvalue()
    try:
        data = text.encode("utf-8")
    except UnicodeEncodeError:
        return {"out": text, "parsed": None, "expat": None, "lxml": None, "agree": True}
    a = merge_text(parse_expat(data))
    b = merge_text(parse_lxml(data))
    return {"out": text, "parsed": a if a == b else None, "expat": a, "lxml": b, "agree": a == b}


# ----------------------------------------------------------------- stream (b): real objects
def build_object(desc):
    import impl_c03_models as c03_models  # hand-written dataclass models

    return c03_models.build(desc)


def main():
    cases = json.load(sys.stdin)
    res = []
    for c in cases:
        r = {}
        try:
            if "object" in c:
                obj = build_object(c["object"])
                events = list(EventGenerator().generate(obj))
                r["events"] = [event_json(e) for e in events]
            else:
                events = [event_of(e) for e in c["events"]]
        except Unrepresentable as e:
            res.append({"skip": str(e)})
            continue
        except Exception as e:  # noqa  (event generation failed: not the writer half)
            res.append({"skip": "generate: %s %s" % (type(e).__name__, e)})
            continue
        r["native"] = run_writer(XmlEventWriter, events, c["user"], c["cfg"])
        r["lxml"] = run_writer(LxmlEventWriter, events, c["user"], c["cfg"])
        res.append(r)
    json.dump(res, sys.stdout)


sys.path.insert(0, __import__("os").path.dirname(__import__("os").path.abspath(__file__)))
main()
